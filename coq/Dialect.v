(* Dialect.v — C07: a role-tagged TOKEN view of the renderers (definitions only).

   [ttoks] is Terms.render with every piece of output classified: plain text, identifier / alias / query-alias
   (with the quote string actually used), string literal (quote used + raw payload), the AS-or-blank separator,
   boolean literal, vendor text (ARRAY brackets ...).  lemmas/DialectTerms.v proves  render = tflat o ttoks  for
   every term and context, so for expressions the token view IS the shared model.

   [itoks]/[qtoks] do the same for Query.ritem / Query.rquery (all five statement kinds, WITH, joins, sub-queries
   at every item position, function arguments, set operations).  They are written on explicit fuel (one unit per
   item / statement level; "fuel" is an error value that the theorems exclude and the correspondence check would
   report) and reuse every helper of Query.v (defaults, fk, naming, scope, with_namespace).  They take a class
   re-labelling [rho] that is applied to every class label when it is consulted: [rho = id] renders the statement
   as labelled, [rho = fun _ => c] renders "the same specification built by class c at every level".
   The token text is compared byte for byte with pypika AND with Query.str_query on every correspondence case. *)
From PV Require Import Base Crit gen.TermsTable Terms Page gen.QueryTable Query.
Local Open Scope list_scope.

(* who supplied secondary_quote_char / alias_quote_char / as_keyword for the piece of text:
   the caller of the outermost get_sql (= the outer class's defaults for str()), the fall-back values below a
   function call (Function.get_sql forwards only quote_char / dialect / with_namespace), or the defaults of a
   sub-query's own class (a sub-query that sits below a function call fills the missing keys itself) *)
Inductive origin := OTop | OFn (c : option cls).

Inductive role :=
| RIdent                    (* table / schema / column name *)
| RAlias                    (* alias of a term or table; GROUP BY / ORDER BY reference to a selected alias *)
| RQual                     (* a table's ALIAS used as the qualifier of a column (Field / Star namespace): quote_char *)
| RQAlias (inner : cls)     (* alias of a sub-query (or set operation) built by class [inner]: query_alias_quote_char *)
| RTAlias                   (* alias of the term-level stand-in sub-query TSub: quote_char *)
| RCte.                     (* name of a WITH clause and references to it: rendered bare by every class *)

Inductive atok :=
| AText (s : string)
| AId (r : role) (qu : option string) (name : string) (og : origin)
| AStr (qu : option string) (raw : string) (og : origin)
| AAs (kw : bool) (og : origin)
| ABool (b : bool) (sqlite : bool)
| AVend (s : string).       (* vendor-specific text: pagination, ARRAY form, set-operation parentheses, ClickHouse keywords *)

(* the flag marks the tokens of a GROUP BY item (alias reference vs expression is a vendor choice) *)
Definition dtok := (bool * atok)%type.

Definition T (s : string) : dtok := (false, AText s).
Definition V (s : string) : dtok := (false, AVend s).
Definition mark_group (ts : list dtok) : list dtok := map (fun t => (true, snd t)) ts.

Definition atok_text (a : atok) : string :=
  match a with
  | AText s => s
  | AId _ qu n _ => fq qu n
  | AStr qu raw _ => fq qu (double_quote qu raw)
  | AAs kw _ => if kw then " AS " else " "
  | ABool b sl => if sl then (if b then "1" else "0") else (if b then "true" else "false")
  | AVend s => s
  end.
Definition tok_text (t : dtok) : string := atok_text (snd t).
Definition tflat (ts : list dtok) : string := sconcat (map tok_text ts).

Fixpoint tjoin (sep : string) (l : list (list dtok)) : list dtok :=
  match l with
  | [] => []
  | [x] => x
  | x :: r => x ++ T sep :: tjoin sep r
  end.
Definition tparen (b : bool) (ts : list dtok) : list dtok := if b then T "(" :: ts ++ [T ")"] else ts.
(* parentheses whose presence is a vendor choice (wrap_set_operation_queries) *)
Definition vparen (b vendor : bool) (ts : list dtok) : list dtok :=
  if b then (if vendor then V "(" :: ts ++ [V ")"] else T "(" :: ts ++ [T ")"]) else ts.

(* _operand_sql: an operand that is a predicate is wrapped *)
Definition topnd (sl : oslot) (t : term) (ts : list dtok) : list dtok := tparen (operand_parens sl (okind_of t)) ts.
(* parentheses of a minus operand: [static] part decided by the operand's constructor; the [dyn] part ("the operand's text
   starts with a minus sign") depends on the rendered text, hence - for exotic quote strings - on the quotes: these guard
   parentheses are emitted as layout tokens that [erase] drops *)
Definition mparen (static dyn : bool) (ts : list dtok) : list dtok :=
  if static then T "(" :: ts ++ [T ")"] else if dyn then V "(" :: ts ++ [V ")"] else ts.

(* format_alias_sql *)
Definition falias (r : role) (og : origin) (ts : list dtok) (alias : option string) (qc aqc : option string) (kw : bool)
  : list dtok :=
  match alias with
  | None => ts
  | Some a => ts ++ [(false, AAs kw og); (false, AId r (or_ostr aqc qc) a og)]
  end.
Definition alias_toks (c : ctx) (og : origin) (qc : option string) (ts : list dtok) (alias : option string) : list dtok :=
  falias RAlias og ts alias qc (aq c) (askw c).

Fixpoint rmapM {A B} (f : A -> res B) (l : list A) : res (list B) :=
  match l with
  | [] => Ok []
  | x :: r => a <- f x ;; rest <- rmapM f r ;; Ok (a :: rest)
  end.

(* ---------------- expressions: Terms.render with tokens ---------------- *)
(* the namespace of a column: the table's name, or - when the table carries an alias - that alias.  A sub-query source
   has an empty name (Query.src_ref): its qualifier is the query alias, which Snowflake deliberately leaves bare. *)
Definition qual_role (tb : tref) : role :=
  if truthy_ostr (talias tb) then (match tname tb with EmptyString => RIdent | _ => RQual end) else RIdent.
Definition field_toks (c : ctx) (og : origin) (name : string) (tbl : option tref) : list dtok :=
  let base := [(false, AId RIdent (q c) name og)] in
  match tbl with
  | Some tb => if wn c || truthy_ostr (talias tb)
               then (false, AId (qual_role tb) (q c) (table_name tb) og) :: T "." :: base else base
  | None => base end.

Fixpoint ttoks (c : ctx) (og : origin) (t : term) {struct t} : res (list dtok) :=
  match t with
  | TField name tbl alias =>
      let s := field_toks c og name tbl in
      Ok (if wa c then alias_toks c og (q c) s alias else s)
  | TStar tbl =>
      Ok (match tbl with
          | Some tb => if wn c || truthy_ostr (talias tb) then [(false, AId (qual_role tb) (q c) (table_name tb) og); T ".*"] else [T "*"]
          | None => [T "*"] end)
  | TValS s alias => Ok (alias_toks c og (q c) [(false, AStr (sq c) s og)] alias)
  | TValI z alias => Ok (alias_toks c og (q c) [T (Z_to_string z)] alias)
  | TValB b sqlite alias => Ok (alias_toks c og (q c) [(false, ABool b sqlite)] alias)
  | TValNone alias => Ok (alias_toks c og (q c) [T "null"] alias)
  | TValRaw txt alias => Ok (alias_toks c og (q c) [T txt] alias)
  | TLit raw alias => Ok (alias_toks c og (q c) [T raw] alias)
  | TParam txt => Ok [T txt]
  | TNeg t' =>
      s0 <- ttoks (opc SNeg t' (set_wa c false)) og t' ;;
      let s := topnd SNeg t' s0 in
      Ok (T "-" :: mparen (match t' with TArith _ _ _ _ => neg_parens_arith | TNeg _ => neg_parens_neg | _ => false end)
                          (neg_parens_minus && starts_minus (tflat s)) s)
  | TArith op l r alias =>
      let c' := set_wa c false in
      a0 <- ttoks (opc SArithL l c') og l ;; b0 <- ttoks (opc SArithR r c') og r ;;
      let a := topnd SArithL l a0 in
      let b := topnd SArithR r b0 in
      let s := tparen (left_needs_parens op (top_op l)) a ++ T (aop_text op)
               :: mparen (right_needs_parens op (top_op r))
                         (sub_parens_minus && (match op with OSub => true | _ => false end) && starts_minus (tflat b)) b in
      Ok (if wa c then alias_toks c og (q c) s alias else s)
  | TBasic cm l r alias =>
      let c' := set_wa c false in
      a0 <- ttoks (opc SCmpL l c') og l ;; b0 <- ttoks (opc SCmpR r c') og r ;;
      let s := topnd SCmpL l a0 ++ T (cmp_text cm) :: topnd SCmpR r b0 in
      Ok (if wa c then alias_toks c og (q c) s alias else s)
  | TCplx bo l r alias =>
      let c' := set_wa c false in
      a <- ttoks (set_subc c' (needs_brackets_x bo (top_bop l))) og l ;;
      b <- ttoks (set_subc c' (needs_brackets_x bo (top_bop r))) og r ;;
      let s := tparen (subc c) (a ++ T (" " ++ bop_text_x bo ++ " ") :: b) in
      Ok (if wa c then alias_toks c og (q c) s alias else s)
  | TIn t' cont negated alias =>
      a <- ttoks (opc SInTerm t' (set_wa (set_subq c false) false)) og t' ;; b <- ttoks (set_wa (set_subq c true) false) og cont ;;
      Ok (alias_toks c og (q c) (topnd SInTerm t' a ++ T (" " ++ (if negated then "NOT " else "") ++ "IN ") :: b) alias)
  | TBetween t' lo hi alias =>
      let c' := set_wa c false in
      a <- ttoks (opc SBetTerm t' c') og t' ;; b <- ttoks (opc SBetLo lo c') og lo ;; d <- ttoks (opc SBetHi hi c') og hi ;;
      Ok (alias_toks c og (q c) (topnd SBetTerm t' a ++ T " BETWEEN " :: topnd SBetLo lo b ++ T " AND " :: topnd SBetHi hi d) alias)
  | TBitAnd t' v alias =>
      a <- ttoks (set_wa c false) og t' ;; Ok (alias_toks c og (q c) (T "(" :: a ++ [T (" & " ++ v ++ ")")]) alias)
  | TIsNull t' alias =>
      a <- ttoks (opc SIsNull t' (set_wa c false)) og t' ;; Ok (alias_toks c og (q c) (topnd SIsNull t' a ++ [T " IS NULL"]) alias)
  | TNotNull t' alias =>
      a <- ttoks (opc SNotNull t' (set_wa c false)) og t' ;; Ok (alias_toks c og (q c) (topnd SNotNull t' a ++ [T " IS NOT NULL"]) alias)
  | TNot t' alias => a <- ttoks (set_wa (set_subc c true) false) og t' ;; Ok (alias_toks (set_subc c true) og (q c) (T "NOT " :: a) alias)
  | TAll t' alias => a <- ttoks (set_wa c false) og t' ;; Ok (alias_toks c og (q c) (a ++ [T " ALL"]) alias)
  | TEmpty => Err "TypeError"
  | TCase ws els alias =>
      let c' := set_wa c false in
      match ws with
      | WNil => Err "CaseException"
      | _ =>
        cs <- ttoks_whens c' og ws ;;
        e <- match els with ONone => Ok [] | OSome t' => s <- ttoks c' og t' ;; Ok (T " ELSE " :: s) end ;;
        let s := T "CASE " :: tjoin " " cs ++ e ++ [T " END"] in
        Ok (if wa c then alias_toks c og (q c) s alias else s)
      end
  | TFunc name args special alias =>
      ss <- ttoks_list (fctx c) og args ;;
      let s := T (name ++ "(") :: tjoin "," ss ++ [T ((match special with Some sp => " " ++ sp | None => "" end) ++ ")")] in
      Ok (if wa c then alias_toks c og (q c) s alias else s)
  | TTuple vs alias => ss <- ttoks_list (set_wa c false) og vs ;; Ok (alias_toks c og (q c) (T "(" :: tjoin "," ss ++ [T ")"]) alias)
  | TArray vs alias =>
      ss <- ttoks_list (set_wa c false) og vs ;;
      let body := tjoin "," ss in
      let s := if is_pg (dia c)
               then (match tflat body with
                     | EmptyString => V "'{}'" :: body      (* [body] has empty text here; kept for the erased view *)
                     | _ => V "ARRAY[" :: body ++ [V "]"] end)
               else V "[" :: body ++ [V "]"] in
      Ok (alias_toks c og (q c) s alias)
  | TSub col tbl alias =>
      let body := [T "SELECT "; (false, AId RIdent (q c) col og); T " FROM "; (false, AId RIdent (q c) tbl og)] in
      let s := tparen (subq c) body in
      Ok (if wa c then falias RTAlias og s alias (q c) None (askw c) else s)
  end
with ttoks_list (c : ctx) (og : origin) (l : tlist) {struct l} : res (list (list dtok)) :=
  match l with
  | TNil => Ok []
  | TCons t r => a <- ttoks c og t ;; rest <- ttoks_list c og r ;; Ok (a :: rest)
  end
with ttoks_whens (c : ctx) (og : origin) (l : wlist) {struct l} : res (list (list dtok)) :=
  match l with
  | WNil => Ok []
  | WCons cr v r =>
      a <- ttoks c og cr ;; b <- ttoks c og v ;; rest <- ttoks_whens c og r ;;
      Ok ((T "WHEN " :: a ++ T " THEN " :: b) :: rest)
  end.

(* ---------------- tables ---------------- *)
Definition table_toks (c : ctx) (og : origin) (t : tref) : list dtok :=
  let base := [(false, AId RIdent (q c) (tname t) og)] in
  let full := match tschema t with
              | [] => base
              | ch => tjoin "." (map (fun s => [(false, AId RIdent (q c) s og)]) ch) ++ T "." :: base end in
  falias RAlias og full (talias t) (q c) (aq c) (askw c).

Definition zip_names {A} (l : list A) (ns : list (option string)) : list (A * option string) :=
  (fix go (l : list A) (ns : list (option string)) : list (A * option string) :=
     match l with [] => [] | s :: r => (s, hd None ns) :: go r (tl ns) end) l ns.

Definition page_toks_v (c : cls) (kd : kind) (l o : option Z) : list dtok :=
  match page_tail c kd l o with EmptyString => [] | s => [V s] end.

Definition opt_toks {A} (o : option A) (f : A -> res (list dtok)) : res (list dtok) :=
  match o with None => Ok [] | Some a => f a end.

Definition origin_after (c : cls) (kin : kctx) (og : origin) : origin := if k_abs kin then OFn (Some c) else og.

(* ---------------- statements ---------------- *)
(* Written in open-recursion style: [it] / [qt] render nested items / statements; the fuel-indexed fixpoints below
   tie the knot.  Every clause has its own definition so that the lemmas can be stated clause by clause. *)
Definition base_cls_of (rho : cls -> cls) (base : query) : cls :=
  match base with
  | QSel c _ _ _ _ _ _ _ _ _ _ _ _ _ => rho c | QIns c _ _ _ _ _ _ => rho c | QUpd c _ _ _ _ _ _ => rho c
  | QDel c _ _ => rho c | QSet _ _ _ _ _ _ => CQuery end.

(* GROUP BY / ORDER BY: a term whose alias is among the selected aliases is referred to by that alias *)
Definition alias_ref (selects : list item) (y : item) : option string :=
  match item_alias y with
  | Some a => if truthy_ostr (Some a) && existsb (option_eqb String.eqb (Some a)) (map item_alias selects) then Some a else None
  | None => None end.

(* scope of a SELECT / UPDATE / DELETE: names of the sources and the with_namespace decision (as in Query.rquery) *)
Definition foreign_ref (srcs scope : list tref) (wheres : option item) : bool :=
  existsb (fun o => match o with Some tb => negb (existsb (tref_eqb (resolve_tref srcs tb)) scope) | None => false end)
          (match wheres with Some w => item_tables w | None => [] end).
Definition first_is_builder (from : list source) : bool := match from with SrcQ y :: _ => is_builder y | _ => false end.

Definition is_qsel (x : query) : bool := match x with QSel _ _ _ _ _ _ _ _ _ _ _ _ _ _ => true | _ => false end.

Section Open.
Variable rho : cls -> cls.
Variable it : kctx -> origin -> list tref -> ctx -> item -> res (list dtok).
Variable qt : kctx -> origin -> bool -> bool -> bool -> option string -> query -> res (list dtok).

Definition item_toks (k : kctx) (og : origin) (srcs : list tref) (c : ctx) (i : item) : res (list dtok) :=
  match i with
  | IT t => ttoks c og (map_tref (resolve_tref srcs) t)
  | ISub x => qt (with_c k c) og (wa c) (subq c) false (qalias x) x
  | IIn t x neg =>
      a <- ttoks (set_subq c false) og (map_tref (resolve_tref srcs) t) ;;
      b <- qt (with_c k (set_subq c true)) og (wa c) true false (qalias x) x ;;
      Ok (a ++ T (" " ++ (if neg then "NOT " else "") ++ "IN ") :: b)
  | IExists x neg =>
      b <- qt (with_c k c) og (wa c) (subq c) false (qalias x) x ;;
      Ok (T ((if neg then "NOT " else "") ++ "EXISTS ") :: b)
  | ICmp cm t x =>
      a <- ttoks (set_wa c false) og (map_tref (resolve_tref srcs) t) ;;
      b <- qt (with_c k (set_wa c false)) og false (subq c) false (qalias x) x ;;
      Ok (a ++ T (cmp_text cm) :: b)
  | IFunc name args alias =>
      ss <- rmapM (it (fk (with_c k c)) og srcs (kc (fk (with_c k c)))) args ;;
      let s := T (name ++ "(") :: tjoin "," ss ++ [T ")"] in
      Ok (if wa c then alias_toks c og (q c) s alias else s)
  | ICplx bo l r =>
      let nb (x : item) := match x with ICplx b2 _ _ => negb (bop_eqb b2 bo) | IT t => needs_brackets_x bo (top_bop t) | _ => false end in
      a <- it k og srcs (set_subc c (nb l)) l ;; b <- it k og srcs (set_subc c (nb r)) r ;;
      Ok (tparen (subc c) (a ++ T (" " ++ bop_text_x bo ++ " ") :: b))
  | INot x => a <- it k og srcs (set_subc c true) x ;; Ok (T "NOT " :: a)
  end.

(* a FROM / JOIN item; [cx] is the context it is rendered in (with_alias and subquery set) *)
Definition src_toks (k : kctx) (og : origin) (cx : ctx) (sn : source * option string) : res (list dtok) :=
  match fst sn with
  | SrcT t => Ok (table_toks cx og (src_ref (fst sn) (snd sn)))
  | SrcQ y => qt (with_c k cx) og true true false (snd sn) y
  | SrcA nm => Ok [(false, AId RCte None nm og)] end.
Definition from_toks (k : kctx) (og : origin) (cx : ctx) (sn : source * option string) : res (list dtok) :=
  match fst sn with
  | SrcT t => Ok (table_toks cx og t)
  | _ => src_toks k og cx sn end.
Definition join_toks (k kk : kctx) (og : origin) (srcs : list tref) (cx_src cx_on : ctx)
           (jn : (jhow * source * jcond) * option string) : res (list dtok) :=
  a <- src_toks k og cx_src (snd (fst (fst jn)), snd jn) ;;
  cn <- (match snd (fst jn) with
         | JOn i => b <- it kk og srcs cx_on i ;; Ok (T " ON " :: b)
         | JUsing fs => Ok (T " USING (" :: tjoin "," (map (fun f => [(false, AId RIdent (q cx_on) f og)]) fs) ++ [T ")"])
         | JCrossCond => Ok [] end) ;;
  Ok (T (jprefix (fst (fst (fst jn))) (snd (fst jn)) ++ "JOIN ") :: a ++ cn).
Definition where_toks (kw : string) (kk : kctx) (og : origin) (srcs : list tref) (cx : ctx) (w : option item) : res (list dtok) :=
  opt_toks w (fun i => a <- it kk og srcs cx i ;; Ok (T kw :: a)).
Definition with_toks (kk : kctx) (og : origin) (withs : list (string * query)) : res (list dtok) :=
  match withs with
  | [] => Ok []
  | _ => ws <- rmapM (fun ny : string * query =>
                        a <- qt kk og false false false (qalias (snd ny)) (snd ny) ;;
                        Ok ((false, AId RCte None (fst ny) og) :: T " AS (" :: a ++ [T ") "])) withs ;;
         Ok (T "WITH " :: tjoin "," ws) end.
Definition gitem_toks (kk : kctx) (og : origin) (srcs : list tref) (cx base : ctx) (gba : bool) (selects : list item) (y : item)
  : res (list dtok) :=
  a <- (match (if gba then alias_ref selects y else None) with
        | Some a => Ok [(false, AId RAlias (or_ostr (aq base) (q base)) a og)]
        | None => it kk og srcs cx y end) ;;
  Ok (mark_group a).
Definition group_toks (kk : kctx) (og : origin) (srcs : list tref) (cx base : ctx) (gba : bool) (selects groupbys : list item)
  : res (list dtok) :=
  match groupbys with
  | [] => Ok []
  | _ => gs <- rmapM (gitem_toks kk og srcs cx base gba selects) groupbys ;; Ok (T " GROUP BY " :: tjoin "," gs) end.
Definition oitem_toks (kk : kctx) (og : origin) (srcs : list tref) (cx base : ctx) (selects : list item) (yd : item * option order)
  : res (list dtok) :=
  a <- (match alias_ref selects (fst yd) with
        | Some a => Ok [(false, AId RAlias (or_ostr (aq base) (q base)) a og)]
        | None => it kk og srcs cx (fst yd) end) ;;
  Ok (match snd yd with Some d' => a ++ [T (" " ++ order_text d')] | None => a end).
Definition order_toks (kk : kctx) (og : origin) (srcs : list tref) (cx base : ctx) (selects : list item)
           (orderbys : list (item * option order)) : res (list dtok) :=
  match orderbys with
  | [] => Ok []
  | _ => os <- rmapM (oitem_toks kk og srcs cx base selects) orderbys ;; Ok (T " ORDER BY " :: tjoin "," os) end.

Definition qsel_toks (kin : kctx) (og0 : origin) (walias subquery pv : bool) (ali : option string)
           (c0 : cls) (withs : list (string * query)) (distinct : bool) (selects : list item) (from : list source)
           (joins : list (jhow * source * jcond)) (wheres havings : option item) (groupbys : list item)
           (orderbys : list (item * option order)) (l o : option Z) (fu : bool) : res (list dtok) :=
  let c := rho c0 in
  let k := defaults c kin in
  let og := origin_after c kin og0 in
  let fnames := fst (name_from sub_count 0 from) in
  let jnames := fst (name_joins (base_tables from) (src_names from fnames) (snd (name_from sub_count 0 from)) joins) in
  let srcs := src_refs from fnames ++ src_refs (map (fun j => snd (fst j)) joins) jnames in
  let wns := negb (Nat.eqb (List.length joins) 0) || Nat.ltb 1 (List.length from)
             || first_is_builder from || foreign_ref srcs srcs wheres in
  let base := kc k in
  let ci (wa_ sq_ : bool) := ctx_item k wa_ sq_ wns in
  let kk := with_c k (set_wn base wns) in
  match selects with
  | [] => Ok []
  | _ =>
    w <- with_toks kk og withs ;;
    sel <- rmapM (it kk og srcs (ci true true)) selects ;;
    fr <- rmapM (from_toks k og (ci true true)) (zip_names from fnames) ;;
    js <- rmapM (join_toks k kk og srcs (ci true true) (ci false true)) (zip_names joins jnames) ;;
    wh <- where_toks " WHERE " kk og srcs (ci false true) wheres ;;
    gb <- group_toks kk og srcs (ci false clause_subq_groupby) base (k_gba k) selects groupbys ;;
    hv <- where_toks " HAVING " kk og srcs (ci false clause_subq_having) havings ;;
    ob <- order_toks kk og srcs (ci false clause_subq_orderby) base selects orderbys ;;
    let body := w ++ T "SELECT " :: (if distinct then [T "DISTINCT "] else []) ++ tjoin "," sel
                ++ (match fr with [] => [] | _ => T " FROM " :: tjoin "," fr end)
                ++ (match js with [] => [] | _ => T " " :: tjoin " " js end)
                ++ wh ++ gb ++ hv ++ ob ++ page_toks_v c KSelect l o ++ (if fu then [T " FOR UPDATE"] else []) in
    Ok (if walias then falias (RQAlias c) og (vparen subquery pv body) ali (q base) (k_qaq k) (askw base)
        else vparen subquery pv body)
  end.

Definition qins_toks (kin : kctx) (og0 : origin) (walias subquery pv : bool) (ali : option string)
           (c0 : cls) (into : tref) (columns : list term) (rows : list (list item)) (sel : option query) (replace : bool)
  : res (list dtok) :=
  let c := rho c0 in
  let k := defaults c kin in
  let og := origin_after c kin og0 in
  let base := set_wn (kc k) false in
  let kk := with_c k base in
  let head := T (if replace then "REPLACE INTO " else "INSERT INTO ") :: table_toks base og into in
  cols <- (match columns with
           | [] => Ok []
           | _ => cs <- ttoks_list base og (fold_right TCons TNil columns) ;; Ok (T " (" :: tjoin "," cs ++ [T ")"]) end) ;;
  match rows, sel with
  | [], None => Ok []
  | _ :: _, _ =>
      rs <- rmapM (fun row => vs <- rmapM (it kk og [] (set_subq (set_wa base false) true)) row ;; Ok (tjoin "," vs)) rows ;;
      Ok (head ++ cols ++ T " VALUES (" :: tjoin "),(" rs ++ [T ")"])
  | [], Some y =>
      (* QueryBuilder.get_sql: an INSERT whose SELECT part selects nothing renders as the empty string *)
      (* the SELECT part of INSERT ... SELECT is always a plain SELECT (one builder in pypika); other shapes are not modelled *)
      if negb (is_qsel y) then Err "InsertSelectShape" else
      if Nat.eqb (nselects y) 0 then Ok [] else
      s <- qt kk og false false false (qalias y) y ;;
      let body := vparen subquery pv (head ++ cols ++ T " " :: s) in
      Ok (if walias then falias (RQAlias c) og body ali (q base) (k_qaq k) (askw base) else body)
  end.

Definition qupd_toks (kin : kctx) (og0 : origin) (c0 : cls) (tbl : tref) (sets : list (term * item)) (from : list source)
           (joins : list (jhow * source * jcond)) (wheres : option item) (l : option Z) : res (list dtok) :=
  let c := rho c0 in
  let k := defaults c kin in
  let og := origin_after c kin og0 in
  let fnames := fst (name_from sub_count 0 from) in
  let jnames := fst (name_joins (tbl :: base_tables from) (tref_name tbl :: src_names from fnames) (snd (name_from sub_count 0 from)) joins) in
  let srcs := src_refs from fnames ++ src_refs (map (fun j => snd (fst j)) joins) jnames in
  let wns := negb (Nat.eqb (List.length joins) 0) || Nat.ltb 1 (List.length from)
             || first_is_builder from || foreign_ref srcs (tbl :: srcs) wheres || negb (Nat.eqb (List.length from) 0) in
  let base := set_wn (kc k) wns in
  let kk := with_c k base in
  let cs := set_subq (set_wa base true) true in
  match sets with
  | [] => Ok []
  | _ =>
    js <- rmapM (join_toks k kk og srcs cs (set_subq (set_wa base false) true)) (zip_names joins jnames) ;;
    ss <- rmapM (fun fv : term * item =>
                   a <- ttoks (set_wn base false) og (fst fv) ;;
                   b <- it kk og srcs (if clause_subq_setvalue then set_subq base true else base) (snd fv) ;;
                   Ok (a ++ T "=" :: b)) sets ;;
    fr <- rmapM (from_toks k og cs) (zip_names from fnames) ;;
    wh <- where_toks " WHERE " kk og srcs (set_subq base true) wheres ;;
    Ok (V (if cls_is_clickhouse c then "ALTER TABLE " else "UPDATE ") :: table_toks base og tbl
        ++ (match js with [] => [] | _ => T " " :: tjoin " " js end)
        ++ V (if cls_is_clickhouse c then " UPDATE " else " SET ") :: tjoin "," ss
        ++ (match fr with [] => [] | _ => T " FROM " :: tjoin "," fr end)
        ++ wh ++ page_toks_v c KUpdate l None)
  end.

Definition qdel_toks (kin : kctx) (og0 : origin) (subquery pv : bool) (c0 : cls) (from : list source) (wheres : option item)
  : res (list dtok) :=
  let c := rho c0 in
  let k := defaults c kin in
  let og := origin_after c kin og0 in
  let fnames := fst (name_from sub_count 0 from) in
  let srcs := src_refs from fnames in
  let wns := Nat.ltb 1 (List.length from) || first_is_builder from || foreign_ref srcs srcs wheres in
  let base := set_wn (kc k) wns in
  let kk := with_c k base in
  fr <- rmapM (from_toks k og (set_subq (set_wa base true) true)) (zip_names from fnames) ;;
  wh <- where_toks " WHERE " kk og srcs (set_subq base true) wheres ;;
  let body := (if cls_is_clickhouse c
               then V "ALTER TABLE" :: (match fr with [] => [] | _ => V " " :: tjoin "," fr ++ [V " DELETE"] end)
               else V "DELETE" :: (match fr with [] => [] | _ => V " FROM " :: tjoin "," fr end)) ++ wh in
  Ok (vparen subquery pv body).

Definition sitem_toks (c : ctx) (og0 : origin) (selected_aliases : list (option string)) (td : term * option order)
  : res (list dtok) :=
  a <- (match term_alias (fst td) with
        | Some a => if truthy_ostr (Some a) && existsb (option_eqb String.eqb (Some a)) selected_aliases
                    then Ok [(false, AId RAlias (or_ostr (aq c) (q c)) a og0)]
                    else ttoks (set_wa c false) og0 (fst td)
        | None => ttoks (set_wa c false) og0 (fst td) end) ;;
  Ok (match snd td with Some d' => a ++ [T (" " ++ order_text d')] | None => a end).

Definition qset_toks (kin : kctx) (og0 : origin) (walias subquery pv : bool) (ali : option string)
           (base : query) (ops : list (setop * query)) (orderbys : list (term * option order)) (l o : option Z)
  : res (list dtok) :=
  let bc := base_cls_of rho base in
  (* _SetOperation.get_sql: every default comes from the base query's class *)
  let k := defaults bc kin in
  let og := origin_after bc kin og0 in
  let wrap := cls_wrap bc in
  b <- qt k og false wrap true (qalias base) base ;;
  rest <- rmapM (fun sy : setop * query =>
                   a0 <- qt k og false wrap true (qalias (snd sy)) (snd sy) ;;
                   (* operands not parenthesised: a nested set operation keeps its grouping as a derived table (vendor form) *)
                   let a := match snd sy with
                            | QSet _ _ _ _ _ _ => if wrap then a0 else V "SELECT * FROM (" :: a0 ++ [V ")"]
                            | _ => a0 end in
                   (if Nat.eqb (nselects base) (nselects (snd sy))
                    then Ok (T (" " ++ setop_text (fst sy) ++ " ") :: a)
                    else Err "SetOperationException")) ops ;;
  let c := kc k in
  let selected_aliases := match base with
                          | QSel _ _ _ sels _ _ _ _ _ _ _ _ _ _ => map item_alias sels
                          | _ => [] end in
  ob <- (match orderbys with
         | [] => Ok []
         | _ => os <- rmapM (sitem_toks c og selected_aliases) orderbys ;; Ok (T " ORDER BY " :: tjoin "," os) end) ;;
  let body := vparen subquery pv (b ++ List.concat rest ++ ob ++ page_toks_v bc KSelect l o) in
  Ok (if walias then falias (RQAlias bc) og body ali (q c) (k_qaq k) (askw c) else body).

Definition query_toks (kin : kctx) (og0 : origin) (walias subquery pv : bool) (ali : option string) (x : query)
  : res (list dtok) :=
  match x with
  | QSel c0 withs distinct selects from joins wheres havings groupbys orderbys l o fu _ =>
      qsel_toks kin og0 walias subquery pv ali c0 withs distinct selects from joins wheres havings groupbys orderbys l o fu
  | QIns c0 into columns rows sel replace _ => qins_toks kin og0 walias subquery pv ali c0 into columns rows sel replace
  | QUpd c0 tbl sets from joins wheres l => qupd_toks kin og0 c0 tbl sets from joins wheres l
  | QDel c0 from wheres => qdel_toks kin og0 subquery pv c0 from wheres
  | QSet base ops orderbys l o _ => qset_toks kin og0 walias subquery pv ali base ops orderbys l o
  end.
End Open.

Section Relabel.
Variable rho : cls -> cls.
Definition base_cls := base_cls_of rho.

(* the recursive calls are eta-expanded so that call-by-value evaluation does not unfold all fuel levels eagerly *)
Fixpoint itoks (n : nat) (k : kctx) (og : origin) (srcs : list tref) (c : ctx) (i : item) {struct n} : res (list dtok) :=
  match n with
  | O => Err "fuel"
  | S n' => item_toks (fun k og srcs c i => itoks n' k og srcs c i)
                      (fun kin og0 wal sub pv ali x => qtoks n' kin og0 wal sub pv ali x) k og srcs c i
  end
with qtoks (n : nat) (kin : kctx) (og0 : origin) (walias subquery pv : bool) (ali : option string) (x : query) {struct n}
  : res (list dtok) :=
  match n with
  | O => Err "fuel"
  | S n' => query_toks rho (fun k og srcs c i => itoks n' k og srcs c i)
                       (fun kin og0 wal sub pv ali x => qtoks n' kin og0 wal sub pv ali x) kin og0 walias subquery pv ali x
  end.

(* str(q), and q.get_sql with explicit keyword arguments *)
Definition top_cls_r (x : query) : cls :=
  match x with
  | QSet (QSel c _ _ _ _ _ _ _ _ _ _ _ _ _) _ _ _ _ _ => rho c
  | QSet _ _ _ _ _ _ => CQuery
  | _ => base_cls x
  end.
Definition top_k (x : query) : kctx := top_ctx (top_cls_r x).
Definition top_origin (x : query) : origin := OTop.
Definition str_toks (n : nat) (x : query) : res (list dtok) :=
  qtoks n (top_k x) (top_origin x) false false false (qalias x) x.

(* explicit kwargs: quote_char (optional) and, all together or not at all, secondary_quote_char / alias_quote_char /
   as_keyword; dialect is never passed (each class fills in its own) *)
Record kwargs := { kw_q : option (option string); kw_rest : option (option string * option string * bool) }.
Definition kw_ctx (kw : kwargs) (x : query) : kctx :=
  let c := top_cls_r x in
  let qq := match kw_q kw with Some v => v | None => cls_q c end in
  match kw_rest kw with
  | Some (s, a, kwd) =>
      (* query_alias_quote_char itself is never passed: the first builder (of the top class) fills it in *)
      mk_k {| q := qq; sq := s; aq := a; askw := kwd; dia := cls_dia c; wa := false; wn := false; subq := false; subc := false |} false true
           (qalias_quote c)
  | None =>
      mk_k {| q := qq; sq := Some "'"; aq := None; askw := false; dia := cls_dia c; wa := false; wn := false; subq := false; subc := false |} true true
           None
  end.
Definition kw_origin (kw : kwargs) : origin := match kw_rest kw with Some _ => OTop | None => OFn None end.
Definition kw_toks (n : nat) (kw : kwargs) (x : query) : res (list dtok) :=
  qtoks n (kw_ctx kw x) (kw_origin kw) false false false (qalias x) x.
End Relabel.

Definition relabel (o : option cls) (c : cls) : cls := match o with Some c' => c' | None => c end.

(* ---------------- the convention each token is expected to follow ---------------- *)
(* [q0] the quote_char of the outermost call; [s0 a0 k0] the secondary / alias quote and as_keyword of the outermost call *)
(* [v_abs]: the outermost call left secondary_quote_char / alias_quote_char / as_keyword absent (explicit kwargs that give
   only quote_char), so the first builder fills them in and origins other than [OTop] occur *)
Record conv := { v_q : option string; v_sq : option string; v_aq : option string; v_as : bool; v_qa : option string;
                 v_abs : bool }.
Definition conv_of (k : kctx) : conv :=
  {| v_q := q (kc k); v_sq := sq (kc k); v_aq := aq (kc k); v_as := askw (kc k); v_qa := k_qaq k; v_abs := k_abs k |}.
Definition og_adm (v : conv) (og : origin) : bool := match og with OTop => true | _ => v_abs v end.
Definition og_sq (v : conv) (og : origin) : option string :=
  match og with OTop => v_sq v | OFn None => Some "'" | OFn (Some c) => cls_sq c end.
Definition og_aq (v : conv) (og : origin) : option string :=
  match og with OTop => v_aq v | OFn None => None | OFn (Some c) => cls_aq c end.
Definition og_as (v : conv) (og : origin) : bool :=
  match og with OTop => v_as v | OFn None => false | OFn (Some c) => cls_askw c end.
Definition og_qa (v : conv) (og : origin) : option string :=
  match og with OTop => v_qa v | OFn None => None | OFn (Some c) => qalias_quote c end.

(* EXACT: what the code does (proved for every token of every statement) *)
Definition exact_q (v : conv) (t : dtok) : Prop :=
  match snd t with
  | AId RIdent qu _ _ => qu = v_q v
  | AId RAlias qu _ og => qu = or_ostr (og_aq v og) (v_q v)
  | AId RQual qu _ _ => qu = v_q v
  | AId (RQAlias _) qu _ og => qu = or_ostr (og_qa v og) (v_q v)
  | AId RTAlias qu _ _ => qu = v_q v
  | AId RCte qu _ _ => qu = None
  | AStr qu _ og => qu = og_sq v og
  | AAs kw og => kw = og_as v og
  | _ => True
  end.

Definition adm_tok (v : conv) (t : dtok) : Prop :=
  match snd t with
  | AId _ _ _ og | AStr _ _ og | AAs _ og => og_adm v og = true
  | _ => True
  end.
Definition exact_tok (v : conv) (t : dtok) : Prop := exact_q v t /\ adm_tok v t.

(* STRICT: what the property demands — the outermost convention for every role, whatever the position.
   [qa] is the outer class's own query-alias quote (QUERY_ALIAS_QUOTE_CHAR, else ALIAS_QUOTE_CHAR). *)
Definition strict_tok (v : conv) (qa : option string) (t : dtok) : Prop :=
  match snd t with
  | AId RIdent qu _ _ => qu = v_q v
  | AId RAlias qu _ _ => qu = or_ostr (v_aq v) (v_q v)
  | AId RQual qu _ _ => qu = or_ostr (v_aq v) (v_q v)
  | AId (RQAlias _) qu _ _ => qu = or_ostr qa (v_q v)
  | AId RTAlias qu _ _ => qu = or_ostr qa (v_q v)
  | AId RCte qu _ _ => qu = v_q v
  | AStr qu _ _ => qu = v_sq v
  | AAs kw _ => kw = v_as v
  | _ => True
  end.

Definition ostr_eqb := option_eqb String.eqb.
(* decidable version of STRICT, and the tokens on which EXACT and STRICT coincide *)
Definition strict_tokb (v : conv) (qa : option string) (t : dtok) : bool :=
  match snd t with
  | AId RIdent qu _ _ => ostr_eqb qu (v_q v)
  | AId RAlias qu _ _ => ostr_eqb qu (or_ostr (v_aq v) (v_q v))
  | AId RQual qu _ _ => ostr_eqb qu (or_ostr (v_aq v) (v_q v))
  | AId (RQAlias _) qu _ _ => ostr_eqb qu (or_ostr qa (v_q v))
  | AId RTAlias qu _ _ => ostr_eqb qu (or_ostr qa (v_q v))
  | AId RCte qu _ _ => ostr_eqb qu (v_q v)
  | AStr qu _ _ => ostr_eqb qu (v_sq v)
  | AAs kw _ => Bool.eqb kw (v_as v)
  | _ => true
  end.
Definition benign_tok (v : conv) (qa : option string) (t : dtok) : bool :=
  match snd t with
  | AId RIdent _ _ _ => true
  | AId RAlias _ _ og => ostr_eqb (or_ostr (og_aq v og) (v_q v)) (or_ostr (v_aq v) (v_q v))
  | AId RQual _ _ _ => ostr_eqb (v_q v) (or_ostr (v_aq v) (v_q v))
  | AId (RQAlias _) _ _ og => ostr_eqb (or_ostr (og_qa v og) (v_q v)) (or_ostr qa (v_q v))
  | AId RTAlias _ _ _ => ostr_eqb (v_q v) (or_ostr qa (v_q v))
  | AId RCte _ _ _ => ostr_eqb None (v_q v)
  | AStr _ _ og => ostr_eqb (og_sq v og) (v_sq v)
  | AAs _ og => Bool.eqb (og_as v og) (v_as v)
  | _ => true
  end.
(* the documented residue: WITH names are rendered bare by every class; a table alias used as a column qualifier is
   quoted by quote_char (only Snowflake's alias quote differs from it) *)
Definition residue_tok (t : dtok) : bool :=
  match snd t with AId RCte _ _ _ | AId RQual _ _ _ => true | _ => false end.

(* ---------------- erasing quotes and documented vendor differences ---------------- *)
Inductive erole := EIdent | EAlias | EQAlias | ECte.
Definition erole_of (r : role) : erole :=
  match r with RIdent => EIdent | RAlias | RQual => EAlias | RQAlias _ | RTAlias => EQAlias | RCte => ECte end.
Inductive etok := EText (s : string) | EId (r : erole) (name : string) | EStr (raw : string) | EBool (b : bool).
Definition erase1 (t : dtok) : list etok :=
  if fst t then [] else
  match snd t with
  | AText s => [EText s]
  | AId r _ n _ => [EId (erole_of r) n]
  | AStr _ raw _ => [EStr raw]
  | AAs _ _ => []
  | ABool b _ => [EBool b]
  | AVend _ => []
  end.
Definition erase (ts : list dtok) : list etok := flat_map erase1 ts.
Definition erase_res (r : res (list dtok)) : res (list etok) :=
  match r with Ok ts => Ok (erase ts) | Err e => Err e end.

(* contexts that agree on everything rendering branches on, except the quote strings, AS keyword and dialect *)
Definition csim (a b : ctx) : Prop := wa a = wa b /\ wn a = wn b /\ subq a = subq b /\ subc a = subc b.
