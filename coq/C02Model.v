(* C02Model.v — instance of the generic grammar for pypika: the three engine tables, pypika's
   parenthesisation policy (built from the EXTRACTED predicates of gen/TermsTable.v), the token-level
   renderer of Terms.v terms, re-association normal form and an abstract semantics.  Definitions only. *)
From PV Require Import Base Crit gen.TermsTable Terms Parse.
Local Open Scope list_scope.

(* ------------------------------------------------------------------------------------------- *)
(* engine precedence tables (specification side; written from the engines' manuals)            *)
(*  PostgreSQL 15 "4.1.6 Operator Precedence"; MySQL 8.0 "12.4.1 Operator Precedence";          *)
(*  SQLite "SQL Language Expressions / Operators" (lang_expr.html).  0 = loosest.              *)
(* ------------------------------------------------------------------------------------------- *)
Definition is_like (c : cmp) : bool :=
  match c with CEq | CNe | CGt | CGe | CLt | CLe => false | _ => true end.

Definition pg : ptable := {|
  maxl := 8;
  prec := fun o => match o with
    | BB BOr => 0 | BB BXor => 0 | BB BAnd => 1
    | BC c => if is_like c then 5 else 4
    | BA OShl | BA OShr => 6 | BA OAdd | BA OSub => 7 | BA OMul | BA ODiv => 8 end;
  nonassoc := fun k => match k with 4 | 5 => true | _ => false end;
  lvl_not := 2; lvl_is := 3; lvl_in := 5; lvl_between := 5 |}.

Definition mysql : ptable := {|
  maxl := 10;
  prec := fun o => match o with
    | BB BOr => 0 | BB BXor => 1 | BB BAnd => 2
    | BC _ => 5
    | BA OShl | BA OShr => 8 | BA OAdd | BA OSub => 9 | BA OMul | BA ODiv => 10 end;
  nonassoc := fun _ => false;
  lvl_not := 3; lvl_is := 5; lvl_in := 5; lvl_between := 4 |}.

Definition sqlite : ptable := {|
  maxl := 8;
  prec := fun o => match o with
    | BB BOr => 0 | BB BXor => 0 | BB BAnd => 1
    | BC c => match c with CLt | CLe | CGt | CGe => 4 | _ => 3 end
    | BA OShl | BA OShr => 6 | BA OAdd | BA OSub => 7 | BA OMul | BA ODiv => 8 end;
  nonassoc := fun _ => false;
  lvl_not := 2; lvl_is := 3; lvl_in := 3; lvl_between := 3 |}.

Definition engines : list ptable := [pg; mysql; sqlite].

(* which operators an engine has at all (XOR is MySQL-only, ILIKE PostgreSQL-only, ...) *)
Definition supported (eng : nat) (o : binop) : bool :=
  match eng, o with
  | _, BA _ => true
  | _, BB BXor => Nat.eqb eng 1
  | _, BB _ => true
  | _, BC c =>
      match c with
      | CEq | CNe | CGt | CGe | CLt | CLe | CLike | CNotLike => true
      | CILike | CNotILike => Nat.eqb eng 0
      | CRLike | CRegexp => Nat.eqb eng 1
      | CGlob => Nat.eqb eng 2
      | CRegex | CBinRegex | CAsOf => false
      end
  end.

Definition all_aops := [OAdd; OSub; OMul; ODiv; OShl; OShr].
Definition all_cmps := [CEq; CNe; CGt; CGe; CLt; CLe; CLike; CNotLike; CILike; CNotILike; CRLike; CRegex; CRegexp; CBinRegex; CAsOf; CGlob].
Definition all_bops := [BAnd; BOr; BXor].
Definition all_binops : list binop := map BA all_aops ++ map BC all_cmps ++ map BB all_bops.

(* ------------------------------------------------------------------------------------------- *)
(* heads: everything the textbook rule and pypika's policy look at in a child                    *)
(* ------------------------------------------------------------------------------------------- *)
Inductive head := HAtom | HNeg | HNot | HBin (o : binop) | HPost | HIn | HBetween | HCall | HCase.
Definition hd (e : expr) : head :=
  match e with
  | EAtom _ => HAtom | ENeg _ => HNeg | ENot _ => HNot | EBin o _ _ => HBin o | EPost _ _ => HPost
  | EIn _ _ _ => HIn | EBetween _ _ _ => HBetween | ECall _ _ => HCall | ECase _ _ => HCase end.
Definition all_heads : list head := [HAtom; HNeg; HNot] ++ map HBin all_binops ++ [HPost; HIn; HBetween; HCall; HCase].
Definition all_pos : list pos :=
  [PNeg; PNot] ++ map PBinL all_binops ++ map PBinR all_binops ++ [PPost; PInL; PBetE; PBetLo; PBetHi].

Definition head_level (T : ptable) (h : head) : nat :=
  match h with
  | HAtom | HNeg | HCall | HCase => atomlvl T
  | HNot => lvl_not T | HBin o => prec T o | HPost => lvl_is T | HIn => lvl_in T | HBetween => lvl_between T
  end.

(* pypika's policy.  getattr(side, "operator", None) sees through Not (attribute delegation).
   The operand rules (_operand_sql, the rules for unary minus and for a negative right operand of '-') are read from
   the tables probed out of the code (gen/TermsTable.v): operand_parens, neg_parens_*, sub_parens_minus. *)
Fixpoint top_aop (e : expr) : option aop :=
  match e with EBin (BA o) _ _ => Some o | ENot e' => top_aop e' | _ => None end.
Definition top_bop_e (e : expr) : option bop := match e with EBin (BB b) _ _ => Some b | _ => None end.

Definition okind_e (e : expr) : okind :=
  match e with
  | EBin (BC _) _ _ => OKBasic | EBin (BB _) _ _ => OKCplx | EIn _ _ _ => OKIn | EBetween _ _ _ => OKBetween
  | EPost PIsNull _ => OKNull | EPost PIsNotNull _ => OKNotNull | ENot _ => OKNot | _ => OKOther
  end.

(* the policy without the two textual minus rules *)
Definition pol_b (p : pos) (c : expr) : bool :=
  match p with
  | PNeg => operand_parens SNeg (okind_e c)
            || match c with EBin (BA _) _ _ => neg_parens_arith | ENeg _ => neg_parens_neg | _ => false end
  | PNot => match c with EBin (BB _) _ _ => true | _ => false end   (* Not forces subcriterion=True *)
  | PBinL (BA o) => left_needs_parens o (top_aop c) || operand_parens SArithL (okind_e c)
  | PBinR (BA o) => right_needs_parens o (top_aop c) || operand_parens SArithR (okind_e c)
  | PBinL (BB b) | PBinR (BB b) => needs_brackets_x b (top_bop_e c)
  | PBinL (BC _) => operand_parens SCmpL (okind_e c)
  | PBinR (BC _) => operand_parens SCmpR (okind_e c)
  | PPost => operand_parens SIsNull (okind_e c)
  | PInL => operand_parens SInTerm (okind_e c)
  | PBetE => operand_parens SBetTerm (okind_e c)
  | PBetLo => operand_parens SBetLo (okind_e c)
  | PBetHi => operand_parens SBetHi (okind_e c)
  end.

(* does the text of the (bare) operand start with a minus sign?  Left operands are never subject to a minus rule, so
   pol_b decides their parentheses. *)
Fixpoint lead_minus (e : expr) : bool :=
  match e with
  | EAtom a => starts_minus a
  | ENeg _ => true
  | ENot _ => false
  | EBin o l _ => negb (pol_b (PBinL o) l) && lead_minus l
  | EPost _ c => negb (pol_b PPost c) && lead_minus c
  | EIn _ c _ => negb (pol_b PInL c) && lead_minus c
  | EBetween c _ _ => negb (pol_b PBetE c) && lead_minus c
  | ECall f _ => starts_minus f
  | ECase _ _ => false
  end.

Definition impl_pol (p : pos) (c : expr) : bool :=
  pol_b p c ||
  match p with
  | PNeg => neg_parens_minus && lead_minus c
  | PBinR (BA OSub) => sub_parens_minus && lead_minus c
  | _ => false
  end.

(* a head-only lower bound of the policy (exact except under Not-delegation and for the minus rules, where it says
   "no parentheses") *)
Definition head_aop (h : head) : option aop := match h with HBin (BA o) => Some o | _ => None end.
Definition head_bop (h : head) : option bop := match h with HBin (BB b) => Some b | _ => None end.
Definition okind_h (h : head) : option okind :=
  match h with
  | HBin (BC _) => Some OKBasic | HBin (BB _) => Some OKCplx | HIn => Some OKIn | HBetween => Some OKBetween
  | HPost => None   (* IS NULL / IS NOT NULL: both rows of the table are consulted *)
  | HNot => Some OKNot | _ => Some OKOther end.
Definition opnd_h (s : oslot) (h : head) : bool :=
  match okind_h h with Some k => operand_parens s k | None => operand_parens s OKNull && operand_parens s OKNotNull end.
Definition pol_h (p : pos) (h : head) : bool :=
  match p with
  | PNeg => opnd_h SNeg h || match h with HBin (BA _) => neg_parens_arith | HNeg => neg_parens_neg | _ => false end
  | PNot => match h with HBin (BB _) => true | _ => false end
  | PBinL (BA o) => (match h with HNot => false | _ => left_needs_parens o (head_aop h) end) || opnd_h SArithL h
  | PBinR (BA o) => (match h with HNot => false | _ => right_needs_parens o (head_aop h) end) || opnd_h SArithR h
  | PBinL (BB b) | PBinR (BB b) => needs_brackets_x b (head_bop h)
  | PBinL (BC _) => opnd_h SCmpL h
  | PBinR (BC _) => opnd_h SCmpR h
  | PPost => opnd_h SIsNull h
  | PInL => opnd_h SInTerm h
  | PBetE => opnd_h SBetTerm h
  | PBetLo => opnd_h SBetLo h
  | PBetHi => opnd_h SBetHi h
  end.

(* textbook rule and domination, head-wise *)
Definition needs_h (T : ptable) (p : pos) (h : head) : bool := Nat.ltb (head_level T h) (ctxmin T p).
Definition okp_h (T : ptable) (p : pos) (h : head) : bool := implb (needs_h T p h) (pol_h p h).
Definition ok_all_engines (ph : pos * head) : bool := forallb (fun T => okp_h T (fst ph) (snd ph)) engines.

(* decidable equality on positions / heads, for membership in the committed list of expected pairs *)
Definition aop_eqb (a b : aop) : bool :=
  match a, b with OAdd, OAdd | OSub, OSub | OMul, OMul | ODiv, ODiv | OShl, OShl | OShr, OShr => true | _, _ => false end.
Definition cmp_idx (c : cmp) : nat :=
  match c with CEq => 0 | CNe => 1 | CGt => 2 | CGe => 3 | CLt => 4 | CLe => 5 | CLike => 6 | CNotLike => 7 | CILike => 8
  | CNotILike => 9 | CRLike => 10 | CRegex => 11 | CRegexp => 12 | CBinRegex => 13 | CAsOf => 14 | CGlob => 15 end.
Definition cmp_eqb (a b : cmp) : bool := Nat.eqb (cmp_idx a) (cmp_idx b).
Definition binop_eqb (a b : binop) : bool :=
  match a, b with BA x, BA y => aop_eqb x y | BC x, BC y => cmp_eqb x y | BB x, BB y => bop_eqb x y | _, _ => false end.
Definition head_eqb (a b : head) : bool :=
  match a, b with
  | HAtom, HAtom | HNeg, HNeg | HNot, HNot | HPost, HPost | HIn, HIn | HBetween, HBetween | HCall, HCall | HCase, HCase => true
  | HBin x, HBin y => binop_eqb x y
  | _, _ => false end.
Definition pos_eqb (a b : pos) : bool :=
  match a, b with
  | PNeg, PNeg | PNot, PNot | PPost, PPost | PInL, PInL | PBetE, PBetE | PBetLo, PBetLo | PBetHi, PBetHi => true
  | PBinL x, PBinL y | PBinR x, PBinR y => binop_eqb x y
  | _, _ => false end.
Definition ph_eqb (a b : pos * head) : bool := pos_eqb (fst a) (fst b) && head_eqb (snd a) (snd b).
Definition ph_mem (x : pos * head) (l : list (pos * head)) : bool := existsb (ph_eqb x) l.

(* every (position, child head) pair occurring in a tree *)
Fixpoint pairs_of (e : expr) : list (pos * head) :=
  match e with
  | EAtom _ => []
  | ENeg c => (PNeg, hd c) :: pairs_of c
  | ENot c => (PNot, hd c) :: pairs_of c
  | EBin o l r => (PBinL o, hd l) :: (PBinR o, hd r) :: pairs_of l ++ pairs_of r
  | EPost _ c => (PPost, hd c) :: pairs_of c
  | EIn _ c items => (PInL, hd c) :: pairs_of c ++ pairs_items items
  | EBetween c lo hi => (PBetE, hd c) :: (PBetLo, hd lo) :: (PBetHi, hd hi) :: pairs_of c ++ pairs_of lo ++ pairs_of hi
  | ECall _ args => pairs_items args
  | ECase ws els => pairs_whens ws ++ pairs_else els
  end
with pairs_items (l : elist) : list (pos * head) :=
  match l with ENil => [] | ECons e r => pairs_of e ++ pairs_items r end
with pairs_whens (l : ewlist) : list (pos * head) :=
  match l with EWNil => [] | EWCons c v r => pairs_of c ++ pairs_of v ++ pairs_whens r end
with pairs_else (o : eopt) : list (pos * head) :=
  match o with EONone => [] | EOSome e => pairs_of e end.

(* operators of a tree, for "ops_supported" *)
Fixpoint ops_of (e : expr) : list binop :=
  match e with
  | EAtom _ => []
  | ENeg c | ENot c | EPost _ c => ops_of c
  | EBin o l r => o :: ops_of l ++ ops_of r
  | EIn _ c items => ops_of c ++ ops_items items
  | EBetween c lo hi => ops_of c ++ ops_of lo ++ ops_of hi
  | ECall _ args => ops_items args
  | ECase ws els => ops_whens ws ++ ops_else els
  end
with ops_items (l : elist) : list binop := match l with ENil => [] | ECons e r => ops_of e ++ ops_items r end
with ops_whens (l : ewlist) : list binop := match l with EWNil => [] | EWCons c v r => ops_of c ++ ops_of v ++ ops_whens r end
with ops_else (o : eopt) : list binop := match o with EONone => [] | EOSome e => ops_of e end.

(* ------------------------------------------------------------------------------------------- *)
(* tokens <-> text                                                                              *)
(* ------------------------------------------------------------------------------------------- *)
Definition binop_text (o : binop) : string :=
  match o with BA a => aop_text a | BC c => cmp_text c | BB b => " " ++ bop_text_x b ++ " " end.
Definition tok_text (t : tok) : string :=
  match t with
  | KAtom a => a | KOp o => binop_text o | KNeg => "-" | KNot => "NOT "
  | KPost PIsNull => " IS NULL" | KPost PIsNotNull => " IS NOT NULL"
  | KIn neg => if neg then " NOT IN " else " IN "
  | KBetween => " BETWEEN " | KLP => "(" | KRP => ")" | KComma => "," | KName f => f
  | KCase => "CASE" | KWhen => " WHEN " | KThen => " THEN " | KElse => " ELSE " | KEnd => " END"
  end.
Definition flatten (ts : list tok) : string := sconcat (map tok_text ts).

Definition obind {A B} (x : option A) (f : A -> option B) : option B := match x with Some a => f a | None => None end.
Notation "x <~ e ;; f" := (obind e (fun x => f)) (at level 61, e at next level, right associativity).

Definition no_alias (a : option string) : bool := match a with None => true | Some _ => false end.
Definition leaf_text (c : ctx) (t : term) : option string := match render c t with Ok s => Some s | Err _ => None end.
Definition parl (b : bool) (l : list tok) : list tok := if b then KLP :: l ++ [KRP] else l.

(* the token-level renderer: same recursion and same context handling as Terms.render, restricted to the
   constructors of the C02 statement with no aliases; None outside that syntactic scope *)
Fixpoint rtoks (c : ctx) (t : term) {struct t} : option (list tok) :=
  match t with
  | TField _ _ None | TStar _ | TValS _ None | TValI _ None | TValB _ _ None | TValNone None | TValRaw _ None
  | TLit _ None | TParam _ =>
      s <~ leaf_text (set_wa c false) t ;; match s with EmptyString => None | _ => Some [KAtom s] end
  | TNeg t' =>
      a0 <~ rtoks (opc SNeg t' (set_wa c false)) t' ;;
      let a := parl (operand_parens SNeg (okind_of t')) a0 in
      Some (KNeg :: parl (match t' with TArith _ _ _ _ => neg_parens_arith | TNeg _ => neg_parens_neg | _ => false end
                          || (neg_parens_minus && starts_minus (flatten a))) a)
  | TArith op l r None =>
      let c' := set_wa c false in
      a0 <~ rtoks (opc SArithL l c') l ;; b0 <~ rtoks (opc SArithR r c') r ;;
      let a := parl (operand_parens SArithL (okind_of l)) a0 in
      let b := parl (operand_parens SArithR (okind_of r)) b0 in
      let rp := right_needs_parens op (top_op r)
                || (sub_parens_minus && (match op with OSub => true | _ => false end) && starts_minus (flatten b)) in
      Some (parl (left_needs_parens op (top_op l)) a ++ KOp (BA op) :: parl rp b)
  | TBasic cm l r None =>
      let c' := set_wa c false in
      a <~ rtoks (opc SCmpL l c') l ;; b <~ rtoks (opc SCmpR r c') r ;;
      Some (parl (operand_parens SCmpL (okind_of l)) a ++ KOp (BC cm) :: parl (operand_parens SCmpR (okind_of r)) b)
  | TCplx bo l r None =>
      a <~ rtoks (set_subc (set_wa c false) (needs_brackets_x bo (top_bop l))) l ;;
      b <~ rtoks (set_subc (set_wa c false) (needs_brackets_x bo (top_bop r))) r ;;
      Some (parl (subc c) (a ++ KOp (BB bo) :: b))
  | TIn t' (TTuple vs None) negated None =>
      a <~ rtoks (opc SInTerm t' (set_wa (set_subq c false) false)) t' ;;
      items <~ rtoks_items (set_wa (set_wa (set_subq c true) false) false) vs ;;
      Some (parl (operand_parens SInTerm (okind_of t')) a ++ KIn negated :: KLP :: items ++ [KRP])
  | TBetween t' lo hi None =>
      a <~ rtoks (opc SBetTerm t' (set_wa c false)) t' ;; b <~ rtoks (opc SBetLo lo (set_wa c false)) lo ;;
      d <~ rtoks (opc SBetHi hi (set_wa c false)) hi ;;
      Some (parl (operand_parens SBetTerm (okind_of t')) a ++ KBetween :: parl (operand_parens SBetLo (okind_of lo)) b
            ++ KOp (BB BAnd) :: parl (operand_parens SBetHi (okind_of hi)) d)
  | TIsNull t' None =>
      a <~ rtoks (opc SIsNull t' (set_wa c false)) t' ;; Some (parl (operand_parens SIsNull (okind_of t')) a ++ [KPost PIsNull])
  | TNotNull t' None =>
      a <~ rtoks (opc SNotNull t' (set_wa c false)) t' ;; Some (parl (operand_parens SNotNull (okind_of t')) a ++ [KPost PIsNotNull])
  | TNot t' None => a <~ rtoks (set_wa (set_subc c true) false) t' ;; Some (KNot :: a)
  | TCase wl els None =>
      let c' := set_wa c false in
      match wl with
      | WNil => None
      | _ =>
        ws <~ rtoks_whens c' wl ;;
        e <~ match els with ONone => Some [] | OSome t' => a <~ rtoks c' t' ;; Some (KElse :: a) end ;;
        Some (KCase :: ws ++ e ++ [KEnd])
      end
  | TFunc name args None None => items <~ rtoks_items (fctx c) args ;; Some (KName name :: KLP :: items ++ [KRP])
  | _ => None
  end
with rtoks_items (c : ctx) (l : tlist) {struct l} : option (list tok) :=
  match l with
  | TNil => Some []
  | TCons t TNil => rtoks c t
  | TCons t r => a <~ rtoks c t ;; rest <~ rtoks_items c r ;; Some (a ++ KComma :: rest)
  end
with rtoks_whens (c : ctx) (l : wlist) {struct l} : option (list tok) :=
  match l with
  | WNil => Some []
  | WCons cr v r => a <~ rtoks c cr ;; b <~ rtoks c v ;; rest <~ rtoks_whens c r ;; Some (KWhen :: a ++ KThen :: b ++ rest)
  end.

(* the abstract tree of a term *)
Fixpoint to_expr (c : ctx) (t : term) {struct t} : option expr :=
  match t with
  | TField _ _ None | TStar _ | TValS _ None | TValI _ None | TValB _ _ None | TValNone None | TValRaw _ None
  | TLit _ None | TParam _ =>
      s <~ leaf_text (set_wa c false) t ;; match s with EmptyString => None | _ => Some (EAtom s) end
  | TNeg t' => a <~ to_expr (opc SNeg t' (set_wa c false)) t' ;; Some (ENeg a)
  | TArith op l r None =>
      a <~ to_expr (opc SArithL l (set_wa c false)) l ;; b <~ to_expr (opc SArithR r (set_wa c false)) r ;; Some (EBin (BA op) a b)
  | TBasic cm l r None =>
      a <~ to_expr (opc SCmpL l (set_wa c false)) l ;; b <~ to_expr (opc SCmpR r (set_wa c false)) r ;; Some (EBin (BC cm) a b)
  | TCplx bo l r None =>
      a <~ to_expr (set_subc (set_wa c false) (needs_brackets_x bo (top_bop l))) l ;;
      b <~ to_expr (set_subc (set_wa c false) (needs_brackets_x bo (top_bop r))) r ;; Some (EBin (BB bo) a b)
  | TIn t' (TTuple vs None) negated None =>
      a <~ to_expr (opc SInTerm t' (set_wa (set_subq c false) false)) t' ;;
      items <~ to_items (set_wa (set_wa (set_subq c true) false) false) vs ;; Some (EIn negated a items)
  | TBetween t' lo hi None =>
      a <~ to_expr (opc SBetTerm t' (set_wa c false)) t' ;; b <~ to_expr (opc SBetLo lo (set_wa c false)) lo ;;
      d <~ to_expr (opc SBetHi hi (set_wa c false)) hi ;; Some (EBetween a b d)
  | TIsNull t' None => a <~ to_expr (opc SIsNull t' (set_wa c false)) t' ;; Some (EPost PIsNull a)
  | TNotNull t' None => a <~ to_expr (opc SNotNull t' (set_wa c false)) t' ;; Some (EPost PIsNotNull a)
  | TNot t' None => a <~ to_expr (set_wa (set_subc c true) false) t' ;; Some (ENot a)
  | TCase wl els None =>
      match wl with
      | WNil => None
      | _ =>
        ws <~ to_whens (set_wa c false) wl ;;
        e <~ match els with ONone => Some EONone | OSome t' => a <~ to_expr (set_wa c false) t' ;; Some (EOSome a) end ;;
        Some (ECase ws e)
      end
  | TFunc name args None None => items <~ to_items (fctx c) args ;; Some (ECall name items)
  | _ => None
  end
with to_items (c : ctx) (l : tlist) {struct l} : option elist :=
  match l with TNil => Some ENil | TCons t r => a <~ to_expr c t ;; rest <~ to_items c r ;; Some (ECons a rest) end
with to_whens (c : ctx) (l : wlist) {struct l} : option ewlist :=
  match l with
  | WNil => Some EWNil
  | WCons cr v r => a <~ to_expr c cr ;; b <~ to_expr c v ;; rest <~ to_whens c r ;; Some (EWCons a b rest)
  end.

(* ------------------------------------------------------------------------------------------- *)
(* the subcriterion flag: Not.get_sql sets it for its operand, ComplexCriterion consumes it, every other renderer   *)
(* passes its kwargs on.  A flag that reaches an AND/OR term through such a pass-through brackets it although no     *)
(* operator asked for it (harmless text, but not the printer's).  [nl fl t]: rendering t in a context whose flag is  *)
(* fl delivers no flag to an AND/OR term except directly from NOT / from the enclosing AND/OR.                       *)
(* ------------------------------------------------------------------------------------------- *)
Definition is_cplx (t : term) : bool := match t with TCplx _ _ _ _ => true | _ => false end.
Definition pops (sl : oslot) (t : term) : bool := operand_parens sl (okind_of t) && negb operand_keeps_subc.
Fixpoint nl (fl : bool) (t : term) {struct t} : bool :=
  match t with
  | TNeg o => if pops SNeg o then nl false o else negb (fl && is_cplx o) && nl fl o
  | TArith _ l r _ =>
      (if pops SArithL l then nl false l else negb (fl && is_cplx l) && nl fl l)
      && (if pops SArithR r then nl false r else negb (fl && is_cplx r) && nl fl r)
  | TBasic _ l r _ =>
      (if pops SCmpL l then nl false l else negb (fl && is_cplx l) && nl fl l)
      && (if pops SCmpR r then nl false r else negb (fl && is_cplx r) && nl fl r)
  | TCplx bo l r _ => nl (needs_brackets_x bo (top_bop l)) l && nl (needs_brackets_x bo (top_bop r)) r
  | TIn o (TTuple vs _) _ _ =>
      (if pops SInTerm o then nl false o else negb (fl && is_cplx o) && nl fl o) && nl_items fl vs
  | TBetween o lo hi _ =>
      (if pops SBetTerm o then nl false o else negb (fl && is_cplx o) && nl fl o)
      && (if pops SBetLo lo then nl false lo else negb (fl && is_cplx lo) && nl fl lo)
      && (if pops SBetHi hi then nl false hi else negb (fl && is_cplx hi) && nl fl hi)
  | TIsNull o _ => if pops SIsNull o then nl false o else negb (fl && is_cplx o) && nl fl o
  | TNotNull o _ => if pops SNotNull o then nl false o else negb (fl && is_cplx o) && nl fl o
  | TNot o _ => nl true o
  | TCase ws els _ => nl_whens fl ws && (match els with ONone => true | OSome e => negb (fl && is_cplx e) && nl fl e end)
  | TFunc _ args _ _ => nl_items false args
  | _ => true
  end
with nl_items (fl : bool) (l : tlist) {struct l} : bool :=
  match l with TNil => true | TCons t r => negb (fl && is_cplx t) && nl fl t && nl_items fl r end
with nl_whens (fl : bool) (l : wlist) {struct l} : bool :=
  match l with
  | WNil => true
  | WCons c v r => negb (fl && is_cplx c) && nl fl c && negb (fl && is_cplx v) && nl fl v && nl_whens fl r
  end.

(* ------------------------------------------------------------------------------------------- *)
(* re-association: the identities pypika relies on when it leaves a right operand bare          *)
(* ------------------------------------------------------------------------------------------- *)
(* semantically valid rotations: x o (y o2 z) = (x o y) o2 z *)
Definition reassoc_valid (o o2 : binop) : bool :=
  match o, o2 with
  | BA OAdd, BA OAdd | BA OAdd, BA OSub | BA OMul, BA OMul | BA OMul, BA ODiv => true   (* x+(y+z), x+(y-z), x*(y*z), x*(y/z) *)
  | BB a, BB b => bop_eqb a b                                                           (* AND / OR / XOR are associative *)
  | _, _ => false
  end.
(* ... of which pypika uses those where its policy leaves the right operand bare *)
Definition reassoc (o o2 : binop) : bool :=
  reassoc_valid o o2 &&
  negb (match o, o2 with
        | BA a, BA a2 => right_needs_parens a (Some a2)
        | BB b, BB b2 => needs_brackets_x b (Some b2)
        | _, _ => true end).

(* rot o l r : the tree for  l o r  with the right spine rotated to the left wherever [reassoc] allows *)
Fixpoint rot (o : binop) (l r : expr) {struct r} : expr :=
  match r with
  | EBin o2 rl rr => if reassoc o o2 then EBin o2 (rot o l rl) rr else EBin o l r
  | _ => EBin o l r
  end.

Fixpoint norm (e : expr) : expr :=
  match e with
  | EAtom a => EAtom a
  | ENeg c => ENeg (norm c)
  | ENot c => ENot (norm c)
  | EBin o l r => rot o (norm l) (norm r)
  | EPost p c => EPost p (norm c)
  | EIn neg c items => EIn neg (norm c) (norm_items items)
  | EBetween c lo hi => EBetween (norm c) (norm lo) (norm hi)
  | ECall f args => ECall f (norm_items args)
  | ECase ws els => ECase (norm_whens ws) (norm_else els)
  end
with norm_items (l : elist) : elist := match l with ENil => ENil | ECons e r => ECons (norm e) (norm_items r) end
with norm_whens (l : ewlist) : ewlist :=
  match l with EWNil => EWNil | EWCons c v r => EWCons (norm c) (norm v) (norm_whens r) end
with norm_else (o : eopt) : eopt := match o with EONone => EONone | EOSome e => EOSome (norm e) end.

(* ------------------------------------------------------------------------------------------- *)
(* "clean" trees: NOT is applied only where a truth value is expected -- under NOT/AND/OR/XOR, as a function        *)
(* argument, CASE part or list item -- never as an operand of an arithmetic operator, a comparison, unary minus,     *)
(* IS NULL, IN or BETWEEN (pypika's own suite pins  Field("foo").negate().eq("bar")  to the text  NOT "foo"='bar').  *)
(* ------------------------------------------------------------------------------------------- *)
Definition is_not (e : expr) : bool := match e with ENot _ => true | _ => false end.
Definition bool_op (o : binop) : bool := match o with BB _ => true | _ => false end.
Fixpoint clean (e : expr) : bool :=
  match e with
  | EAtom _ => true
  | ENeg c => negb (is_not c) && clean c
  | ENot c => clean c
  | EBin o l r => (bool_op o || (negb (is_not l) && negb (is_not r))) && clean l && clean r
  | EPost _ c => negb (is_not c) && clean c
  | EIn _ c items => negb (is_not c) && clean c && clean_items items
  | EBetween c lo hi => negb (is_not c) && negb (is_not lo) && negb (is_not hi) && clean c && clean lo && clean hi
  | ECall _ args => clean_items args
  | ECase ws els => clean_whens ws && clean_else els
  end
with clean_items (l : elist) : bool := match l with ENil => true | ECons e r => clean e && clean_items r end
with clean_whens (l : ewlist) : bool := match l with EWNil => true | EWCons c v r => clean c && clean v && clean_whens r end
with clean_else (o : eopt) : bool := match o with EONone => true | EOSome e => clean e end.

(* ------------------------------------------------------------------------------------------- *)
(* lexical side: no comment introducer between adjacent tokens                                   *)
(* ------------------------------------------------------------------------------------------- *)
Definition first_char (s : string) : option ascii := match s with String a _ => Some a | EmptyString => None end.
Fixpoint last_char (s : string) : option ascii :=
  match s with EmptyString => None | String a EmptyString => Some a | String _ r => last_char r end.
Definition is_char (o : option ascii) (ch : string) : bool :=
  match o, ch with Some a, String b EmptyString => Ascii.eqb a b | _, _ => false end.
Definition bad_adj (t1 t2 : tok) : bool :=
  (is_char (last_char (tok_text t1)) "-" && is_char (first_char (tok_text t2)) "-")
  || (is_char (last_char (tok_text t1)) "/" && is_char (first_char (tok_text t2)) "*").
Fixpoint adjacency_ok (ts : list tok) : bool :=
  match ts with
  | t1 :: ((t2 :: _) as r) => negb (bad_adj t1 t2) && adjacency_ok r
  | _ => true
  end.

(* lexical well-formedness of the leaves.  Leaf texts come from identifiers, numbers, quoted strings -- and from raw SQL
   the user supplies (LiteralValue, Parameter, function names, the star).  The lexical clause of the property is about
   introducers "created by adjacent operators or signs", so the leaves themselves must not end in an operator
   character or (except as a list item: COUNT( * )) begin with the star. *)
Definition ends_bad (s : string) : bool := is_char (last_char s) "-" || is_char (last_char s) "/".
Definition atom_lex (a : string) : bool := negb (ends_bad a) && negb (is_char (first_char a) "*").
Fixpoint lex_ok (e : expr) : bool :=
  match e with
  | EAtom a => atom_lex a
  | ENeg c | ENot c | EPost _ c => lex_ok c
  | EBin _ l r => lex_ok l && lex_ok r
  | EIn _ c items => lex_ok c && lex_items items
  | EBetween c lo hi => lex_ok c && lex_ok lo && lex_ok hi
  | ECall f args => negb (String.eqb f "") && negb (is_char (first_char f) "*") && lex_items args
  | ECase ws els => lex_whens ws && lex_else els
  end
with lex_items (l : elist) : bool :=
  match l with ENil => true | ECons e r => (match e with EAtom _ => true | _ => lex_ok e end) && lex_items r end
with lex_whens (l : ewlist) : bool := match l with EWNil => true | EWCons c v r => lex_ok c && lex_ok v && lex_whens r end
with lex_else (o : eopt) : bool := match o with EONone => true | EOSome e => lex_ok e end.

Definition tok_eqb (a b : tok) : bool :=
  match a, b with
  | KAtom x, KAtom y | KName x, KName y => String.eqb x y
  | KOp x, KOp y => binop_eqb x y
  | KPost PIsNull, KPost PIsNull | KPost PIsNotNull, KPost PIsNotNull => true
  | KIn x, KIn y => Bool.eqb x y
  | KNeg, KNeg | KNot, KNot | KBetween, KBetween | KLP, KLP | KRP, KRP | KComma, KComma
  | KCase, KCase | KWhen, KWhen | KThen, KThen | KElse, KElse | KEnd, KEnd => true
  | _, _ => false
  end.

Definition leaf_ok (t : tok) : bool := true.

(* ------------------------------------------------------------------------------------------- *)
(* abstract semantics: any interpretation of the operators that satisfies the re-association laws *)
(* ------------------------------------------------------------------------------------------- *)
Section Sem.
Variable V : Type.
Variable s_atom : string -> V.
Variable s_neg s_not : V -> V.
Variable s_bin : binop -> V -> V -> V.
Variable s_post : postfix -> V -> V.
Variable s_in : bool -> V -> list V -> V.
Variable s_between : V -> V -> V -> V.
Variable s_call : string -> list V -> V.
Variable s_case : list (V * V) -> option V -> V.

Fixpoint eval (e : expr) : V :=
  match e with
  | EAtom a => s_atom a
  | ENeg c => s_neg (eval c)
  | ENot c => s_not (eval c)
  | EBin o l r => s_bin o (eval l) (eval r)
  | EPost p c => s_post p (eval c)
  | EIn neg c items => s_in neg (eval c) (eval_items items)
  | EBetween c lo hi => s_between (eval c) (eval lo) (eval hi)
  | ECall f args => s_call f (eval_items args)
  | ECase ws els => s_case (eval_whens ws) (eval_else els)
  end
with eval_items (l : elist) : list V := match l with ENil => [] | ECons e r => eval e :: eval_items r end
with eval_whens (l : ewlist) : list (V * V) :=
  match l with EWNil => [] | EWCons c v r => (eval c, eval v) :: eval_whens r end
with eval_else (o : eopt) : option V := match o with EONone => None | EOSome e => Some (eval e) end.
End Sem.
