(* Base.v — shared, definition-only helpers for the pypika model.
   Strings are Coq [string]s of bytes (UTF-8 of the Python str).  *)
From Coq Require Export List String Ascii ZArith Bool.
From Coq Require Import DecimalString Decimal DecimalZ DecimalNat.
Export ListNotations.
Open Scope string_scope.

(* ---- building strings from byte codes (used by generated case files) ---- *)
Definition codes (l : list nat) : string :=
  fold_right (fun n s => String (ascii_of_nat n) s) EmptyString l.

(* ---- concatenation helpers ---- *)
Fixpoint sconcat (l : list string) : string :=
  match l with [] => "" | x :: r => x ++ sconcat r end.

Fixpoint join (sep : string) (l : list string) : string :=
  match l with
  | [] => ""
  | [x] => x
  | x :: r => x ++ sep ++ join sep r
  end.

(* option helpers *)
Definition odefault {A} (d : A) (o : option A) : A := match o with Some x => x | None => d end.
Definition ostr (o : option string) : string := odefault "" o.
Definition is_some {A} (o : option A) : bool := match o with Some _ => true | None => false end.

(* Python truthiness of an Optional[str]: None and "" are false *)
Definition truthy_ostr (o : option string) : bool :=
  match o with Some EmptyString => false | Some _ => true | None => false end.

(* Python: a or b on Optional[str] *)
Definition or_ostr (a b : option string) : option string := if truthy_ostr a then a else b.

(* ---- decimal text of integers: Python str(int) ---- *)
Definition Z_to_string (z : Z) : string := NilZero.string_of_int (Z.to_int z).
Definition nat_to_string (n : nat) : string := NilZero.string_of_uint (Nat.to_uint n).
Definition Z_of_string (s : string) : option Z := option_map Z.of_int (NilZero.int_of_string s).

(* ---- format_quotes(value, quote_char) : quote ++ value ++ quote, quote=None/"" -> bare ---- *)
Definition fq (q : option string) (s : string) : string := ostr q ++ s ++ ostr q.

(* str.replace(q, q*2) for a one-character q ; q = "" (or None) leaves the string unchanged
   (Python: "abc".replace("", "") == "abc") *)
Fixpoint double_char (c : ascii) (s : string) : string :=
  match s with
  | EmptyString => EmptyString
  | String a r => if Ascii.eqb a c then String a (String a (double_char c r)) else String a (double_char c r)
  end.

Definition double_quote (q : option string) (s : string) : string :=
  match q with
  | Some (String c EmptyString) => double_char c s
  | _ => s        (* None / "" : nothing to double.  Multi-character quotes are not modelled. *)
  end.

(* ---- format_alias_sql(sql, alias, quote_char, alias_quote_char, as_keyword) ---- *)
Definition fmt_alias (sql : string) (alias : option string) (quote_char alias_quote_char : option string)
           (as_keyword : bool) : string :=
  match alias with
  | None => sql
  | Some a => sql ++ (if as_keyword then " AS " else " ") ++ fq (or_ostr alias_quote_char quote_char) a
  end.

(* ---- correspondence plumbing: indices of the cases on which [f] is false ---- *)
Fixpoint mismatches_from {A} (f : A -> bool) (i : nat) (l : list A) : list nat :=
  match l with
  | [] => []
  | c :: r => if f c then mismatches_from f (S i) r else i :: mismatches_from f (S i) r
  end.
Definition mismatches {A} (f : A -> bool) (l : list A) : list nat := mismatches_from f 0 l.

(* result type used by the builder/guard models *)
Inductive res (A : Type) := Ok (a : A) | Err (e : string).
Arguments Ok {A} a.
Arguments Err {A} e.

Definition res_eqb {A} (eqb : A -> A -> bool) (x y : res A) : bool :=
  match x, y with
  | Ok a, Ok b => eqb a b
  | Err e, Err f => String.eqb e f
  | _, _ => false
  end.

Fixpoint list_eqb {A} (eqb : A -> A -> bool) (l1 l2 : list A) : bool :=
  match l1, l2 with
  | [], [] => true
  | a :: r1, b :: r2 => eqb a b && list_eqb eqb r1 r2
  | _, _ => false
  end.

Definition option_eqb {A} (eqb : A -> A -> bool) (x y : option A) : bool :=
  match x, y with
  | Some a, Some b => eqb a b
  | None, None => true
  | _, _ => false
  end.
