(* BuilderCorr.v -- the concrete instance of Builder.v used by the C08 correspondence check:
   terms are what harness/props/C08.py can observe of the pypika objects (an identifier text for an argument
   object, the tables of its fields, its .table attribute, whether it is a Star / an EmptyCriterion) plus the
   objects the builder methods create themselves (Field(name, table=...), a & b, ValueWrapper(int), Star(),
   Rollup(...)).  [dump] prints every slot of a state in the format of C08.py:dump_state.  Definitions only. *)
From PV Require Import Base Builder.
Local Open Scope string_scope.

Inductive cterm :=
| CArg (txt : string) (tabs ftabs : list (option tbl)) (tab : option (option tbl)) (isstar isempty : bool)
| CFieldOf (name : string) (t : option tbl)
| CAnd (a b : cterm)
| CInt (z : Z)
| CStar
| CRollupT (args : list cterm).

Definition c_fields_tables (t : cterm) : list (option tbl) :=
  match t with CArg _ tabs _ _ _ _ => tabs | _ => [] end.
Definition c_find_tables (t : cterm) : list (option tbl) :=
  match t with CArg _ _ ftabs _ _ _ => ftabs | _ => [] end.
Definition c_is_empty (t : cterm) : bool := match t with CArg _ _ _ _ _ e => e | _ => false end.
(* Criterion.__and__ / EmptyCriterion.__and__ *)
Definition c_and (a b : cterm) : cterm :=
  if c_is_empty a then b else if c_is_empty b then a else CAnd a b.
Definition c_is_star (t : cterm) : bool := match t with CArg _ _ _ _ s _ => s | CStar => true | _ => false end.
Definition c_sel_table (t : cterm) : option (option tbl) :=
  match t with
  | CArg _ _ _ tab _ _ => tab
  | CFieldOf _ t => Some t
  | CStar => Some None
  | _ => None
  end.
Definition c_rollup_args (t : cterm) : option (list cterm) := match t with CRollupT l => Some l | _ => None end.

Definition cstate := qstate cterm.
Definition ccall := call cterm.
Definition cstep : cstate -> ccall -> res cstate :=
  step cterm c_fields_tables c_find_tables c_and c_is_empty CFieldOf CInt CStar c_is_star c_sel_table CRollupT c_rollup_args.
Definition crun : cstate -> list ccall -> res cstate :=
  run cterm c_fields_tables c_find_tables c_and c_is_empty CFieldOf CInt CStar c_is_star c_sel_table CRollupT c_rollup_args.

(* ---- descriptions (same format as C08.py: desc_tbl / desc_term / dump_state) ---------------- *)
Definition d_ostr (o : option string) : string := match o with Some s => s | None => "~" end.
Definition d_tbl (t : tbl) : string :=
  match t with
  | Tab n a => "T(" ++ n ++ "," ++ d_ostr a ++ ")"
  | Wq n => "W(" ++ n ++ ")"
  | Sub a id => "Q(" ++ d_ostr a ++ "#" ++ id ++ ")"
  end.
Definition d_otbl (t : option tbl) : string := match t with Some x => d_tbl x | None => "None" end.

Fixpoint d_term (t : cterm) : string :=
  match t with
  | CArg txt _ _ _ _ _ => txt
  | CFieldOf n tb => "F(" ++ n ++ "|" ++ d_otbl tb ++ ")"
  | CAnd a b => "AND(" ++ d_term a ++ "," ++ d_term b ++ ")"
  | CInt z => "V(" ++ Z_to_string z ++ ")"
  | CStar => "S(*|None)"
  | CRollupT l => "ROLLUP(" ++ Base.join "," (map d_term l) ++ ")"
  end.

Definition d_list (l : list string) : string := "[" ++ Base.join ";" l ++ "]".
Definition d_bool (b : bool) : string := if b then "True" else "False".
Definition d_oterm (o : option cterm) : string := match o with Some t => d_term t | None => "None" end.
Definition d_oz (o : option Z) : string := match o with Some z => Z_to_string z | None => "None" end.
Definition d_join (j : join cterm) : string :=
  match j with
  | JOn _ i how c col => "ON(" ++ d_tbl i ++ "|" ++ how ++ "|" ++ d_term c ++ "|" ++ d_ostr col ++ ")"
  | JUsing _ i how fs => "USING(" ++ d_tbl i ++ "|" ++ how ++ "|" ++ Base.join "," fs ++ ")"
  | JCross _ i => "CROSS(" ++ d_tbl i ++ ")"
  end.

(* sorted(...) of the description texts of a Python set *)
Definition str_leb (a b : string) : bool :=
  match String.compare a b with Gt => false | _ => true end.
Fixpoint insert_sorted (x : string) (l : list string) : list string :=
  match l with
  | [] => [x]
  | y :: r => if str_leb x y then x :: l else y :: insert_sorted x r
  end.
Definition sort_strings (l : list string) : list string := fold_right insert_sorted [] l.

Definition dump (s : cstate) : string :=
  Base.join " ; "
    [ "from=" ++ d_list (map d_tbl (q_from _ s));
      "insert_table=" ++ d_otbl (q_insert_table _ s);
      "update_table=" ++ d_otbl (q_update_table _ s);
      "with=" ++ d_list (map (fun w => fst w ++ "=" ++ d_term (snd w)) (q_with _ s));
      "selects=" ++ d_list (map d_term (q_selects _ s));
      "select_star=" ++ d_bool (q_select_star _ s);
      "select_star_tables=" ++ d_list (sort_strings (map d_otbl (q_select_star_tables _ s)));
      "joins=" ++ d_list (map d_join (q_joins _ s));
      "wheres=" ++ d_oterm (q_wheres _ s);
      "prewheres=" ++ d_oterm (q_prewheres _ s);
      "havings=" ++ d_oterm (q_havings _ s);
      "groupbys=" ++ d_list (map d_term (q_groupbys _ s));
      "orderbys=" ++ d_list (map (fun o => d_term (fst o) ++ ":" ++ d_ostr (snd o)) (q_orderbys _ s));
      "limit=" ++ d_oz (q_limit _ s);
      "offset=" ++ d_oz (q_offset _ s);
      "distinct=" ++ d_bool (q_distinct _ s);
      "for_update=" ++ d_bool (q_for_update _ s);
      "for_update_nowait=" ++ d_bool (q_for_update_nowait _ s);
      "for_update_skip_locked=" ++ d_bool (q_for_update_skip_locked _ s);
      "for_update_of=" ++ d_list (q_for_update_of _ s);
      "force_indexes=" ++ d_list (q_force_indexes _ s);
      "use_indexes=" ++ d_list (q_use_indexes _ s);
      "updates=" ++ d_list (map (fun u => d_term (fst u) ++ "=" ++ d_term (snd u)) (q_updates _ s));
      "columns=" ++ d_list (map d_term (q_columns _ s));
      "values=" ++ d_list (map (fun r => d_list (map d_term r)) (q_values _ s));
      "replace=" ++ d_bool (q_replace _ s);
      "select_into=" ++ d_bool (q_select_into _ s);
      "subquery_count=" ++ Z_to_string (q_subquery_count _ s);
      "foreign_table=" ++ d_bool (q_foreign_table _ s);
      "mysql_rollup=" ++ d_bool (q_mysql_rollup _ s);
      "hint=" ++ d_ostr (q_hint _ s);
      "modifiers=" ++ d_list (q_modifiers _ s);
      "final=" ++ d_bool (q_final _ s);
      "sample=" ++ d_oz (q_sample _ s);
      "sample_offset=" ++ d_oz (q_sample_offset _ s);
      "limit_by=" ++ match q_limit_by _ s with
                     | None => "None"
                     | Some (n, off, by_) => Z_to_string n ++ "," ++ Z_to_string off ++ "," ++ d_list (map d_term by_)
                     end;
      "distinct_on=" ++ d_list (map d_term (q_distinct_on _ s));
      "insert_or_replace=" ++ d_bool (q_insert_or_replace _ s);
      "top=" ++ d_oz (q_top _ s);
      "top_percent=" ++ d_bool (q_top_percent _ s);
      "top_with_ties=" ++ d_bool (q_top_with_ties _ s) ].

(* a correspondence case: the calls, and for several orders (lists of positions) the implementation's
   outcome: "!ExceptionClass" or the dump of the final state *)
Definition pick (calls : list ccall) (order : list nat) : list ccall :=
  flat_map (fun i => match nth_error calls i with Some c => [c] | None => [] end) order.
Definition model_outcome (calls : list ccall) (order : list nat) : string :=
  match crun (init cterm) (pick calls order) with
  | Ok s => dump s
  | Err e => "!" ++ e
  end.
Definition ccase := (list ccall * list (list nat * string))%type.
Definition check_case (c : ccase) : bool :=
  forallb (fun o => String.eqb (model_outcome (fst c) (fst o)) (snd o)) (snd c).
Definition show_case (c : ccase) : list string :=
  map (fun o => model_outcome (fst c) (fst o)) (snd c).
