(* Purity.v — effect model for C09 (rendering is a pure, repeatable, process-independent function).
   Definitions only.

   The heap ("world") is the vars()-graph of pypika objects; an observer call (str, get_sql with any
   keyword arguments, hash, ==, fields_(), tables_, find_ ...) is a transition
       observe : effect_table -> semantics -> world -> loc -> call -> order -> world * string
   driven by an *effect table* extracted from the sources (gen/C09Table.v):
     - [writes]   : the writes to state that outlives the call, found in any observer method or in anything an
                    observer can call (attribute / item assignment, del, mutator calls, setattr, mutable parameter
                    defaults, globals, caching decorators ...);  writes to the callee's own keyword dict
                    (a fresh dict per call in Python) and to objects created during the call are not listed;
     - [set_iters]: ordered consumptions of a set-valued expression (hash order reaches the text).
   What the observer returns ([txt]) and which value a listed write stores ([wval]) are arbitrary functions of the
   deep state of the observed object and of the call's arguments: the theorems hold for every such semantics.
   [order] is an arbitrary iteration-order oracle for sets; it stands for PYTHONHASHSEED. *)
From PV Require Import Base.

Inductive value :=
| VAtom (s : string)                       (* immutable leaf (repr text) *)
| VRef (l : nat)                           (* reference to a heap object *)
| VList (vs : list value)                  (* list / tuple *)
| VSet (vs : list value)                   (* set / frozenset, members in a canonical (hash independent) order *)
| VDict (ks vs : list value)               (* dict: keys and values, insertion order *)
| VAny.                                    (* unknown value (stored by a may-write) *)

Record object := mkObj { o_cls : string; o_fields : list (string * value) }.
Definition world := list object.
Definition loc := nat.

(* the pseudo-object holding module state (class attributes, parameter defaults) *)
Definition module_state : string := "<module-state>".

Inductive wscope :=
| OnClass (c : string)     (* an attribute of self in a method of class c (and its subclasses) *)
| Anywhere                 (* an attribute of an argument / of an object of unknown class *)
| Global.                  (* module state: global, class attribute, parameter default, cache decorator, dynamic code *)

Record write_entry := mkW { w_scope : wscope; w_fn : string; w_attr : string; w_kind : string }.
Record iter_entry := mkI { i_cls : string; i_fn : string; i_src : string }.

Record effect_table := mkT {
  classes : list (string * list string);   (* class -> itself and all its ancestors *)
  writes : list write_entry;
  set_iters : list iter_entry;
  raise_iters : list iter_entry;            (* set iterations feeding only the message of a raised exception (no text) *)
  analysed : list string;                   (* every function the extraction looked at *)
  excluded : list string                    (* parameter collectors: mutated on purpose, outside the property *)
}.

Definition order := list value -> list value.
Definition canon : order := fun l => l.

Record call := mkCall { c_method : string; c_args : list (string * value) }.

(* deep, cycle-safe view of an object: the unfolding of the heap up to a depth *)
Inductive tree :=
| TAtom (s : string) | TObj (cls : string) (fs : list (string * tree)) | TList (l : list tree)
| TSet (l : list tree) | TDict (ks vs : list tree) | TCut | TAny.

Fixpoint unfold (n : nat) (w : world) (v : value) : tree :=
  match n with
  | O => TCut
  | S k =>
      match v with
      | VAtom s => TAtom s
      | VRef l => match nth_error w l with
                  | Some o => TObj (o_cls o) (map (fun p => (fst p, unfold k w (snd p))) (o_fields o))
                  | None => TCut
                  end
      | VList vs => TList (map (unfold k w) vs)
      | VSet vs => TSet (map (unfold k w) vs)
      | VDict ks vs => TDict (map (unfold k w) ks) (map (unfold k w) vs)
      | VAny => TAny
      end
  end.

Record semantics := mkSem {
  depth : nat;
  txt : string -> list (string * value) -> tree -> order -> string;
  wval : write_entry -> list (string * value) -> tree -> value
}.

(* ---- class table ---- *)
Fixpoint mem_str (s : string) (l : list string) : bool :=
  match l with [] => false | x :: r => if String.eqb s x then true else mem_str s r end.

Fixpoint assoc_str {A} (s : string) (l : list (string * A)) : option A :=
  match l with [] => None | (k, v) :: r => if String.eqb s k then Some v else assoc_str s r end.

Definition ancestors (T : effect_table) (c : string) : list string :=
  match assoc_str c (classes T) with Some l => l | None => [c] end.

Definition entry_matches (T : effect_table) (e : write_entry) (o : object) : bool :=
  match w_scope e with
  | OnClass c => mem_str c (ancestors T (o_cls o))
  | Anywhere => negb (String.eqb (o_cls o) module_state)
  | Global => String.eqb (o_cls o) module_state
  end.

(* ---- reachability ---- *)
Fixpoint vrefs (v : value) : list nat :=
  match v with
  | VRef l => [l]
  | VList vs => flat_map vrefs vs
  | VSet vs => flat_map vrefs vs
  | VDict ks vs => flat_map vrefs ks ++ flat_map vrefs vs
  | _ => []
  end.

Definition orefs (o : object) : list nat := flat_map (fun p => vrefs (snd p)) (o_fields o).

Fixpoint mem_nat (n : nat) (l : list nat) : bool :=
  match l with [] => false | x :: r => if Nat.eqb n x then true else mem_nat n r end.

Fixpoint reach_from (fuel : nat) (w : world) (todo seen : list nat) : list nat :=
  match fuel with
  | O => seen
  | S f =>
      match todo with
      | [] => seen
      | l :: r =>
          if mem_nat l seen then reach_from f w r seen
          else match nth_error w l with
               | Some o => reach_from f w (orefs o ++ r) (l :: seen)
               | None => reach_from f w r seen
               end
      end
  end.

Definition total_refs (w : world) : nat := fold_right (fun o n => List.length (orefs o) + n) 0 w.
Definition reach (w : world) (l : loc) : list nat := reach_from (S (S (total_refs w + List.length w))) w [l] [].

(* ---- one observation ---- *)
Fixpoint set_field (fs : list (string * value)) (a : string) (v : value) : list (string * value) :=
  match fs with
  | [] => [(a, v)]
  | (k, x) :: r => if String.eqb k a then (k, v) :: r else (k, x) :: set_field r a v
  end.

Definition store (fs : list (string * value)) (a : string) (v : value) : list (string * value) :=
  if String.eqb a "*" then map (fun p => (fst p, v)) fs else set_field fs a v.

Definition write_obj (T : effect_table) (sem : semantics) (args : list (string * value)) (view : tree)
           (es : list write_entry) (o : object) : object :=
  fold_left (fun o e => if entry_matches T e o
                        then mkObj (o_cls o) (store (o_fields o) (w_attr e) (wval sem e args view))
                        else o) es o.

Fixpoint map_idx {A B} (f : nat -> A -> B) (i : nat) (l : list A) : list B :=
  match l with [] => [] | x :: r => f i x :: map_idx f (S i) r end.

Definition targeted (w : world) (tg : list nat) (i : nat) (o : object) : bool :=
  mem_nat i tg || String.eqb (o_cls o) module_state.

(* some set iteration of the table can run on an object reachable from l *)
Definition ord_visible (T : effect_table) (w : world) (l : loc) : bool :=
  existsb (fun e => existsb (fun i => match nth_error w i with
                                      | Some o => mem_str (i_cls e) (ancestors T (o_cls o)) || String.eqb (i_cls e) ""
                                      | None => false
                                      end) (reach w l)) (set_iters T).

Definition text (T : effect_table) (sem : semantics) (w : world) (l : loc) (c : call) (ord : order) : string :=
  txt sem (c_method c) (c_args c) (unfold (depth sem) w (VRef l)) (if ord_visible T w l then ord else canon).

Definition effect (T : effect_table) (sem : semantics) (w : world) (l : loc) (c : call) : world :=
  match writes T with
  | [] => w
  | es => let tg := reach w l in
          let view := unfold (depth sem) w (VRef l) in
          map_idx (fun i o => if targeted w tg i o then write_obj T sem (c_args c) view es o else o) 0 w
  end.

Definition observe (T : effect_table) (sem : semantics) (w : world) (l : loc) (c : call) (ord : order)
  : world * string := (effect T sem w l c, text T sem w l c ord).

Definition obs := (loc * call * order)%type.

Fixpoint run (T : effect_table) (sem : semantics) (w : world) (hist : list obs) : world :=
  match hist with
  | [] => w
  | (l, c, ord) :: r => run T sem (fst (observe T sem w l c ord)) r
  end.

(* ---- fragments: where an arbitrary table promises purity / order independence ---- *)
Definition obj_untouched (T : effect_table) (o : object) : bool :=
  forallb (fun e => negb (entry_matches T e o)) (writes T).

Definition pure_on (T : effect_table) (w : world) (l : loc) : bool :=
  match writes T with
  | [] => true
  | _ => let tg := reach w l in
         forallb (fun p => negb (targeted w tg (fst p) (snd p)) || obj_untouched T (snd p))
                 (map_idx (fun i o => (i, o)) 0 w)
  end.

(* identically constructed objects: the same unfolding at every depth (possibly in another heap / process) *)
Definition twin (w1 : world) (l1 : loc) (w2 : world) (l2 : loc) : Prop :=
  forall n, unfold n w1 (VRef l1) = unfold n w2 (VRef l2).

(* The property, for a table T *)
Definition rendering_pure (T : effect_table) : Prop :=
  forall (sem : semantics) (w : world) (hist : list obs) (l : loc) (c : call) (ord1 ord2 : order),
    (* observation never changes any object's state, whatever the history *)
    run T sem w hist = w
    (* the text after any history, under any hash order, is the text before *)
    /\ snd (observe T sem (run T sem w hist) l c ord1) = snd (observe T sem w l c ord2)
    (* and equals the text of an identically constructed object, in this or another heap *)
    /\ (forall w2 l2, twin w l w2 l2 ->
          snd (observe T sem w l c ord1) = snd (observe T sem w2 l2 c ord2)).
