(* Param.v — parameterised rendering (pypika/terms.py 305-409, 456-493; the "parameter" keyword threaded through
   every get_sql of terms.py / queries.py).  Definitions only.

   [render_t] is a state-threaded TOKEN renderer over the shared [Terms.term] AST.  With no collector
   ([None]) it is the token view of [Terms.render] (lemmas/ParamInline.v proves flatten = render); with a
   collector of class [sty] every ValueWrapper leaf emits the placeholder the collector class produces from
   [length collected] and records one entry, exactly as ValueWrapper.get_sql does; Function arguments are rendered
   with no collector (Function.get_sql re-packs its kwargs and drops "parameter").

   The statement layer elaborates a statement into the sequence of (context, term) / text items in the order in
   which QueryBuilder.get_sql calls the clause renderers (order lists regenerated from the source: gen/C06Table.v). *)
From PV Require Import Base Crit gen.TermsTable Terms gen.C06Table.
Local Open Scope list_scope.

(* ------------------------------------------------------------------------------------------------ *)
(* collector classes, collected values                                                                *)
(* ------------------------------------------------------------------------------------------------ *)
(* [style] (QmarkParameter | NumericParameter | FormatParameter | NamedParameter | PyformatParameter) comes from
   gen/C06Table.v together with the placeholder samples obtained by running the real classes *)

(* what ends up in ListParameter._parameters / DictParameter._parameters *)
Inductive pval :=
| VStr (s : string)       (* a Python str *)
| VInt (z : Z)            (* a Python int (not bool) *)
| VBool (b : bool)        (* a Python bool *)
| VFloat (repr : string)  (* a Python float, by its repr *)
| VNone.                  (* Python None *)

Definition pval_eqb (a b : pval) : bool :=
  match a, b with
  | VStr x, VStr y => String.eqb x y
  | VInt x, VInt y => Z.eqb x y
  | VBool x, VBool y => Bool.eqb x y
  | VFloat x, VFloat y => String.eqb x y
  | VNone, VNone => true
  | _, _ => false
  end.

(* collector contents in insertion order: (key, value); the key is "" for the list classes *)
Definition pstate := list (string * pval).

Definition is_dict (sty : style) : bool := match sty with Named | Pyformat => true | _ => false end.

(* Python slices *)
Fixpoint sdrop (n : nat) (s : string) : string :=
  match n, s with O, _ => s | S n', String _ r => sdrop n' r | S _, EmptyString => EmptyString end.
(* s[a:-b] *)
Definition slice_mid (a b : nat) (s : string) : string := substring a (String.length s - a - b) s.

(* parameter.get_sql() when len(parameter._parameters) = n  (placeholder = the default generator of the class:
   idx_placeholder_gen -> str(n+1), named_placeholder_gen -> "param" + str(n+1)) *)
Definition ph_text (sty : style) (n : nat) : string :=
  match sty with
  | Qmark => "?"
  | Numeric => ":" ++ nat_to_string (S n)
  | Format => "%s"
  | Named => ":" ++ "param" ++ nat_to_string (S n)
  | Pyformat => "%(" ++ "param" ++ nat_to_string (S n) ++ ")s"
  end.

(* cls(name).get_sql(): a parameter object constructed with an explicit placeholder (ParameterValueWrapper's own parameter);
   QmarkParameter / FormatParameter ignore the name *)
Definition explicit_text (sty : style) (name : string) : string :=
  match sty with
  | Qmark => "?"
  | Numeric => ":" ++ name
  | Format => "%s"
  | Named => ":" ++ name
  | Pyformat => "%(" ++ name ++ ")s"
  end.

(* parameter.get_param_key(placeholder=param_sql): Parameter: identity; DictParameter: [1:]; PyformatParameter: [2:-2] *)
Definition param_key (sty : style) (ph : string) : string :=
  match sty with
  | Named => sdrop 1 ph
  | Pyformat => slice_mid 2 2 ph
  | _ => ph
  end.

(* dict assignment d[k] = v : overwrite in place when the key exists, else append *)
Fixpoint dict_set (k : string) (v : pval) (d : pstate) : pstate :=
  match d with
  | [] => [(k, v)]
  | (k', v') :: r => if String.eqb k' k then (k', v) :: r else (k', v') :: dict_set k v r
  end.

(* parameter.update_parameters(param_key=key, value=v):
   ListParameter appends the value (the key goes to its kwargs and is ignored), DictParameter assigns *)
Definition collect (sty : style) (st : pstate) (key : string) (v : pval) : pstate :=
  if is_dict sty then dict_set key v st else st ++ [("", v)].

Fixpoint assoc (k : string) (d : pstate) : option pval :=
  match d with [] => None | (k', v) :: r => if String.eqb k' k then Some v else assoc k r end.

(* ------------------------------------------------------------------------------------------------ *)
(* tokens                                                                                             *)
(* ------------------------------------------------------------------------------------------------ *)
(* the payload of a ValueWrapper as it appears in the inline text *)
Inductive lit :=
| LStr (s : string)     (* quoted string literal with content s (str, date, UUID payloads) *)
| LInt (z : Z)
| LBool (b : bool)      (* true/false, or 1/0 under SQLLiteValueWrapper *)
| LNull                 (* ValueWrapper(None): the keyword null *)
| LRaw (txt : string).  (* str(value) of any other payload: float, Decimal, ... : a bare numeric token *)

Inductive tok :=
| KTxt (s : string)                 (* everything else: identifiers, keywords, operators, aliases, raw literals *)
| KLit (l : lit) (txt : string)     (* an inline value literal and its text *)
| KAuto (n : nat) (txt : string)    (* placeholder written by the collector for the entry it stored at index n *)
| KExp (txt : string)               (* an explicit Parameter(...) term *)
| KGuard (s : string).              (* a parenthesis the renderer adds because the operand's TEXT starts with a minus sign
                                       ("a"-(-1), -(-1)): depends on the literal's text, so it is absent when the literal
                                       is replaced by a placeholder ("a"-?) *)

Definition tok_text (t : tok) : string :=
  match t with KTxt s => s | KLit _ s => s | KAuto _ s => s | KExp s => s | KGuard s => s end.
Definition flatten (l : list tok) : string := sconcat (map tok_text l).

Definition is_auto (t : tok) : bool := match t with KAuto _ _ => true | _ => false end.
Definition is_lit (t : tok) : bool := match t with KLit _ _ => true | _ => false end.
Definition is_guard (t : tok) : bool := match t with KGuard _ => true | _ => false end.
(* the token sequence without the sign-protecting parentheses *)
Definition unguard (l : list tok) : list tok := filter (fun t => negb (is_guard t)) l.
Definition no_auto (l : list tok) : bool := forallb (fun t => negb (is_auto t)) l.
Fixpoint autos (l : list tok) : list (nat * string) :=
  match l with [] => [] | KAuto n s :: r => (n, s) :: autos r | _ :: r => autos r end.
Definition count_auto (l : list tok) : nat := List.length (autos l).
Definition count_lit (l : list tok) : nat := List.length (filter is_lit l).
Fixpoint exps (l : list tok) : list string :=
  match l with [] => [] | KExp s :: r => s :: exps r | _ :: r => exps r end.

(* ------------------------------------------------------------------------------------------------ *)
(* the renderer                                                                                       *)
(* ------------------------------------------------------------------------------------------------ *)
Definition tres := res (list tok * pstate).
Definition lres := res (list (list tok) * pstate).
Definition ret {A} (a : A) (st : pstate) : res (A * pstate) := Ok (a, st).
Definition tbind {A B} (x : res (A * pstate)) (f : A -> pstate -> res (B * pstate)) : res (B * pstate) :=
  match x with Ok (a, st) => f a st | Err e => Err e end.

Definition parl (b : bool) (l : list tok) : list tok := if b then KTxt "(" :: l ++ [KTxt ")"] else l.
Definition gparl (b : bool) (l : list tok) : list tok := if b then KGuard "(" :: l ++ [KGuard ")"] else l.
(* paren (a || b): [a] is decided by the operand's class, [b] by its text (leading minus) *)
Definition wrap2 (a b : bool) (l : list tok) : list tok := if a then parl true l else gparl b l.
(* _operand_sql: a predicate used as an operand gets parentheses *)
Definition opndl (sl : oslot) (t : term) (l : list tok) : list tok := parl (operand_parens sl (okind_of t)) l.
(* the part format_alias_sql appends *)
Definition alias_toks (c : ctx) (qc : option string) (alias : option string) : list tok :=
  match alias with
  | None => []
  | Some a => [KTxt ((if askw c then " AS " else " ") ++ fq (or_ostr (aq c) qc) a)]
  end.
Definition aliased (b : bool) (c : ctx) (qc : option string) (l : list tok) (alias : option string) : list tok :=
  if b then l ++ alias_toks c qc alias else l.

Fixpoint jointoks (sep : string) (l : list (list tok)) : list tok :=
  match l with
  | [] => []
  | [x] => x
  | x :: r => x ++ KTxt sep :: jointoks sep r
  end.

(* what the collector stores for a payload: `value is None or isinstance(value, (int, float))` -> the value itself
   (bool is an int); otherwise get_value_sql(quote_char=..) WITHOUT secondary_quote_char: the bare text, so
   Decimal/date/UUID become their str().  [isf] tells which raw payload texts are floats. *)
Definition coll (isf : string -> bool) (l : lit) : pval :=
  match l with
  | LStr s => VStr s
  | LInt z => VInt z
  | LBool b => VBool b
  | LNull => VNone
  | LRaw t => if isf t then VFloat t else VStr t
  end.

(* ValueWrapper.get_sql *)
Definition val_leaf (isf : string -> bool) (m : option style) (c : ctx) (l : lit) (txt : string)
           (alias : option string) (st : pstate) : tres :=
  match m with
  | None => ret (KLit l txt :: alias_toks c (q c) alias) st
  | Some sty =>
      let ph := ph_text sty (List.length st) in                        (* param_sql, computed BEFORE the update *)
      ret (KAuto (List.length st) ph :: alias_toks c (q c) alias)
          (collect sty st (param_key sty ph) (coll isf l))
  end.

(* leaves that never interact with the collector: their text is the shared renderer's *)
Definition opaque (c : ctx) (t : term) (st : pstate) : tres :=
  match render c t with Ok s => ret [KTxt s] st | Err e => Err e end.

Fixpoint render_t (isf : string -> bool) (m : option style) (c : ctx) (t : term) (st : pstate) {struct t} : tres :=
  match t with
  | TField _ _ _ | TStar _ | TLit _ _ | TSub _ _ _ | TEmpty => opaque c t st
  | TValS s alias => val_leaf isf m c (LStr s) (fq (sq c) (double_quote (sq c) s)) alias st
  | TValI z alias => val_leaf isf m c (LInt z) (Z_to_string z) alias st
  | TValB b sqlite alias =>
      val_leaf isf m c (LBool b) (if sqlite then (if b then "1" else "0") else (if b then "true" else "false")) alias st
  | TValNone alias => val_leaf isf m c LNull "null" alias st
  | TValRaw txt alias => val_leaf isf m c (LRaw txt) txt alias st
  | TParam txt => ret [KExp txt] st
  | TNeg t' =>
      tbind (render_t isf m (opc SNeg t' (set_wa c false)) t' st) (fun a0 s1 =>
      let a := opndl SNeg t' a0 in
      ret (KTxt "-" :: wrap2 (match t' with TArith _ _ _ _ => neg_parens_arith | TNeg _ => neg_parens_neg | _ => false end)
                             (neg_parens_minus && starts_minus (flatten a)) a) s1)
  | TArith op l r alias =>
      let c' := set_wa c false in
      let fin (a0 b0 : list tok) : list tok :=
        let a := opndl SArithL l a0 in
        let b := opndl SArithR r b0 in
        aliased (wa c) c (q c)
          (parl (left_needs_parens op (top_op l)) a ++ KTxt (aop_text op) ::
           wrap2 (right_needs_parens op (top_op r))
                 (sub_parens_minus && (match op with OSub => true | _ => false end) && starts_minus (flatten b)) b)
          alias in
      (* the order in which ArithmeticExpression.get_sql renders its two operands is read off the source *)
      if arith_left_first
      then tbind (render_t isf m (opc SArithL l c') l st) (fun a0 s1 =>
           tbind (render_t isf m (opc SArithR r c') r s1) (fun b0 s2 => ret (fin a0 b0) s2))
      else tbind (render_t isf m (opc SArithR r c') r st) (fun b0 s1 =>
           tbind (render_t isf m (opc SArithL l c') l s1) (fun a0 s2 => ret (fin a0 b0) s2))
  | TBasic cm l r alias =>
      let c' := set_wa c false in
      tbind (render_t isf m (opc SCmpL l c') l st) (fun a s1 =>
      tbind (render_t isf m (opc SCmpR r c') r s1) (fun b s2 =>
      ret (aliased (wa c) c (q c) (opndl SCmpL l a ++ KTxt (cmp_text cm) :: opndl SCmpR r b) alias) s2))
  | TCplx bo l r alias =>
      let c' := set_wa c false in
      tbind (render_t isf m (set_subc c' (needs_brackets_x bo (top_bop l))) l st) (fun a s1 =>
      tbind (render_t isf m (set_subc c' (needs_brackets_x bo (top_bop r))) r s1) (fun b s2 =>
      ret (aliased (wa c) c (q c) (parl (subc c) (a ++ KTxt (" " ++ bop_text_x bo ++ " ") :: b)) alias) s2))
  | TIn t' cont negated alias =>
      tbind (render_t isf m (opc SInTerm t' (set_wa (set_subq c false) false)) t' st) (fun a s1 =>
      tbind (render_t isf m (set_wa (set_subq c true) false) cont s1) (fun b s2 =>
      ret (aliased true c (q c) (opndl SInTerm t' a ++ KTxt (" " ++ (if negated then "NOT " else "") ++ "IN ") :: b) alias) s2))
  | TBetween t' lo hi alias =>
      let c' := set_wa c false in
      tbind (render_t isf m (opc SBetTerm t' c') t' st) (fun a s1 =>
      tbind (render_t isf m (opc SBetLo lo c') lo s1) (fun b s2 =>
      tbind (render_t isf m (opc SBetHi hi c') hi s2) (fun d s3 =>
      ret (aliased true c (q c) (opndl SBetTerm t' a ++ KTxt " BETWEEN " :: opndl SBetLo lo b ++ KTxt " AND " :: opndl SBetHi hi d) alias) s3)))
  | TBitAnd t' v alias =>
      tbind (render_t isf m (set_wa c false) t' st) (fun a s1 =>
      ret (aliased true c (q c) (KTxt "(" :: a ++ [KTxt (" & " ++ v ++ ")")]) alias) s1)
  | TIsNull t' alias =>
      tbind (render_t isf m (opc SIsNull t' (set_wa c false)) t' st) (fun a s1 =>
      ret (aliased true c (q c) (opndl SIsNull t' a ++ [KTxt " IS NULL"]) alias) s1)
  | TNotNull t' alias =>
      tbind (render_t isf m (opc SNotNull t' (set_wa c false)) t' st) (fun a s1 =>
      ret (aliased true c (q c) (opndl SNotNull t' a ++ [KTxt " IS NOT NULL"]) alias) s1)
  | TNot t' alias =>
      tbind (render_t isf m (set_wa (set_subc c true) false) t' st) (fun a s1 =>
      ret (aliased true (set_subc c true) (q c) (KTxt "NOT " :: a) alias) s1)
  | TAll t' alias =>
      tbind (render_t isf m (set_wa c false) t' st) (fun a s1 => ret (aliased true c (q c) (a ++ [KTxt " ALL"]) alias) s1)
  | TCase ws els alias =>
      let c' := set_wa c false in
      match ws with
      | WNil => Err "CaseException"
      | _ =>
        tbind (render_tw isf m c' ws st) (fun cs s1 =>
        tbind (match els with
               | ONone => ret [] s1
               | OSome t' => tbind (render_t isf m c' t' s1) (fun e s2 => ret (KTxt " ELSE " :: e) s2)
               end) (fun e s2 =>
        ret (aliased (wa c) c (q c) (KTxt "CASE " :: jointoks " " cs ++ e ++ [KTxt " END"]) alias) s2))
      end
  | TFunc name args special alias =>
      (* no collector below a Function; the collector state is untouched *)
      match render_tl isf None (fctx c) args [] with
      | Err e => Err e
      | Ok (tss, _) =>
          ret (aliased (wa c) c (q c)
                 (KTxt (name ++ "(") :: jointoks "," tss ++
                  [KTxt ((match special with Some sp => " " ++ sp | None => "" end) ++ ")")]) alias) st
      end
  | TTuple vs alias =>
      tbind (render_tl isf m (set_wa c false) vs st) (fun tss s1 =>
      ret (aliased true c (q c) (KTxt "(" :: jointoks "," tss ++ [KTxt ")"]) alias) s1)
  | TArray vs alias =>
      tbind (render_tl isf m (set_wa c false) vs st) (fun tss s1 =>
      let body := jointoks "," tss in
      let ts := if is_pg (dia c)
                then (match flatten body with EmptyString => [KTxt "'{}'"] | _ => KTxt "ARRAY[" :: body ++ [KTxt "]"] end)
                else KTxt "[" :: body ++ [KTxt "]"] in
      ret (aliased true c (q c) ts alias) s1)
  end
with render_tl (isf : string -> bool) (m : option style) (c : ctx) (l : tlist) (st : pstate) {struct l} : lres :=
  match l with
  | TNil => ret [] st
  | TCons t r =>
      tbind (render_t isf m c t st) (fun a s1 =>
      tbind (render_tl isf m c r s1) (fun rest s2 => ret (a :: rest) s2))
  end
with render_tw (isf : string -> bool) (m : option style) (c : ctx) (l : wlist) (st : pstate) {struct l} : lres :=
  match l with
  | WNil => ret [] st
  | WCons cr v r =>
      tbind (render_t isf m c cr st) (fun a s1 =>
      tbind (render_t isf m c v s1) (fun b s2 =>
      tbind (render_tw isf m c r s2) (fun rest s3 =>
      ret ((KTxt "WHEN " :: a ++ KTxt " THEN " :: b) :: rest) s3)))
  end.

(* every value leaf outside function arguments has a non-empty inline text (only ValueWrapper("") rendered with an
   empty secondary_quote_char, or a payload whose str() is empty, fail this; needed because the PostgreSQL Array
   renderer inspects the joined text of its members) and satisfies [chk] *)
Fixpoint vals_ok (chk : lit -> bool) (sqt : bool) (t : term) {struct t} : bool :=
  match t with
  | TValS s _ => (sqt || negb (String.eqb s "")) && chk (LStr s)
  | TValI z _ => chk (LInt z)
  | TValB b _ _ => chk (LBool b)
  | TValNone _ => chk LNull
  | TValRaw txt _ => negb (String.eqb txt "") && chk (LRaw txt)
  | TNeg t' | TBitAnd t' _ _ | TIsNull t' _ | TNotNull t' _ | TNot t' _ | TAll t' _ => vals_ok chk sqt t'
  | TArith _ l r _ | TBasic _ l r _ | TCplx _ l r _ | TIn l r _ _ => vals_ok chk sqt l && vals_ok chk sqt r
  | TBetween a b d _ => vals_ok chk sqt a && vals_ok chk sqt b && vals_ok chk sqt d
  | TCase ws els _ => vals_ok_w chk sqt ws && match els with ONone => true | OSome t' => vals_ok chk sqt t' end
  | TTuple vs _ | TArray vs _ => vals_ok_l chk sqt vs
  | _ => true
  end
with vals_ok_l (chk : lit -> bool) (sqt : bool) (l : tlist) {struct l} : bool :=
  match l with TNil => true | TCons t r => vals_ok chk sqt t && vals_ok_l chk sqt r end
with vals_ok_w (chk : lit -> bool) (sqt : bool) (l : wlist) {struct l} : bool :=
  match l with WNil => true | WCons a b r => vals_ok chk sqt a && vals_ok chk sqt b && vals_ok_w chk sqt r end.

(* ------------------------------------------------------------------------------------------------ *)
(* reading a parameterised text back: substitution and comparison by value                            *)
(* ------------------------------------------------------------------------------------------------ *)
(* tokens compared BY VALUE: a literal is identified with the Python value it denotes *)
Inductive vtok :=
| VT (s : string)          (* any non-literal token, by its text *)
| VV (v : pval)            (* a literal denoting the str / int / bool / float v, or the keyword null denoting None *)
| VNum (txt : string).     (* a numeric literal that is not a Python int/float (Decimal, ...) *)

Definition lit_value (isf : string -> bool) (l : lit) : vtok :=
  match l with
  | LStr s => VV (VStr s)
  | LInt z => VV (VInt z)
  | LBool b => VV (VBool b)
  | LNull => VV VNone
  | LRaw t => if isf t then VV (VFloat t) else VNum t
  end.

Definition by_value (isf : string -> bool) (t : tok) : vtok :=
  match t with
  | KTxt s => VT s
  | KExp s => VT s
  | KAuto _ s => VT s
  | KGuard s => VT s
  | KLit l _ => lit_value isf l
  end.

(* the value a placeholder stands for: list classes by position (n-th placeholder, n-th value); dict classes by name *)
Definition resolve (sty : style) (st : pstate) (n : nat) (txt : string) : option pval :=
  if is_dict sty then assoc (param_key sty txt) st else option_map snd (nth_error st n).

(* replace every collector placeholder by the literal of the value it stands for *)
Fixpoint subst (isf : string -> bool) (sty : style) (st : pstate) (l : list tok) : option (list vtok) :=
  match l with
  | [] => Some []
  | KAuto n txt :: r =>
      match resolve sty st n txt, subst isf sty st r with
      | Some v, Some r' => Some (VV v :: r')
      | _, _ => None
      end
  | t :: r => option_map (cons (by_value isf t)) (subst isf sty st r)
  end.

(* what the substitution yields on the faithful model: each literal of the inline text replaced by the literal of the
   value the collector stored for it *)
Definition stored_value (isf : string -> bool) (t : tok) : vtok :=
  match t with KLit l _ => VV (coll isf l) | _ => by_value isf t end.

(* literals for which "stored value" and "value denoted inline" coincide *)
Definition lit_exact (isf : string -> bool) (l : lit) : bool :=
  match l with LRaw t => isf t | _ => true end.
Definition tok_exact (isf : string -> bool) (t : tok) : bool :=
  match t with KLit l _ => lit_exact isf l | _ => true end.

(* ------------------------------------------------------------------------------------------------ *)
(* statements                                                                                         *)
(* ------------------------------------------------------------------------------------------------ *)
Inductive item :=
| IText (s : string)
| ITerm (c : ctx) (t : term)
| IWrap (c : ctx) (t : term).   (* ValueWrapper(term): what QueryBuilder.set builds when the value is itself a Term;
                                   rendered as the term itself (since pypika c10cc28) *)


Fixpoint render_items (isf : string -> bool) (m : option style) (l : list item) (st : pstate) : tres :=
  match l with
  | [] => ret [] st
  | IText s :: r => tbind (render_items isf m r st) (fun ts s1 => ret (KTxt s :: ts) s1)
  | ITerm c t :: r =>
      tbind (render_t isf m c t st) (fun a s1 =>
      tbind (render_items isf m r s1) (fun b s2 => ret (a ++ b) s2))
  | IWrap c t :: r =>
      (* a wrapped term is an expression, not a value: ValueWrapper.get_sql renders it with the same keyword arguments,
         collector included, and adds no placeholder of its own *)
      tbind (render_t isf m c t st) (fun a s1 =>
      tbind (render_items isf m r s1) (fun b s2 => ret (a ++ b) s2))
  end.

Definition item_ok (chk : lit -> bool) (i : item) : bool :=
  match i with IText _ => true | ITerm c t | IWrap c t => vals_ok chk (truthy_ostr (sq c)) t end.

(* a SELECT builder (generic Query / SQLLiteQuery): one FROM item, joins with ON, WHERE, GROUP BY, HAVING, ORDER BY,
   LIMIT/OFFSET; sub-queries in FROM, in a join, and as the container of IN *)
Inductive sel :=
| Sel (distinct : bool) (cols : list term) (from : src) (joins : list jn) (wh : owc)
      (grp : list term) (hav : owc) (ord : list (term * option bool)) (lim off : option Z)
with src :=
| SrcT (name : string) (alias : option string)
| SrcQ (s : sel) (alias : option string)
with jn := Jn (how : string) (it : src) (on : wc)
with wc :=
| WT (t : term)
| WIn (t : term) (s : sel) (negated : bool)    (* t.isin(sub-query) / .notin *)
| WAnd (a b : wc)                              (* ComplexCriterion(AND) of two non-complex members *)
with owc := WNone | WSome (w : wc).

(* QueryBuilder.set(field, value) stores wrapper_cls(value): a plain ValueWrapper leaf for a Python constant,
   a ValueWrapper AROUND the term when the value is a Term *)
Inductive setval := SVal (t : term) | SWrap (t : term).

Inductive stmt :=
| SSelect (s : sel)
| SInsert (tbl : string) (cols : list string) (rows : list (list term))
| SInsertSel (tbl : string) (cols : list string) (s : sel)
| SUpdate (tbl : string) (sets : list (string * setval)) (wh : owc)
| SDelete (tbl : string) (wh : owc)
| SSetOp (wrap : bool) (base : sel) (ops : list (string * sel)) (ord : list (term * option bool)) (lim off : option Z).

(* Term.alias of the modelled classes (Negative, Parameter, Star and EmptyCriterion never carry one) *)
Definition term_alias (t : term) : option string :=
  match t with
  | TField _ _ a | TValS _ a | TValI _ a | TValB _ _ a | TValNone a | TValRaw _ a | TLit _ a
  | TArith _ _ _ a | TBasic _ _ _ a | TCplx _ _ _ a | TIn _ _ _ a | TBetween _ _ _ a | TBitAnd _ _ a
  | TIsNull _ a | TNotNull _ a | TNot _ a | TAll _ a | TCase _ _ a | TFunc _ _ _ a | TTuple _ a | TArray _ a
  | TSub _ _ a => a
  | _ => None
  end.

Definition sep_items (sep : string) (l : list (list item)) : list item :=
  (fix go (l : list (list item)) : list item :=
     match l with [] => [] | [x] => x | x :: r => x ++ IText sep :: go r end) l.

(* the kwargs a QueryBuilder passes to its clause renderers: defaults of the class, with_namespace recomputed,
   everything else inherited from the caller (only subcriterion can be inherited in this model) *)
Definition base_ctx (sqlite : bool) : ctx :=
  {| q := Some """"; sq := Some "'"; aq := None; askw := false; dia := if sqlite then Some DSqlite else None;
     wa := false; wn := false; subq := false; subc := false |}.
Definition set_wn (c : ctx) (b : bool) : ctx :=
  {| q := q c; sq := sq c; aq := aq c; askw := askw c; dia := dia c; wa := wa c; wn := b; subq := subq c; subc := subc c |}.

Definition is_subquery_src (s : src) : bool := match s with SrcQ _ _ => true | _ => false end.

Definition selected_aliases (cols : list term) : list (option string) := map term_alias cols.
(* `field.alias and field.alias in selected_aliases` *)
Definition alias_hit (cols : list term) (t : term) : bool :=
  truthy_ostr (term_alias t) && existsb (option_eqb String.eqb (term_alias t)) (selected_aliases cols).

(* _group_sql / _orderby_sql for one member; [k] is the kwargs context of the builder *)
Definition by_item (k : ctx) (cols : list term) (t : term) : list item :=
  if alias_hit cols t then [IText (fq (or_ostr (aq k) (q k)) (ostr (term_alias t)))] else [ITerm (set_subq k true) t].
Definition dir_text (d : option bool) : list item :=
  match d with None => [] | Some true => [IText " ASC"] | Some false => [IText " DESC"] end.

Definition opt_z_items (kw : string) (z : option Z) : list item :=
  match z with Some n => [IText (kw ++ Z_to_string n)] | None => [] end.

(* QueryBuilder.get_sql(with_alias, subquery, **kw) of a SELECT builder; [k] = the incoming kwargs *)
Fixpoint elab_sel (k : ctx) (with_alias subquery : bool) (s : sel) {struct s} : list item :=
  match s with
  | Sel distinct cols from joins wh grp hav ord lim off =>
      let kk := set_wa (set_subq (set_wn k (match joins with [] => false | _ => true end || is_subquery_src from)) false) false in
      let clause (cl : clause) : list item :=
        match cl with
        | ClSelect =>
            IText ("SELECT " ++ (if distinct then "DISTINCT " else "")) ::
            sep_items "," (map (fun t => [ITerm (set_subq (set_wa kk true) true) t]) cols)
        | ClFrom => IText " FROM " :: elab_src (set_wn kk false) from
        | ClJoins =>
            (fix go (l : list jn) : list item :=
               match l with
               | [] => []
               | Jn how it on :: r =>
                   IText (" " ++ (if String.eqb how "" then "" else how ++ " ") ++ "JOIN ") :: elab_src kk it ++
                   IText " ON " :: elab_wc (set_subq kk true) on ++ go r
               end) joins
        | ClWhere => match wh with WNone => [] | WSome w => IText " WHERE " :: elab_wc (set_subq kk true) w end
        | ClGroup =>
            match grp with
            | [] => []
            | _ => IText " GROUP BY " :: sep_items "," (map (by_item kk cols) grp)
            end
        | ClHaving => match hav with WNone => [] | WSome w => IText " HAVING " :: elab_wc (set_subq kk true) w end
        | ClOrderby =>
            match ord with
            | [] => []
            | _ => IText " ORDER BY " :: sep_items "," (map (fun td => by_item kk cols (fst td) ++ dir_text (snd td)) ord)
            end
        | ClPagination =>
            flat_map (fun cl' => match cl' with
                                 | ClLimit => opt_z_items " LIMIT " lim
                                 | ClOffset => match off with Some 0%Z => [] | _ => opt_z_items " OFFSET " off end
                                 | _ => [] end) pagination_order
        | _ => []
        end in
      let body := flat_map clause select_order in
      let body := if subquery then IText "(" :: body ++ [IText ")"] else body in
      body
  end
with elab_src (k : ctx) (s : src) {struct s} : list item :=
  match s with
  | SrcT name alias =>
      [IText (fmt_alias (fq (q k) name) alias (q k) (aq k) (askw k))]
  | SrcQ s' alias =>
      (* a QueryBuilder: QUERY_ALIAS_QUOTE_CHAR is None, so alias_quote_char becomes ALIAS_QUOTE_CHAR = None *)
      elab_sel k true true s' ++
      match alias with None => [] | Some a => [IText ((if askw k then " AS " else " ") ++ fq (q k) a)] end
  end
with elab_wc (k : ctx) (w : wc) {struct w} : list item :=
  match w with
  | WT t => [ITerm k t]
  | WIn t s' negated =>
      (* ContainsCriterion.get_sql(subquery, ...) swallows the subquery keyword *)
      let k' := set_subq k false in
      ITerm k' t :: IText (" " ++ (if negated then "NOT " else "") ++ "IN ") :: elab_sel k' false true s'
  | WAnd a b =>
      let top (w : wc) : option bop :=
        match w with WT t => top_bop t | WAnd _ _ => Some BAnd | WIn _ _ _ => None end in
      let body := elab_wc (set_subc k (needs_brackets_x BAnd (top a))) a ++ IText " AND " ::
                  elab_wc (set_subc k (needs_brackets_x BAnd (top b))) b in
      if subc k then IText "(" :: body ++ [IText ")"] else body
  end.

Definition elab_owc (kw : string) (k : ctx) (w : owc) : list item :=
  match w with WNone => [] | WSome w' => IText kw :: elab_wc k w' end.

Definition setop_ord_item (k : ctx) (cols : list term) (td : term * option bool) : list item :=
  (if alias_hit cols (fst td) then [IText (fq (or_ostr (aq k) (q k)) (ostr (term_alias (fst td))))] else [ITerm k (fst td)]) ++ dir_text (snd td).

Definition sel_cols (s : sel) : list term := match s with Sel _ cols _ _ _ _ _ _ _ _ => cols end.

Definition elab_stmt (sqlite : bool) (s : stmt) : list item :=
  let k := base_ctx sqlite in
  match s with
  | SSelect s' => elab_sel k false false s'
  | SInsert tbl cols rows =>
      flat_map (fun cl => match cl with
        | ClInsert => [IText ("INSERT INTO " ++ fq (q k) tbl)]
        | ClColumns => match cols with [] => [] | _ => [IText (" (" ++ join "," (map (fq (q k)) cols) ++ ")")] end
        | ClValues =>
            IText " VALUES (" ::
            sep_items "),(" (map (fun row => sep_items "," (map (fun t => [ITerm (set_subq (set_wa k false) true) t]) row)) rows)
            ++ [IText ")"]
        | _ => [] end) insert_values_order
  | SInsertSel tbl cols s' =>
      flat_map (fun cl => match cl with
        | ClInsert => [IText ("INSERT INTO " ++ fq (q k) tbl)]
        | ClColumns => match cols with [] => [] | _ => [IText (" (" ++ join "," (map (fq (q k)) cols) ++ ")")] end
        | ClSelect => IText " " :: elab_sel k false false s'
        | _ => [] end) insert_select_head
  | SUpdate tbl sets wh =>
      flat_map (fun cl => match cl with
        | ClUpdate => [IText ("UPDATE " ++ fq (q k) tbl)]
        | ClSet =>
            IText " SET " ::
            sep_items "," (map (fun fv => [IText (fq (q k) (fst fv) ++ "=");
                                             match snd fv with SVal t => ITerm (set_subq k true) t | SWrap t => IWrap (set_subq k true) t end]) sets)
        | ClWhere => elab_owc " WHERE " (set_subq k true) wh
        | _ => [] end) update_order
  | SDelete tbl wh =>
      flat_map (fun cl => match cl with
        | ClDelete => [IText "DELETE"]
        | ClFrom => [IText (" FROM " ++ fq (q k) tbl)]
        | ClWhere => elab_owc " WHERE " (set_subq k true) wh
        | _ => [] end) delete_order
  | SSetOp wrap base ops ord lim off =>
      (* _SetOperation.get_sql: every default comes from base_query._set_kwargs_defaults; LIMIT/OFFSET through a builder
         of the base class (_apply_pagination) *)
      flat_map (fun cl => match cl with
        | ScBase => elab_sel k false wrap base
        | ScOps => flat_map (fun os => IText (" " ++ fst os ++ " ") :: elab_sel k false wrap (snd os)) ops
        | ScOrderby =>
            match ord with
            | [] => []
            | _ => IText " ORDER BY " :: sep_items "," (map (setop_ord_item k (sel_cols base)) ord)
            end
        | ScLimit => opt_z_items " LIMIT " lim
        | ScOffset => match off with Some 0%Z => [] | _ => opt_z_items " OFFSET " off end
        end) setop_order
  end.

Definition render_stmt (isf : string -> bool) (m : option style) (sqlite : bool) (s : stmt) (st : pstate) : tres :=
  render_items isf m (elab_stmt sqlite s) st.

(* ------------------------------------------------------------------------------------------------ *)
(* vocabulary of the property                                                                         *)
(* ------------------------------------------------------------------------------------------------ *)
(* the key under which a dict class files entry n ("" for the list classes) *)
Definition key_at (sty : style) (n : nat) : string := if is_dict sty then param_key sty (ph_text sty n) else "".
(* a collector that has only been filled by renderings (in particular the empty one): entry n has the key of index n *)
Definition fresh_keys (sty : style) (st : pstate) : Prop := map fst st = map (key_at sty) (seq 0 (List.length st)).

(* token-for-token agreement of the parameterised text [tp] with the inline text [ti]: equal tokens, except that a
   collector placeholder stands -- by position for the list classes, by name for the dict classes -- for what the
   collector stores for the inline literal at that position (a literal satisfying [chk]) *)
Definition aligned (isf : string -> bool) (chk : lit -> bool) (sty : style) (st' : pstate) (tp ti : list tok) : Prop :=
  Forall2 (fun p i => match p with
                      | KAuto n txt => exists l t, i = KLit l t /\ chk l = true /\ resolve sty st' n txt = Some (coll isf l)
                      | _ => p = i
                      end) tp ti.

(* the part of the property that concerns counting, order and naming; [st] is the collector before the rendering *)
Definition bookkeeping (sty : style) (st : pstate) (tp : list tok) (st' : pstate) : Prop :=
     List.length st' = List.length st + count_auto tp                                  (* one entry per placeholder *)
  /\ firstn (List.length st) st' = st                                                  (* earlier entries untouched *)
  /\ autos tp = map (fun n => (n, ph_text sty n)) (seq (List.length st) (count_auto tp)) (* k-th placeholder: written for entry k *)
  /\ (forall n kv, nth_error st' n = Some kv -> resolve sty st' n (ph_text sty n) = Some (snd kv))  (* ... and resolves to it *)
  /\ (is_dict sty = true -> NoDup (map fst st'))                                       (* no key assigned twice *)
  /\ (match sty with Qmark | Format => True | _ => NoDup (map snd (autos tp)) end).    (* numbered / named texts are distinct *)

Definition stmt_ok (chk : lit -> bool) (sqlite : bool) (s : stmt) : bool :=
  forallb (item_ok chk) (elab_stmt sqlite s).
