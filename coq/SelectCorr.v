(* SelectCorr.v — C04 correspondence entry points. Definitions only.
   A case carries the statement specification, the text pypika produced for it (builder calls issued in some legal
   order) and the verdict of the SQLite differential (0 = not judged, 1 = same rows as the explicit reference,
   2 = engine error or different rows, known alias-binding / integer-division findings excluded). *)
From PV Require Import Base Crit gen.TermsTable Terms Page gen.QueryTable Query QueryCorr Parse C02Model C02Frag gen.C04Table Select.
Local Open Scope string_scope.

Definition c04_case := (query * string * nat)%type.

Definition reader_fuel (ts : list stok) : nat := fuel_for sqlite (shadow ts).

Definition check_c04 (x : c04_case) : bool :=
  let '(qy, expected, hv) := x in
  (* the statement model renders pypika's text *)
  String.eqb (query_text qy) expected
  && match flat_of qy with
     | Some fl =>
         match flat_toks fl with
         | Some ts =>
             (* the token view of a flat statement flattens to pypika's text *)
             String.eqb (sflatten ts) expected
             (* and on the fragment the reader accepts it (the theorem says: and returns flat_ast) *)
             && (if flat_frag fl then match read_select (reader_fuel ts) ts with Some _ => true | None => false end else true)
         | None => true end
     | None => true end
  (* the proved fragment never contains a statement the engine judged different *)
  && negb (sel_frag qy && Nat.eqb hv 2).

Definition show_c04 (x : c04_case) : string :=
  let '(qy, _, _) := x in
  query_text qy ++ " | flat=" ++ (if is_some (flat_of qy) then "1" else "0") ++ " frag=" ++ (if sel_frag qy then "1" else "0")
  ++ " toks=" ++ match flat_of qy with
                 | Some fl => match flat_toks fl with Some ts => sflatten ts | None => "-" end
                 | None => "-" end.
