(* SetOp.v — model of pypika's set operations (queries.py: class _SetOperation, lines 541-699;
   QueryBuilder.union/union_all/intersect/except_of/minus and __add__/__mul__/__sub__, lines 1082-1114;
   the wrap_set_operation_queries constructor option, line 766; dialects.py ClickHouseQuery._builder).
   Definitions only.  Proofs: lemmas/SetOpLemmas.v.  Statement: props/C11.v. *)
From PV Require Import Base.

(* ---- the five operators (enums.SetOperation) ---- *)
Inductive sokind := KUnion | KUnionAll | KIntersect | KExcept | KMinus.
Definition kind_text (k : sokind) : string :=
  match k with
  | KUnion => "UNION" | KUnionAll => "UNION ALL" | KIntersect => "INTERSECT"
  | KExcept => "EXCEPT" | KMinus => "MINUS"
  end.
Definition sokind_eqb (a b : sokind) : bool :=
  match a, b with
  | KUnion, KUnion | KUnionAll, KUnionAll | KIntersect, KIntersect | KExcept, KExcept | KMinus, KMinus => true
  | _, _ => false
  end.

(* ---- the keyword arguments that travel down get_sql calls ----
   A Python dict: a finite map from key to value; a key may be absent, or present with any value, including None.
   Keys read by this model: quote_char, alias_quote_char, query_alias_quote_char, as_keyword; every other key
   (dialect, secondary_quote_char, groupby_alias, with_namespace, ...) is only defaulted and passed on. *)
Inductive kval := VNone | VStr (s : string) | VBool (b : bool).
Definition kval_eqb (a b : kval) : bool :=
  match a, b with
  | VNone, VNone => true
  | VStr x, VStr y => String.eqb x y
  | VBool x, VBool y => Bool.eqb x y
  | _, _ => false
  end.
Definition kwargs := list (string * kval).
Definition no_kwargs : kwargs := [].

Fixpoint kw_get (k : kwargs) (key : string) : option kval :=
  match k with
  | [] => None
  | (k', v) :: r => if String.eqb k' key then Some v else kw_get r key
  end.
Definition kw_has (k : kwargs) (key : string) : bool := is_some (kw_get k key).
(* dict.setdefault(key, v) *)
Definition kw_setdefault (k : kwargs) (kv : string * kval) : kwargs :=
  if kw_has k (fst kv) then k else (k ++ [kv])%list.
(* dict[key] = v *)
Fixpoint kw_set (k : kwargs) (kv : string * kval) : kwargs :=
  match k with
  | [] => [kv]
  | (k', v') :: r => if String.eqb k' (fst kv) then kv :: r else (k', v') :: kw_set r kv
  end.
(* a value used as Optional[str] / under Python truthiness *)
Definition kw_str (k : kwargs) (key : string) : option string :=
  match kw_get k key with Some (VStr x) => Some x | _ => None end.
Definition kw_true (k : kwargs) (key : string) : bool :=
  match kw_get k key with
  | Some (VBool b) => b
  | Some (VStr x) => negb (String.eqb x "")
  | _ => false
  end.
(* equality of dicts (no duplicate keys): same items both ways *)
Definition kw_sub (a b : kwargs) : bool :=
  forallb (fun kv => match kw_get b (fst kv) with Some v => kval_eqb v (snd kv) | None => false end) a.
Definition kwargs_eqb (a b : kwargs) : bool := kw_sub a b && kw_sub b a.

(* how a query class writes LIMIT/OFFSET (QueryBuilder._apply_pagination and its two overrides) *)
Inductive pstyle := PStd | POracle | PMssql.

(* ---- operands: opaque queries ----
   o_sel      the aliases of the selected terms (len(q._selects) = its length; the aliases matter only for the
              base query, whose selected aliases drive ORDER BY substitution);
   o_builder  the object HAS a _selects list: a QueryBuilder, or a _SetOperation (whose _selects property answers with
              its base query's list).  A Table or AliasedQuery is a Selectable whose __getattr__ answers q._selects
              with Field('_selects'): len() raises TypeError;
   o_chain    isinstance(q, _SetOperation);
   o_wrap     the attribute wrap_set_operation_queries;
   o_defaults / o_forced   what q._set_kwargs_defaults(kwargs) does: setdefault of these items (quote_char,
              secondary_quote_char, alias_quote_char, query_alias_quote_char, as_keyword, dialect), then plain
              assignment of those (Oracle, MSSQL: groupby_alias=False);
   o_page     the pagination style of q.QUERY_CLS._builder();
   o_text k sub   q.get_sql(subquery=sub, **k)  — the operand's own rendering, not interpreted here. *)
Record operand := {
  o_sel : list (option string);
  o_builder : bool;
  o_chain : bool;
  o_wrap : bool;
  o_defaults : kwargs;
  o_forced : kwargs;
  o_page : pstyle;
  o_text : kwargs -> bool -> string
}.
Definition arity (o : operand) : nat := List.length (o_sel o).

(* ORDER BY items of the chain: (field, directionality).  The field's alias, its own rendering under the kwargs,
   and Order.value *)
Record obitem := { ob_alias : option string; ob_text : kwargs -> string; ob_dir : option string }.

Record setop := {
  s_base : operand;
  s_ops : list (sokind * operand);           (* self._set_operation *)
  s_orderbys : list obitem;
  s_limit : option Z;
  s_offset : option Z;
  s_alias : option string
}.

(* ---- constructors and builder steps ---- *)
(* _SetOperation.__init__(base_query, set_operation_query, set_operation) *)
Definition new_setop (base : operand) (o : operand) (k : sokind) : setop :=
  {| s_base := base; s_ops := [(k, o)]; s_orderbys := []; s_limit := None; s_offset := None; s_alias := None |}.

(* QueryBuilder.union ... minus and the three operators *)
Definition qb_union (b o : operand) := new_setop b o KUnion.
Definition qb_union_all (b o : operand) := new_setop b o KUnionAll.
Definition qb_intersect (b o : operand) := new_setop b o KIntersect.
Definition qb_except_of (b o : operand) := new_setop b o KExcept.
Definition qb_minus (b o : operand) := new_setop b o KMinus.
Definition qb_add := qb_union.           (* __add__ *)
Definition qb_mul := qb_union_all.       (* __mul__ *)
Definition qb_sub := qb_minus.           (* __sub__ *)

(* self._set_operation.append((kind, other)) on a copy *)
Definition so_append (k : sokind) (s : setop) (o : operand) : setop :=
  {| s_base := s_base s; s_ops := s_ops s ++ [(k, o)]; s_orderbys := s_orderbys s;
     s_limit := s_limit s; s_offset := s_offset s; s_alias := s_alias s |}.
Definition so_union := so_append KUnion.
Definition so_union_all := so_append KUnionAll.
Definition so_intersect := so_append KIntersect.
Definition so_except_of := so_append KExcept.
Definition so_minus := so_append KMinus.
Definition so_add := so_union.
Definition so_mul := so_union_all.
Definition so_sub := so_minus.

(* orderby(fields..., order=...): one (field, order) pair appended per field *)
Definition so_orderby (s : setop) (fields : list (option string * (kwargs -> string))) (dir : option string) : setop :=
  {| s_base := s_base s; s_ops := s_ops s;
     s_orderbys := s_orderbys s ++ map (fun f => {| ob_alias := fst f; ob_text := snd f; ob_dir := dir |}) fields;
     s_limit := s_limit s; s_offset := s_offset s; s_alias := s_alias s |}.
Definition so_limit (s : setop) (n : option Z) : setop :=
  {| s_base := s_base s; s_ops := s_ops s; s_orderbys := s_orderbys s;
     s_limit := n; s_offset := s_offset s; s_alias := s_alias s |}.
Definition so_offset (s : setop) (n : option Z) : setop :=
  {| s_base := s_base s; s_ops := s_ops s; s_orderbys := s_orderbys s;
     s_limit := s_limit s; s_offset := n; s_alias := s_alias s |}.
Definition so_as (s : setop) (a : option string) : setop :=
  {| s_base := s_base s; s_ops := s_ops s; s_orderbys := s_orderbys s;
     s_limit := s_limit s; s_offset := s_offset s; s_alias := a |}.

(* the eight ways of adding an operand *)
Inductive meth := MUnion | MUnionAll | MIntersect | MExcept | MMinus | MAdd | MMul | MSub.
Definition qb_call (m : meth) : operand -> operand -> setop :=
  match m with
  | MUnion => qb_union | MUnionAll => qb_union_all | MIntersect => qb_intersect | MExcept => qb_except_of
  | MMinus => qb_minus | MAdd => qb_add | MMul => qb_mul | MSub => qb_sub
  end.
Definition so_call (m : meth) : setop -> operand -> setop :=
  match m with
  | MUnion => so_union | MUnionAll => so_union_all | MIntersect => so_intersect | MExcept => so_except_of
  | MMinus => so_minus | MAdd => so_add | MMul => so_mul | MSub => so_sub
  end.
(* what the documentation says each call means *)
Definition meth_kind (m : meth) : sokind :=
  match m with
  | MUnion | MAdd => KUnion | MUnionAll | MMul => KUnionAll | MIntersect => KIntersect
  | MExcept => KExcept | MMinus | MSub => KMinus
  end.

Inductive step :=
| StOp (m : meth) (o : operand)
| StOrderby (fields : list (option string * (kwargs -> string))) (dir : option string)
| StLimit (n : option Z)
| StOffset (n : option Z)
| StAs (a : option string).

Definition do_step (s : setop) (st : step) : setop :=
  match st with
  | StOp m o => so_call m s o
  | StOrderby fs d => so_orderby s fs d
  | StLimit n => so_limit s n
  | StOffset n => so_offset s n
  | StAs a => so_as s a
  end.

(* a chain-building program: base.<m>(o) followed by steps on the resulting _SetOperation *)
Definition run_prog (base : operand) (m : meth) (o : operand) (steps : list step) : setop :=
  fold_left do_step steps (qb_call m base o).

(* ---- rendering: _SetOperation.get_sql ---- *)
Inductive rres :=
| ROk (s : string)
| RSetOpExc (main other : string)   (* SetOperationException; the two query texts quoted in its message *)
| RTypeError.                        (* len(Field) *)

Definition to_res (r : rres) : res string :=
  match r with
  | ROk s => Ok s
  | RSetOpExc _ _ => Err "SetOperationException"
  | RTypeError => Err "TypeError"
  end.

(* base_query._set_kwargs_defaults(kwargs): every missing convention comes from the base query; what the caller
   (an enclosing query, an explicit keyword) set is kept; forced items are overwritten *)
Definition apply_defaults (base : operand) (k : kwargs) : kwargs :=
  fold_left kw_set (o_forced base) (fold_left kw_setdefault (o_defaults base) k).

(* an operand as it enters the chain text: rendered with subquery=base.wrap_set_operation_queries; a nested chain
   below a base that does not parenthesise becomes a derived table *)
Definition operand_sql (base : operand) (k : kwargs) (q : operand) : string :=
  let qs := o_text q k (o_wrap base) in
  if o_chain q && negb (o_wrap base) then "SELECT * FROM (" ++ qs ++ ")" else qs.

(* the for loop.  Each iteration: render the operand, THEN compare len(base._selects) with len(operand._selects),
   then extend the text. *)
Fixpoint so_loop (base : operand) (k : kwargs) (base_qs : string) (ops : list (sokind * operand))
         (querystring : string) : rres :=
  match ops with
  | [] => ROk querystring
  | (ty, q) :: rest =>
      let qs := operand_sql base k q in
      if negb (o_builder base && o_builder q) then RTypeError
      else if negb (Nat.eqb (List.length (o_sel base)) (List.length (o_sel q))) then RSetOpExc base_qs qs
      else so_loop base k base_qs rest (querystring ++ " " ++ kind_text ty ++ " " ++ qs)
  end.

(* _orderby_sql(quote_char, **kwargs) *)
Definition in_aliases (a : string) (sel : list (option string)) : bool :=
  existsb (fun x => match x with Some b => String.eqb a b | None => false end) sel.
Definition ob_clause (base : operand) (k : kwargs) (it : obitem) : string :=
  let term :=
      match ob_alias it with
      | Some a => if negb (String.eqb a "") && in_aliases a (o_sel base)
                  then fq (or_ostr (kw_str k "alias_quote_char") (kw_str k "quote_char")) a
                  else ob_text it k
      | None => ob_text it k
      end in
  match ob_dir it with Some d => term ++ " " ++ d | None => term end.
Definition orderby_sql (base : operand) (k : kwargs) (obs : list obitem) : string :=
  " ORDER BY " ++ join "," (map (ob_clause base k) obs).

Definition is_nil {A} (l : list A) : bool := match l with [] => true | _ => false end.

(* _apply_pagination of a fresh builder of the base class carrying the chain's limit and offset *)
Definition off_true (o : option Z) : bool := match o with Some n => negb (Z.eqb n 0) | None => false end.
Definition page_sql (st : pstyle) (lim off : option Z) : string :=
  match st with
  | PStd =>
      (match lim with Some n => " LIMIT " ++ Z_to_string n | None => "" end)
      ++ (if off_true off then " OFFSET " ++ Z_to_string (odefault 0%Z off) else "")
  | POracle =>
      (if off_true off then " OFFSET " ++ Z_to_string (odefault 0%Z off) ++ " ROWS" else "")
      ++ (match lim with Some n => " FETCH NEXT " ++ Z_to_string n ++ " ROWS ONLY" | None => "" end)
  | PMssql =>
      (if is_some lim || off_true off
       then " OFFSET " ++ Z_to_string (if off_true off then odefault 0%Z off else 0%Z) ++ " ROWS" else "")
      ++ (match lim with Some n => " FETCH NEXT " ++ Z_to_string n ++ " ROWS ONLY" | None => "" end)
  end.

(* the text of Field('_table_name', table=chain) formatted by format_quotes: what  self.alias or self._table_name
   evaluates to when the chain has no alias (Selectable.__getattr__ manufactures a Field) *)
Definition table_name_field_text : string := """_table_name""".

(* the alias quote of a chain used as a source: query_alias_quote_char when the key is present, else alias_quote_char *)
Definition source_alias_quote (k : kwargs) : option string :=
  if kw_has k "query_alias_quote_char" then kw_str k "query_alias_quote_char" else kw_str k "alias_quote_char".

Definition render_setop (s : setop) (k0 : kwargs) (with_alias subquery : bool) : rres :=
  let base := s_base s in
  let k := apply_defaults base k0 in
  let base_qs := o_text base k (o_wrap base) in
  match so_loop base k base_qs (s_ops s) base_qs with
  | ROk q =>
      let q := if is_nil (s_orderbys s) then q else q ++ orderby_sql base k (s_orderbys s) in
      let q := q ++ page_sql (o_page base) (s_limit s) (s_offset s) in
      let q := if subquery then "(" ++ q ++ ")" else q in
      if with_alias then
        let a := if truthy_ostr (s_alias s) then ostr (s_alias s) else table_name_field_text in
        ROk (fmt_alias q (Some a) (kw_str k "quote_char") (source_alias_quote k) (kw_true k "as_keyword"))
      else ROk q
  | e => e
  end.

(* ================= the specification, written independently ================= *)
(* the effective context: the caller's keyword arguments win, missing conventions come from the base *)
Definition eff_kwargs (s : setop) (k : kwargs) : kwargs := apply_defaults (s_base s) k.

Definition wrap_if (b : bool) (t : string) : string := if b then "(" ++ t ++ ")" else t.
Definition own_text (k : kwargs) (o : operand) : string := o_text o k false.
Definition operands (s : setop) : list operand := s_base s :: map snd (s_ops s).
Definition keywords (s : setop) : list string := map (fun x => kind_text (fst x)) (s_ops s).

(* an appended operand's segment: its own text, in parentheses iff the BASE's flag asks; where operands are not
   parenthesised a nested chain keeps its grouping as a derived table *)
Definition segment (wrap : bool) (k : kwargs) (o : operand) : string :=
  if wrap then "(" ++ own_text k o ++ ")"
  else if o_chain o then "SELECT * FROM (" ++ own_text k o ++ ")" else own_text k o.
Definition spec_segments (s : setop) (k : kwargs) : list string :=
  wrap_if (o_wrap (s_base s)) (own_text (eff_kwargs s k) (s_base s))
  :: map (fun x => segment (o_wrap (s_base s)) (eff_kwargs s k) (snd x)) (s_ops s).

(* seg0 kw1 seg1 kw2 seg2 ... as one flat word list *)
Fixpoint weave (segs kws : list string) : list string :=
  match segs with
  | [] => []
  | x :: segs' => match kws with
                 | [] => [x]
                 | kw :: kws' => x :: kw :: weave segs' kws'
                 end
  end.
Definition spec_body (s : setop) (k : kwargs) : string := join " " (weave (spec_segments s k) (keywords s)).

Definition opt_piece (b : bool) (t : string) : string := if b then t else "".
Definition spec_tail (s : setop) (k : kwargs) : string :=
  sconcat [ opt_piece (negb (is_nil (s_orderbys s)))
                      (" ORDER BY " ++ join "," (map (ob_clause (s_base s) (eff_kwargs s k)) (s_orderbys s)));
            page_sql (o_page (s_base s)) (s_limit s) (s_offset s) ].
Definition spec_text (s : setop) (k : kwargs) : string := spec_body s k ++ spec_tail s k.

(* the chain without its trailing clauses *)
Definition strip_tail (s : setop) : setop :=
  {| s_base := s_base s; s_ops := s_ops s; s_orderbys := []; s_limit := None; s_offset := None; s_alias := s_alias s |}.

(* the operand contract the spec relies on: get_sql(subquery=True) = "(" + get_sql(subquery=False) + ")" *)
Definition paren_ok (k : kwargs) (o : operand) : Prop := o_text o k true = "(" ++ o_text o k false ++ ")".

(* arity predicates *)
Definition mismatch_b (base o : operand) : bool := negb (Nat.eqb (arity base) (arity o)).
Definition has_mismatch (s : setop) : bool := existsb (fun x => mismatch_b (s_base s) (snd x)) (s_ops s).
Definition all_builders (s : setop) : bool := o_builder (s_base s) && forallb (fun x => o_builder (snd x)) (s_ops s).

(* the fragment on which C11 holds: every operand is a QueryBuilder, and (when the base asks for wrapping)
   every operand's own get_sql honours the subquery flag under the effective kwargs *)
Definition paren_okb (k : kwargs) (o : operand) : bool :=
  String.eqb (o_text o k true) ("(" ++ o_text o k false ++ ")").
Definition frag (s : setop) (k : kwargs) : bool :=
  all_builders s && (negb (o_wrap (s_base s)) || forallb (paren_okb (eff_kwargs s k)) (operands s)).

(* a finished chain used as an operand of another chain: it has its base's selected terms; its rendering is its own
   get_sql under the kwargs it is handed (which then already carry dialect and quote_char).  "" stands for the case
   where the inner chain itself raises; the theorems exclude it. *)
Definition as_operand (c : setop) : operand :=
  {| o_sel := o_sel (s_base c); o_builder := o_builder (s_base c); o_chain := true; o_wrap := false;
     o_defaults := []; o_forced := []; o_page := PStd;
     o_text := fun k sub => match render_setop c k false sub with ROk t => t | _ => "" end |}.

(* operand list of a program, in call order *)
Definition step_ops (steps : list step) : list (sokind * operand) :=
  flat_map (fun st => match st with StOp m o => [(meth_kind m, o)] | _ => [] end) steps.

(* left-to-right meaning of a chain over any row algebra *)
Definition sem_chain {R} (ap : sokind -> R -> R -> R) (base : R) (ops : list (sokind * R)) : R :=
  fold_left (fun acc x => ap (fst x) acc (snd x)) ops base.
