(* Select.v — C04, syntactic half: the SELECT statement as a sequence of clause segments, and a reader.

   Part 1 names the pieces of Query.rquery's SELECT branch (one list function per clause, in sections so that each is
           convertible with the anonymous fix inside Query.v) and the clause order the model assumes.
   Part 2 is a token view of flat SQLite SELECT statements (expressions as Parse.tok lists, clause keywords,
           source texts, aliases, numbers), its text, and a recursive-descent reader of that token view which uses
           Parse.parse with the sqlite table for every expression.
   Part 3 is the abstract statement a specification denotes (ast_of) and the decidable fragment (flat statements whose
           expressions lie in C02's fragment).
   Definitions only; proofs are in lemmas/SelectLemmas.v and lemmas/SelectReader.v. *)
From PV Require Import Base Crit gen.TermsTable Terms Page gen.QueryTable Query Parse C02Model C02Frag gen.C04Table.
Local Open Scope string_scope.

(* ------------------------------------------------------------------------------------------- *)
(* Part 1: clause segments of rquery (QSel ...)                                                  *)
(* ------------------------------------------------------------------------------------------- *)
Inductive clause := ClWith | ClSelect | ClFrom | ClJoins | ClWhere | ClGroup | ClHaving | ClOrder | ClPage | ClForUpdate.

(* the clause renderer of QueryBuilder.get_sql that produces each segment *)
Definition clause_call (c : clause) : string :=
  match c with
  | ClWith => "_with_sql" | ClSelect => "_select_sql" | ClFrom => "_from_sql" | ClJoins => "join.get_sql"
  | ClWhere => "_where_sql" | ClGroup => "_group_sql" | ClHaving => "_having_sql" | ClOrder => "_orderby_sql"
  | ClPage => "_apply_pagination" | ClForUpdate => "_for_update_sql" end.

(* the order in which the model concatenates the segments = SQLite's grammatical order *)
Definition sel_order : list clause :=
  [ClWith; ClSelect; ClFrom; ClJoins; ClWhere; ClGroup; ClHaving; ClOrder; ClPage; ClForUpdate].

(* clause renderers of the code that the statement model does not cover (MySQL/ClickHouse/PostgreSQL extras,
   INSERT ... SELECT's INTO); they are skipped when the extracted call order is compared with [sel_order] *)
Definition unmodelled_calls : list string :=
  ["_into_sql"; "_using_sql"; "_force_index_sql"; "_use_index_sql"; "_prewhere_sql"; "_rollup_sql"; "(parenthesise)"; "format_alias_sql"].
Definition is_modelled (s : string) : bool := negb (existsb (String.eqb s) unmodelled_calls).

(* (with_alias, subquery, with_namespace forwarded) each clause renderer passes to its items, and its separator *)
Definition model_item_flags : list (string * (bool * bool * bool) * list string) :=
  [("_with_sql", (false, false, true), [","]); ("_select_sql", (true, true, true), [","]);
   ("_from_sql", (true, true, true), [","]); ("_where_sql", (false, true, true), []);
   ("_group_sql", (false, true, true), [","]); ("_having_sql", (false, true, true), []);
   ("_orderby_sql", (false, true, true), [","]); ("Join.get_sql", (true, true, true), []);
   ("JoinOn.get_sql", (false, true, true), []); ("JoinUsing.get_sql", (false, false, true), [","])].
Definition flags_of (name : string) : bool * bool :=
  match find (fun r => String.eqb (fst (fst r)) name) model_item_flags with
  | Some (_, (wa_, sq_, _), _) => (wa_, sq_)
  | None => (false, false) end.
Definition sep_of (name : string) : string :=
  match find (fun r => String.eqb (fst (fst r)) name) model_item_flags with
  | Some (_, _, s :: _) => s
  | _ => "" end.

Section Segments.
Variable k : kctx.                 (* the statement's keyword arguments after _set_kwargs_defaults *)
Variable kk : kctx.                (* ... with with_namespace decided *)
Variable srcs : list tref.         (* in-statement table references of the sources *)
Variable ci : bool -> bool -> ctx. (* item context for (with_alias, subquery) *)

Fixpoint seg_withs (l : list (string * query)) : res (list string) :=
  match l with [] => Ok [] | (n, y) :: r =>
    a <- rquery kk false false (qalias y) y ;; rest <- seg_withs r ;; Ok ((n ++ " AS (" ++ a ++ ") ") :: rest) end.

Section Items.
Variable c : ctx.
Fixpoint seg_items (l : list item) : res (list string) :=
  match l with [] => Ok [] | y :: r => a <- ritem kk srcs c y ;; rest <- seg_items r ;; Ok (a :: rest) end.
End Items.

Definition src_text (s : source) (n : option string) : res string :=
  match s with
  | SrcT t => Ok (table_sql (ci true true) t)
  | SrcQ y => rquery (with_c k (ci true true)) true true n y
  | SrcA nm => Ok nm end.

Fixpoint seg_from (l : list source) (ns : list (option string)) {struct l} : res (list string) :=
  match l with [] => Ok [] | s :: r =>
    a <- (match s with
          | SrcT t => Ok (table_sql (ci true true) t)
          | SrcQ y => rquery (with_c k (ci true true)) true true (List.hd None ns) y
          | SrcA n => Ok n end) ;;
    rest <- seg_from r (List.tl ns) ;; Ok (a :: rest) end.

Definition join_cond_text (cnd : jcond) : res string :=
  match cnd with
  | JOn i => b <- ritem kk srcs (ci false true) i ;; Ok (" ON " ++ b)
  | JUsing fs => Ok (" USING (" ++ join "," (map (fq (q (kc k))) fs) ++ ")")
  | JCrossCond => Ok "" end.

Fixpoint seg_joins (l : list (jhow * source * jcond)) (ns : list (option string)) {struct l} : res (list string) :=
  match l with [] => Ok [] | (h, s, cnd) :: r =>
    a <- (match s with
          | SrcT t => Ok (table_sql (ci true true) (src_ref s (List.hd None ns)))
          | SrcQ y => rquery (with_c k (ci true true)) true true (List.hd None ns) y
          | SrcA n => Ok n end) ;;
    cn <- (match cnd with
           | JOn i => b <- ritem kk srcs (ci false true) i ;; Ok (" ON " ++ b)
           | JUsing fs => Ok (" USING (" ++ join "," (map (fq (q (kc k))) fs) ++ ")")
           | JCrossCond => Ok "" end) ;;
    rest <- seg_joins r (List.tl ns) ;;
    Ok ((jprefix h cnd ++ "JOIN " ++ a ++ cn) :: rest) end.

Section Refs.
Variable aref : item -> option string.     (* the alias a GROUP BY / ORDER BY item is replaced by, if any *)
Fixpoint seg_groups (l : list item) : res (list string) :=
  match l with [] => Ok [] | y :: r =>
    a <- (match (if k_gba k then aref y else None) with
          | Some a => Ok (fq (or_ostr (aq (kc k)) (q (kc k))) a)
          | None => ritem kk srcs (ci false clause_subq_groupby) y end) ;;
    rest <- seg_groups r ;; Ok (a :: rest) end.
Fixpoint seg_orders (l : list (item * option order)) : res (list string) :=
  match l with [] => Ok [] | (y, d) :: r =>
    a <- (match aref y with
          | Some a => Ok (fq (or_ostr (aq (kc k)) (q (kc k))) a)
          | None => ritem kk srcs (ci false clause_subq_orderby) y end) ;;
    rest <- seg_orders r ;;
    Ok ((match d with Some d' => a ++ " " ++ order_text d' | None => a end) :: rest) end.
End Refs.
End Segments.

(* the alias a GROUP BY / ORDER BY item is replaced by: its own alias, when that alias is among the selected ones *)
Definition alias_ref_of (selects : list item) (y : item) : option string :=
  match item_alias y with
  | Some a => if truthy_ostr (Some a) && existsb (option_eqb String.eqb (Some a)) (map item_alias selects) then Some a else None
  | None => None end.

(* the with_namespace decision of get_sql *)
Definition foreign_of (srcs : list tref) (wheres : option item) : bool :=
  existsb (fun o => match o with Some tb => negb (existsb (tref_eqb (resolve_tref srcs tb)) srcs) | None => false end)
          (match wheres with Some w => item_tables w | None => [] end).
Definition wns_of (from : list source) (joins : list (jhow * source * jcond)) (srcs : list tref) (wheres : option item) : bool :=
  negb (Nat.eqb (List.length joins) 0) || Nat.ltb 1 (List.length from)
  || (match from with SrcQ y :: _ => is_builder y | _ => false end)
  || foreign_of srcs wheres.
Record segs := mkSegs {
  s_with : string; s_select : string; s_from : string; s_joins : string; s_where : string;
  s_group : string; s_having : string; s_order : string; s_page : string; s_fu : string }.
Definition seg_of (s : segs) (c : clause) : string :=
  match c with
  | ClWith => s_with s | ClSelect => s_select s | ClFrom => s_from s | ClJoins => s_joins s | ClWhere => s_where s
  | ClGroup => s_group s | ClHaving => s_having s | ClOrder => s_order s | ClPage => s_page s | ClForUpdate => s_fu s end.
(* the statement body = the segments concatenated in [sel_order] *)
Definition assemble (s : segs) : string := sconcat (map (seg_of s) sel_order).

(* the same computation as Query.rquery's QSel branch, spelled with the named pieces (convertible: SelectLemmas.rquery_QSel) *)
Definition sel_text (kin : kctx) (walias subquery : bool) (ali : option string)
    (c : cls) (withs : list (string * query)) (distinct : bool) (selects : list item) (from : list source)
    (joins : list (jhow * source * jcond)) (wheres havings : option item) (groupbys : list item)
    (orderbys : list (item * option order)) (l o : option Z) (fu : bool) : res string :=
  let k := defaults c kin in
  let (fnames, n1) := name_from sub_count 0 from in
  let (jnames, _) := name_joins (base_tables from) (src_names from fnames) n1 joins in
  let srcs := (src_refs from fnames ++ src_refs (map (fun j => snd (fst j)) joins) jnames)%list in
  let wns := wns_of from joins srcs wheres in
  let base := kc k in
  let ci (wa_ sq_ : bool) := ctx_item k wa_ sq_ wns in
  let kk := with_c k (set_wn base wns) in
  match selects with
  | [] => Ok ""
  | _ =>
    w <- (match withs with [] => Ok "" | _ => ws <- seg_withs kk withs ;; Ok ("WITH " ++ join "," ws) end) ;;
    sel <- seg_items kk srcs (ci true true) selects ;;
    fr <- seg_from k ci from fnames ;;
    js <- seg_joins k kk srcs ci joins jnames ;;
    wh <- opt_bind wheres (fun i => a <- ritem kk srcs (ci false true) i ;; Ok (" WHERE " ++ a)) ;;
    gb <- (match groupbys with [] => Ok "" | _ =>
             gs <- seg_groups k kk srcs ci (alias_ref_of selects) groupbys ;; Ok (" GROUP BY " ++ join "," gs) end) ;;
    hv <- opt_bind havings (fun i => a <- ritem kk srcs (ci false clause_subq_having) i ;; Ok (" HAVING " ++ a)) ;;
    ob <- (match orderbys with [] => Ok "" | _ =>
             os <- seg_orders k kk srcs ci (alias_ref_of selects) orderbys ;; Ok (" ORDER BY " ++ join "," os) end) ;;
    let body := w ++ "SELECT " ++ (if distinct then "DISTINCT " else "") ++ join "," sel
                ++ (match fr with [] => "" | _ => " FROM " ++ join "," fr end)
                ++ (match js with [] => "" | _ => " " ++ join " " js end)
                ++ wh ++ gb ++ hv ++ ob ++ page_tail c KSelect l o ++ (if fu then " FOR UPDATE" else "") in
    let body := paren subquery body in
    Ok (if walias then fmt_alias body ali (q base) (k_qaq k) (askw base) else body)
  end.

(* the segments, computed one by one in the same order *)
Definition sel_segs (kin : kctx) (c : cls) (withs : list (string * query)) (distinct : bool) (selects : list item)
    (from : list source) (joins : list (jhow * source * jcond)) (wheres havings : option item) (groupbys : list item)
    (orderbys : list (item * option order)) (l o : option Z) (fu : bool) : res segs :=
  let k := defaults c kin in
  let (fnames, n1) := name_from sub_count 0 from in
  let (jnames, _) := name_joins (base_tables from) (src_names from fnames) n1 joins in
  let srcs := (src_refs from fnames ++ src_refs (map (fun j => snd (fst j)) joins) jnames)%list in
  let wns := wns_of from joins srcs wheres in
  let base := kc k in
  let ci (wa_ sq_ : bool) := ctx_item k wa_ sq_ wns in
  let kk := with_c k (set_wn base wns) in
  w <- (match withs with [] => Ok "" | _ => ws <- seg_withs kk withs ;; Ok ("WITH " ++ join "," ws) end) ;;
  sel <- seg_items kk srcs (ci true true) selects ;;
  fr <- seg_from k ci from fnames ;;
  js <- seg_joins k kk srcs ci joins jnames ;;
  wh <- opt_bind wheres (fun i => a <- ritem kk srcs (ci false true) i ;; Ok (" WHERE " ++ a)) ;;
  gb <- (match groupbys with [] => Ok "" | _ =>
           gs <- seg_groups k kk srcs ci (alias_ref_of selects) groupbys ;; Ok (" GROUP BY " ++ join "," gs) end) ;;
  hv <- opt_bind havings (fun i => a <- ritem kk srcs (ci false clause_subq_having) i ;; Ok (" HAVING " ++ a)) ;;
  ob <- (match orderbys with [] => Ok "" | _ =>
           os <- seg_orders k kk srcs ci (alias_ref_of selects) orderbys ;; Ok (" ORDER BY " ++ join "," os) end) ;;
  Ok (mkSegs w ("SELECT " ++ (if distinct then "DISTINCT " else "") ++ join "," sel)
             (match fr with [] => "" | _ => " FROM " ++ join "," fr end)
             (match js with [] => "" | _ => " " ++ join " " js end)
             wh gb hv ob (page_tail c KSelect l o) (if fu then " FOR UPDATE" else "")).

(* parenthesise / alias the finished body *)
Definition finish (kin : kctx) (c : cls) (walias subquery : bool) (ali : option string) (body : string) : string :=
  let base := kc (defaults c kin) in
  let body := paren subquery body in
  if walias then fmt_alias body ali (q base) (k_qaq (defaults c kin)) (askw base) else body.

(* ------------------------------------------------------------------------------------------- *)
(* Part 2: token view of a flat SQLite SELECT and its reader                                     *)
(* ------------------------------------------------------------------------------------------- *)
Inductive skw := KSel | KDistinct | KFrom | KJoin (prefix : string) | KOn | KUsing | KWhere | KGroupBy | KHaving
               | KOrderBy | KAsc | KDesc | KLimit | KOffset.
Inductive stok :=
| SE (t : tok)             (* a token of an expression (Parse.tok); also the commas between items and USING's parentheses *)
| SK (k : skw)             (* clause keyword *)
| SSrc (text : string)     (* a table reference as rendered: schema chain, name, alias *)
| SAlias (a : string)      (* alias of a select item *)
| SCol (name : string)     (* a USING column *)
| SNum (z : Z).            (* LIMIT / OFFSET operand *)

Definition dq : option string := Some """".
Definition skw_text (k : skw) : string :=
  match k with
  | KSel => "SELECT " | KDistinct => "DISTINCT " | KFrom => " FROM " | KJoin p => " " ++ p ++ "JOIN " | KOn => " ON "
  | KUsing => " USING " | KWhere => " WHERE " | KGroupBy => " GROUP BY " | KHaving => " HAVING " | KOrderBy => " ORDER BY "
  | KAsc => " ASC" | KDesc => " DESC" | KLimit => " LIMIT " | KOffset => " OFFSET " end.
Definition stok_text (x : stok) : string :=
  match x with
  | SE t => tok_text t | SK k => skw_text k | SSrc s => s | SAlias a => " " ++ fq dq a | SCol n => fq dq n
  | SNum z => Z_to_string z end.
Definition sflatten (l : list stok) : string := sconcat (map stok_text l).

(* the abstract statement *)
Inductive jc_ast := JcOn (e : expr) | JcUsing (cols : list string) | JcNone.
Record sel_ast := mkAst {
  a_distinct : bool;
  a_items : list (expr * option string);
  a_from : list string;
  a_joins : list (string * string * jc_ast);       (* join type prefix, source text, condition *)
  a_where : option expr;
  a_group : list expr;
  a_having : option expr;
  a_order : list (expr * option order);
  a_limit : option Z;
  a_offset : option Z }.

(* Every expression is read by Parse.parse with the sqlite table: foreign tokens act as closing parentheses, which
   end every operator loop and every argument list of the expression parser. *)
Definition shadow (s : list stok) : list tok := map (fun x => match x with SE t => t | _ => KRP end) s.
Definition lastn {A} (n : nat) (l : list A) : list A := skipn (List.length l - n) l.
Definition read_expr (f : nat) (s : list stok) : option (expr * list stok) :=
  match parse sqlite f 0 (shadow s) with
  | Some (e, r) => Some (e, lastn (List.length r) s)
  | None => None end.

(* [g] bounds the number of list elements, [f] is the expression parser's fuel *)
Fixpoint read_sel_items (g f : nat) (s : list stok) : option (list (expr * option string) * list stok) :=
  match g with O => None | S g' =>
    match read_expr f s with
    | Some (e, SAlias a :: SE KComma :: r) =>
        match read_sel_items g' f r with Some (l, r') => Some ((e, Some a) :: l, r') | None => None end
    | Some (e, SAlias a :: r) => Some ([(e, Some a)], r)
    | Some (e, SE KComma :: r) =>
        match read_sel_items g' f r with Some (l, r') => Some ((e, None) :: l, r') | None => None end
    | Some (e, r) => Some ([(e, None)], r)
    | None => None
    end
  end.

Fixpoint read_exprs (g f : nat) (s : list stok) : option (list expr * list stok) :=
  match g with O => None | S g' =>
    match read_expr f s with
    | Some (e, SE KComma :: r) => match read_exprs g' f r with Some (l, r') => Some (e :: l, r') | None => None end
    | Some (e, r) => Some ([e], r)
    | None => None
    end
  end.

Definition read_dir (s : list stok) : option order * list stok :=
  match s with SK KAsc :: r => (Some Asc, r) | SK KDesc :: r => (Some Desc, r) | _ => (None, s) end.
Fixpoint read_orders (g f : nat) (s : list stok) : option (list (expr * option order) * list stok) :=
  match g with O => None | S g' =>
    match read_expr f s with
    | Some (e, r0) =>
        let (d, r1) := read_dir r0 in
        match r1 with
        | SE KComma :: r => match read_orders g' f r with Some (l, r') => Some ((e, d) :: l, r') | None => None end
        | _ => Some ([(e, d)], r1)
        end
    | None => None
    end
  end.

Fixpoint read_srcs (s : list stok) : list string * list stok :=
  match s with
  | SSrc t :: SE KComma :: r => let (l, r') := read_srcs r in (t :: l, r')
  | SSrc t :: r => ([t], r)
  | _ => ([], s)
  end.
Fixpoint read_cols (s : list stok) : list string * list stok :=
  match s with
  | SCol n :: SE KComma :: r => let (l, r') := read_cols r in (n :: l, r')
  | SCol n :: r => ([n], r)
  | _ => ([], s)
  end.

Fixpoint read_joins (g f : nat) (s : list stok) : option (list (string * string * jc_ast) * list stok) :=
  match g with O => None | S g' =>
    match s with
    | SK (KJoin p) :: SSrc t :: SK KOn :: r =>
        match read_expr f r with
        | Some (e, r1) => match read_joins g' f r1 with Some (l, r2) => Some ((p, t, JcOn e) :: l, r2) | None => None end
        | None => None end
    | SK (KJoin p) :: SSrc t :: SK KUsing :: SE KLP :: r =>
        match read_cols r with
        | (c :: cs, SE KRP :: r1) =>
            match read_joins g' f r1 with Some (l, r2) => Some ((p, t, JcUsing (c :: cs)) :: l, r2) | None => None end
        | _ => None end
    | SK (KJoin p) :: SSrc t :: r =>
        match read_joins g' f r with Some (l, r2) => Some ((p, t, JcNone) :: l, r2) | None => None end
    | _ => Some ([], s)
    end
  end.

Definition skw_eqb (a b : skw) : bool :=
  match a, b with
  | KSel, KSel | KDistinct, KDistinct | KFrom, KFrom | KOn, KOn | KUsing, KUsing | KWhere, KWhere | KGroupBy, KGroupBy
  | KHaving, KHaving | KOrderBy, KOrderBy | KAsc, KAsc | KDesc, KDesc | KLimit, KLimit | KOffset, KOffset => true
  | KJoin p, KJoin p' => String.eqb p p'
  | _, _ => false end.

(* an optional clause: present iff the stream continues with its keyword *)
Definition opt_kw {A} (k : skw) (rd : list stok -> option (A * list stok)) (dflt : A) (s : list stok) : option (A * list stok) :=
  match s with
  | SK k' :: r => if skw_eqb k' k then rd r else Some (dflt, s)
  | _ => Some (dflt, s) end.

Definition read_one (f : nat) (r : list stok) : option (option expr * list stok) :=
  match read_expr f r with Some (e, r') => Some (Some e, r') | None => None end.
Definition read_from (r : list stok) : option (list string * list stok) :=
  match read_srcs r with (t :: l, r') => Some (t :: l, r') | _ => None end.

(* SELECT [DISTINCT] items [FROM sources] joins* [WHERE e] [GROUP BY es] [HAVING e] [ORDER BY os] [LIMIT n [OFFSET m]] *)
Definition read_select (f : nat) (s : list stok) : option sel_ast :=
  match s with
  | SK KSel :: s0 =>
    dr <~ opt_kw KDistinct (fun r => Some (true, r)) false s0 ;;
    ir <~ read_sel_items f f (snd dr) ;;
    fr <~ opt_kw KFrom read_from [] (snd ir) ;;
    jr <~ read_joins f f (snd fr) ;;
    wr <~ opt_kw KWhere (read_one f) None (snd jr) ;;
    gr <~ opt_kw KGroupBy (read_exprs f f) [] (snd wr) ;;
    hr <~ opt_kw KHaving (read_one f) None (snd gr) ;;
    orr <~ opt_kw KOrderBy (read_orders f f) [] (snd hr) ;;
    let mk := mkAst (fst dr) (fst ir) (fst fr) (fst jr) (fst wr) (fst gr) (fst hr) (fst orr) in
    match snd orr with
    | [] => Some (mk None None)
    | [SK KLimit; SNum n] => Some (mk (Some n) None)
    | [SK KLimit; SNum n; SK KOffset; SNum m] => Some (mk (Some n) (Some m))
    | _ => None
    end
  | _ => None
  end.

(* ------------------------------------------------------------------------------------------- *)
(* Part 3: flat statements, their tokens, the statement they denote, the fragment                *)
(* ------------------------------------------------------------------------------------------- *)
(* alias of the constructors that render it only under with_alias (Field, ArithmeticExpression, Function, Case) *)
Definition split_alias (t : term) : term * option string :=
  match t with
  | TField n tb a => (TField n tb None, a)
  | TArith o l r a => (TArith o l r None, a)
  | TFunc n args sp a => (TFunc n args sp None, a)
  | TCase ws e a => (TCase ws e None, a)
  | other => (other, None)
  end.

Inductive gitem := GAlias (a : string) | GTerm (t : term).
Inductive fcond := FOn (t : term) | FUsing (cols : list string) | FNone.
Record flat := mkFlat {
  f_distinct : bool;
  f_items : list (term * option string);
  f_from : list string;
  f_joins : list (string * string * fcond);
  f_where : option term;
  f_group : list gitem;
  f_having : option term;
  f_order : list (gitem * option order);
  f_lim : option Z; f_off : option Z;
  f_wns : bool }.

(* the rendering context of str(SQLLiteQuery...) and of its clauses *)
Definition sq_k : kctx := defaults CSQLLite (top_ctx CSQLLite).
Definition sq_ci (wns wa_ sq_ : bool) : ctx := ctx_item sq_k wa_ sq_ wns.

Fixpoint all_some {A} (l : list (option A)) : option (list A) :=
  match l with [] => Some [] | Some a :: r => option_map (cons a) (all_some r) | None :: _ => None end.

Definition it_term (srcs : list tref) (y : item) : option term :=
  match y with IT t => Some (map_tref (resolve_tref srcs) t) | _ => None end.
Definition src_table (s : source) : option tref := match s with SrcT t => Some t | _ => None end.
Definition gitem_of (selects : list item) (srcs : list tref) (y : item) : option gitem :=
  match alias_ref_of selects y with
  | Some a => Some (GAlias a)
  | None => option_map (fun t => GTerm (fst (split_alias t))) (it_term srcs y) end.

(* a statement of the flat shape: SQLite class, no WITH, every item an expression, every source a table, no FOR UPDATE,
   no statement alias; LIMIT present whenever an OFFSET is rendered (the bare OFFSET is C12's finding) *)
Definition flat_of (x : query) : option flat :=
  match x with
  | QSel CSQLLite [] d sels from joins wh hv gb ob l o false None =>
      let (fnames, n1) := name_from sub_count 0 from in
      let (jnames, _) := name_joins (base_tables from) (src_names from fnames) n1 joins in
      let jsrc := map (fun j => snd (fst j)) joins in
      let srcs := (src_refs from fnames ++ src_refs jsrc jnames)%list in
      let wns := wns_of from joins srcs wh in
      match sels with [] => None | _ =>
      if truthyZ o && negb (is_some l) then None else
      match all_some (map (it_term srcs) sels), all_some (map src_table from),
            all_some (map (fun jn => match jn with
                                     | ((h, SrcT t, cnd), n) =>
                                         match (match cnd with
                                                | JOn i => option_map FOn (it_term srcs i)
                                                | JUsing [] => None
                                                | JUsing fs => Some (FUsing fs)
                                                | JCrossCond => Some FNone end) with
                                         | Some fc => Some (jprefix h cnd, table_sql (sq_ci wns true true) (src_ref (SrcT t) n), fc)
                                         | None => None end
                                     | _ => None end) (combine joins jnames)),
            match wh with None => Some None | Some i => option_map Some (it_term srcs i) end,
            all_some (map (gitem_of sels srcs) gb),
            match hv with None => Some None | Some i => option_map Some (it_term srcs i) end,
            all_some (map (fun od => option_map (fun g => (g, snd od)) (gitem_of sels srcs (fst od))) ob)
      with
      | Some its, Some tabs, Some js, Some w, Some g, Some h, Some os =>
          Some (mkFlat d (map split_alias its) (map (table_sql (sq_ci wns true true)) tabs) js w g h os
                       l (if truthyZ o then o else None) wns)
      | _, _, _, _, _, _, _ => None
      end end
  | _ => None
  end.

(* ---- tokens ---- *)
Definition ob2 {A B C} (x : option A) (y : option B) (f : A -> B -> C) : option C :=
  match x, y with Some a, Some b => Some (f a b) | _, _ => None end.

Fixpoint commas (l : list (list stok)) : list stok :=
  match l with [] => [] | [x] => x | x :: r => (x ++ SE KComma :: commas r)%list end.

Definition etoks (c : ctx) (t : term) : option (list stok) := option_map (map SE) (rtoks c t).
Definition gitem_toks (c : ctx) (g : gitem) : option (list stok) :=
  match g with GAlias a => Some [SE (KAtom (fq dq a))] | GTerm t => etoks c t end.
Definition item_toks (c : ctx) (it : term * option string) : option (list stok) :=
  option_map (fun ts => match snd it with Some a => (ts ++ [SAlias a])%list | None => ts end) (etoks c (fst it)).
Definition join_toks (wns : bool) (j : string * string * fcond) : option (list stok) :=
  let '(p, t, fc) := j in
  match fc with
  | FOn e => option_map (fun ts => (SK (KJoin p) :: SSrc t :: SK KOn :: ts)%list) (etoks (sq_ci wns false true) e)
  | FUsing cs => Some (SK (KJoin p) :: SSrc t :: SK KUsing :: SE KLP :: commas (map (fun n => [SCol n]) cs) ++ [SE KRP])%list
  | FNone => Some [SK (KJoin p); SSrc t]
  end.
Definition opt_clause (kw : skw) (c : ctx) (o : option term) : option (list stok) :=
  match o with None => Some [] | Some t => option_map (cons (SK kw)) (etoks c t) end.
Definition order_toks (c : ctx) (od : gitem * option order) : option (list stok) :=
  option_map (fun ts => match snd od with Some Asc => (ts ++ [SK KAsc])%list | Some Desc => (ts ++ [SK KDesc])%list | None => ts end)
             (gitem_toks c (fst od)).
Definition page_stoks (l o : option Z) : list stok :=
  match l, o with
  | Some n, Some m => [SK KLimit; SNum n; SK KOffset; SNum m]
  | Some n, None => [SK KLimit; SNum n]
  | None, _ => [] end.

Definition from_stoks (fr : list string) : list stok :=
  match fr with [] => [] | _ => SK KFrom :: commas (map (fun t => [SSrc t]) fr) end.

Definition flat_toks (fl : flat) : option (list stok) :=
  let w := f_wns fl in
  match all_some (map (item_toks (sq_ci w true true)) (f_items fl)),
        all_some (map (join_toks w) (f_joins fl)),
        opt_clause KWhere (sq_ci w false true) (f_where fl),
        all_some (map (gitem_toks (sq_ci w false clause_subq_groupby)) (f_group fl)),
        opt_clause KHaving (sq_ci w false clause_subq_having) (f_having fl),
        all_some (map (order_toks (sq_ci w false clause_subq_orderby)) (f_order fl))
  with
  | Some its, Some js, Some wh, Some gs, Some hv, Some os =>
      Some (SK KSel :: (if f_distinct fl then [SK KDistinct] else []) ++ commas its
            ++ from_stoks (f_from fl)
            ++ List.concat js ++ wh
            ++ (match gs with [] => [] | _ => SK KGroupBy :: commas gs end)
            ++ hv
            ++ (match os with [] => [] | _ => SK KOrderBy :: commas os end)
            ++ page_stoks (f_lim fl) (f_off fl))%list
  | _, _, _, _, _, _ => None
  end.

(* ---- the statement a flat specification denotes: every expression is the (normalised) tree of the specified term ---- *)
Definition eexpr (c : ctx) (t : term) : option expr := option_map norm (to_expr c t).
Definition gitem_expr (c : ctx) (g : gitem) : option expr :=
  match g with GAlias a => Some (EAtom (fq dq a)) | GTerm t => eexpr c t end.
Definition flat_ast (fl : flat) : option sel_ast :=
  let w := f_wns fl in
  match all_some (map (fun it => option_map (fun e => (e, snd it)) (eexpr (sq_ci w true true) (fst it))) (f_items fl)),
        all_some (map (fun j => let '(p, t, fc) := j in
                                match fc with
                                | FOn e => option_map (fun x => (p, t, JcOn x)) (eexpr (sq_ci w false true) e)
                                | FUsing cs => Some (p, t, JcUsing cs)
                                | FNone => Some (p, t, JcNone) end) (f_joins fl)),
        match f_where fl with None => Some None | Some t => option_map Some (eexpr (sq_ci w false true) t) end,
        all_some (map (gitem_expr (sq_ci w false clause_subq_groupby)) (f_group fl)),
        match f_having fl with None => Some None | Some t => option_map Some (eexpr (sq_ci w false clause_subq_having) t) end,
        all_some (map (fun od => option_map (fun e => (e, snd od)) (gitem_expr (sq_ci w false clause_subq_orderby) (fst od))) (f_order fl))
  with
  | Some its, Some js, Some wh, Some gs, Some hv, Some os =>
      Some (mkAst (f_distinct fl) its (f_from fl) js wh gs hv os (f_lim fl) (f_off fl))
  | _, _, _, _, _, _ => None
  end.

(* ---- the fragment: every expression of the statement lies in C02's fragment, in its clause's context ---- *)
Definition gitem_frag (c : ctx) (g : gitem) : bool := match g with GAlias _ => true | GTerm t => frag02 c t end.
Definition flat_frag (fl : flat) : bool :=
  let w := f_wns fl in
  forallb (fun it => frag02 (sq_ci w true true) (fst it)) (f_items fl)
  && forallb (fun j => match snd j with FOn e => frag02 (sq_ci w false true) e | FUsing (_ :: _) => true | FUsing [] => false | FNone => true end) (f_joins fl)
  && match f_where fl with None => true | Some t => frag02 (sq_ci w false true) t end
  && forallb (gitem_frag (sq_ci w false clause_subq_groupby)) (f_group fl)
  && match f_having fl with None => true | Some t => frag02 (sq_ci w false clause_subq_having) t end
  && forallb (fun od => gitem_frag (sq_ci w false clause_subq_orderby) (fst od)) (f_order fl)
  && match f_items fl with [] => false | _ => true end
  && match f_lim fl, f_off fl with None, Some _ => false | _, _ => true end.

Definition sel_frag (x : query) : bool := match flat_of x with Some fl => flat_frag fl | None => false end.

(* syntactic scope: flat, and every expression has a token view / a tree at all *)
Definition sel_scope (x : query) : bool :=
  match flat_of x with
  | Some fl => match flat_toks fl, flat_ast fl with Some _, Some _ => true | _, _ => false end
  | None => false end.
