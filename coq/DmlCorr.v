(* DmlCorr.v — C05 correspondence entry points. Definitions only.
   CaseQ: a DML statement spec of the shared `queries` family (all ten classes): str(q) against Query.str_query.
   CaseB: a builder-call list: the real builder's _columns/_values/_updates/_replace/_insert_or_replace and str(q)
          against Dml.run / Dml.dml_text; and, when the final state is in the literal fragment, the positional reader
          run on the REAL text against the statement the state asks for (the theorem, executed on pypika's output). *)
From PV Require Import Base Crit gen.TermsTable Terms Page gen.QueryTable Query QueryCorr Dml.

Inductive c05_case :=
| CaseQ (x : query) (txt : string)
| CaseB (c : cls) (s : start) (cs : list call) (built : res dump) (txt : res string)
| CaseF (l : list c05_case).   (* a fork: builders derived from one kept prefix, and the prefix afterwards; for the (pure)
                                  model each is a linear call list *)

Definition opt_all {A} (l : list (option A)) : option (list A) :=
  fold_right (fun o acc => match o, acc with Some x, Some xs => Some (x :: xs) | _, _ => None end) (Some []) l.
Definition lit_okb (l : lit) : bool :=
  match l with
  | LStr _ => true
  | LBare t => nonempty_str t && no_delim t && match t with String a _ => negb (Ascii.eqb a sqc) | EmptyString => true end
  end.
Definition cell_lit (x : cell) : option lit :=
  match term_lit (snd x) with Some l => if lit_okb l then Some l else None | None => None end.
Definition where_opt (f : term -> res string) (w : option term) : option (option string) :=
  match w with
  | None => Some None
  | Some w0 => match f w0 with Ok t => Some (Some t) | Err _ => None end
  end.
(* the statement a final state asks for, when it lies in the fragment of the theorems *)
Definition state_ast (st : dstate) : option dml_ast :=
  if negb (dml_cls_ok (d_cls st)) then None else
  match state_kind st with
  | SkInsert =>
      match d_into st, d_values st with
      | Some tb, _ :: _ =>
          if plain_table tb && forallb (fun r => match r with [] => false | _ => true end) (d_values st) then
            match opt_all (map (fun t => match t with TField n (Some _) None => if name_ok n then Some n else None | _ => None end)
                               (d_columns st)),
                  opt_all (map (fun r => opt_all (map cell_lit r)) (d_values st)) with
            | Some cols, Some rows =>
                Some (AInsert (mode_of_flags (d_replace st, d_ior st)) (tname tb) cols rows)
            | _, _ => None
            end
          else None
      | _, _ => None
      end
  | SkUpdate =>
      match d_update st, d_updates st, d_from st, d_limit st with
      | Some tb, _ :: _, [], None =>
          if plain_table tb then
            match opt_all (map (fun fv => match fst fv, cell_lit (snd fv) with
                                          | TField n None None, Some l => if name_ok n then Some (n, l) else None
                                          | _, _ => None end) (d_updates st)),
                  where_opt (upd_where_res (d_cls st) tb) (d_where st) with
            | Some sets, Some wo => Some (AUpdate (tname tb) sets wo)
            | _, _ => None
            end
          else None
      | _, _, _, _ => None
      end
  | SkDelete =>
      match d_from st, d_limit st with
      | [tb], None =>
          if plain_table tb then
            match where_opt (del_where_res (d_cls st) tb) (d_where st) with
            | Some wo => Some (ADelete (tname tb) wo)
            | None => None
            end
          else None
      | _, _ => None
      end
  | SkNone => None
  end.

Definition theorem_instance (st : dstate) (txt : res string) : bool :=
  match state_ast st, txt with
  | Some a, Ok t => match parse_dml t with Some b => ast_eqb a b | None => false end
  | _, _ => true
  end.

Fixpoint check_case (k : c05_case) : bool :=
  match k with
  | CaseQ x txt => check_query (x, txt)
  | CaseB c s cs built txt =>
      match run c s cs, built with
      | Err e, Err e' => String.eqb e e'
      | Ok st, Ok d => dump_eqb (dump_of st) d && res_eqb String.eqb (dml_text st) txt && theorem_instance st txt
      | _, _ => false
      end
  | CaseF l => forallb check_case l
  end.

Definition show_res (r : res string) : string := match r with Ok s => s | Err e => "!" ++ e end.
Definition show_dump (d : dump) : string :=
  "cols=[" ++ join ";" (u_cols d) ++ "] values=[" ++ join " | " (map (join ";") (u_vals d)) ++ "] updates=["
  ++ join ";" (map (fun p => fst p ++ "<-" ++ snd p) (u_upds d)) ++ "] replace=" ++ (if u_replace d then "1" else "0")
  ++ " ior=" ++ (if u_ior d then "1" else "0").
Fixpoint show_case (k : c05_case) : string :=
  match k with
  | CaseF l => join " || " (map show_case l)
  | CaseQ x _ => show_query (x, "")
  | CaseB c s cs _ txt =>
      match run c s cs with
      | Err e => "!build:" ++ e
      | Ok st => show_dump (dump_of st) ++ " text=" ++ show_res (dml_text st)
                 ++ (if theorem_instance st txt then "" else " [reader disagrees on the real text]")
      end
  end.
