(* Heap.v — object/heap model of pypika's @builder decorator (pypika/utils.py: builder) and of the
   per-class __copy__ methods.  Definitions only (proofs: lemmas/HeapLemmas.v).

   Objects and cells live in two growing arrays (lists indexed by position; allocation appends).
   An object maps attribute names to cell indices, so that two objects can SHARE a container: this is
   what copy.copy does (the attribute map is copied, the cells are not), and what __copy__ repairs for
   the attributes it re-creates.  The per-(class, method) effect lists come from gen/C01Table.v
   (extracted from the sources on every run). *)
From PV Require Import Base.
Close Scope list_scope. Open Scope list_scope.
Notation length := List.length (only parsing).

Definition attr := string.

Inductive item := IAtom (s : string) | IRef (o : nat).      (* IRef o : reference to object number o *)

(* a cell: a list/set/dict (cont = true) or a scalar slot (cont = false, one item).  The flag is carried,
   never inspected by the semantics (it only tells the correspondence check whether identity matters). *)
Record cell := mkCell { cont : bool; items : list item }.

Record obj := mkObj { ocls : string; oattrs : list (attr * nat) }.   (* attribute -> cell index *)

Record world := mkWorld { objs : list obj; cells : list cell }.

Definition empty_world : world := mkWorld [] [].

(* ---- class table ---- *)
Inductive tgt :=
| TSelf                                   (* the object the body runs on (the copy, in immutable mode) *)
| TVia (a : attr)                         (* the object referenced by self.a      (Joiner.query, Joiner.item) *)
| TArg (p : string)                       (* the object passed as parameter p     (selectable.alias = ...) *)
| TArgVia (p : string) (a : attr).        (* the object referenced by p.a         (join.item.alias = ...) *)

Inductive ekind :=
| KRebind                                 (* target.a = <new value> *)
| KRebindUnset                            (* the same, guarded by `if target.a is None`: only an unset attribute is written *)
| KInPlace                                (* target.a.append(...) / += on a list / .add / [i] = ... *)
| KNested (b : attr).                     (* target.a[-1].b mutated: over-approximated as a write to target.a's cell *)

Record eff := mkEff { etgt : tgt; ekd : ekind; eattr : attr }.

Inductive retk :=
| RSelf                                   (* returns the object the body ran on *)
| RNew (cls : string)                     (* returns a new wrapper object (Joiner, _SetOperation) *)
| RVia (a : attr)                         (* returns the object referenced by self.a *)
| RCall (a : attr) (m : string).          (* return self.a.m(...): the result of method m called on the object referenced by
                                             self.a (Joiner.on -> self.query._with_join(join), a @builder call) *)
Definition is_rcall (r : retk) : bool := match r with RCall _ _ => true | _ => false end.

Record meth := mkMeth { mname : string; mcopies : bool; meffs : list eff; mret : retk }.
Record class := mkClass { cname : string; crecopy : list attr; cmeths : list meth }.
Definition table := list class.

Fixpoint find_class (T : table) (c : string) : option class :=
  match T with [] => None | k :: r => if String.eqb (cname k) c then Some k else find_class r c end.
Fixpoint find_meth (ms : list meth) (m : string) : option meth :=
  match ms with [] => None | k :: r => if String.eqb (mname k) m then Some k else find_meth r m end.

Fixpoint mem_str (a : string) (l : list string) : bool :=
  match l with [] => false | x :: r => String.eqb a x || mem_str a r end.

(* ---- static safety of a table entry ---- *)
Definition eff_safe (recopy : list attr) (e : eff) : bool :=
  match etgt e, ekd e with
  | TSelf, KRebind => true
  | TSelf, KRebindUnset => true
  | TSelf, KInPlace => mem_str (eattr e) recopy
  | _, _ => false
  end.
Definition meth_safe (c : class) (m : meth) : bool :=
  mcopies m && negb (is_rcall (mret m)) && forallb (eff_safe (crecopy c)) (meffs m).
Definition safeb (T : table) : bool := forallb (fun c => forallb (meth_safe c) (cmeths c)) T.

Definition pair_safe (T : table) (p : string * string) : bool :=
  match find_class T (fst p) with
  | None => false
  | Some c => match find_meth (cmeths c) (snd p) with None => false | Some m => meth_safe c m end
  end.
Definition all_pairs (T : table) : list (string * string) :=
  flat_map (fun c => map (fun m => (cname c, mname m)) (cmeths c)) T.
Definition safe_pairs (T : table) : list (string * string) := filter (pair_safe T) (all_pairs T).
Definition unsafe_pairs (T : table) : list (string * string) := filter (fun p => negb (pair_safe T p)) (all_pairs T).

Definition pair_eqb (p q : string * string) : bool := String.eqb (fst p) (fst q) && String.eqb (snd p) (snd q).
Fixpoint mem_pair (p : string * string) (l : list (string * string)) : bool :=
  match l with [] => false | x :: r => pair_eqb p x || mem_pair p r end.
Definition subset_pairs (l1 l2 : list (string * string)) : bool := forallb (fun p => mem_pair p l2) l1.

(* effect-level view: every effect of the table that is not statically safe, with its (class, method) *)
Definition tgt_eqb (a b : tgt) : bool :=
  match a, b with
  | TSelf, TSelf => true
  | TVia x, TVia y => String.eqb x y
  | TArg x, TArg y => String.eqb x y
  | TArgVia x u, TArgVia y v => String.eqb x y && String.eqb u v
  | _, _ => false
  end.
Definition ekind_eqb (a b : ekind) : bool :=
  match a, b with
  | KRebind, KRebind | KInPlace, KInPlace | KRebindUnset, KRebindUnset => true
  | KNested x, KNested y => String.eqb x y
  | _, _ => false
  end.
Definition eff_eqb (a b : eff) : bool :=
  tgt_eqb (etgt a) (etgt b) && ekind_eqb (ekd a) (ekd b) && String.eqb (eattr a) (eattr b).
Definition ueff := (string * string * eff)%type.
Definition ueff_eqb (a b : ueff) : bool :=
  String.eqb (fst (fst a)) (fst (fst b)) && String.eqb (snd (fst a)) (snd (fst b)) && eff_eqb (snd a) (snd b).
Definition unsafe_effs (T : table) : list ueff :=
  flat_map (fun c => flat_map (fun m =>
      map (fun e => (cname c, mname m, e)) (filter (fun e => negb (mcopies m && eff_safe (crecopy c) e)) (meffs m)))
    (cmeths c)) T.
Fixpoint mem_ueff (u : ueff) (l : list ueff) : bool :=
  match l with [] => false | x :: r => ueff_eqb u x || mem_ueff u r end.
Definition subset_ueffs (l1 l2 : list ueff) : bool := forallb (fun u => mem_ueff u l2) l1.

(* ---- heap primitives ---- *)
Fixpoint upd {A} (l : list A) (i : nat) (x : A) : list A :=
  match l, i with
  | [], _ => []
  | _ :: r, O => x :: r
  | y :: r, S j => y :: upd r j x
  end.

Fixpoint lookup_attr (a : attr) (l : list (attr * nat)) : option nat :=
  match l with [] => None | (b, c) :: r => if String.eqb a b then Some c else lookup_attr a r end.
Fixpoint set_assoc (a : attr) (c : nat) (l : list (attr * nat)) : list (attr * nat) :=
  match l with
  | [] => [(a, c)]
  | (b, d) :: r => if String.eqb a b then (b, c) :: r else (b, d) :: set_assoc a c r
  end.

Definition item_ok (n : nat) (i : item) : bool := match i with IAtom _ => true | IRef o => Nat.ltb o n end.
Definition items_ok (n : nat) (l : list item) : bool := forallb (item_ok n) l.

Definition alloc_cell (w : world) (c : cell) : world * nat :=
  (mkWorld (objs w) (cells w ++ [c]), length (cells w)).
Definition alloc_obj (w : world) (o : obj) : world * nat :=
  (mkWorld (objs w ++ [o]) (cells w), length (objs w)).
Definition write_cell (w : world) (c : nat) (v : cell) : option world :=
  if Nat.ltb c (length (cells w)) then Some (mkWorld (objs w) (upd (cells w) c v)) else None.
Definition set_attr (w : world) (o : nat) (a : attr) (c : nat) : option world :=
  match nth_error (objs w) o with
  | None => None
  | Some ob => Some (mkWorld (upd (objs w) o (mkObj (ocls ob) (set_assoc a c (oattrs ob)))) (cells w))
  end.

Definition get_attr_cell (w : world) (o : nat) (a : attr) : option nat :=
  match nth_error (objs w) o with None => None | Some ob => lookup_attr a (oattrs ob) end.
Definition read_attr (w : world) (o : nat) (a : attr) : option cell :=
  match get_attr_cell w o a with None => None | Some c => nth_error (cells w) c end.

(* the object an attribute refers to: self.a holds exactly one reference *)
Definition deref (w : world) (o : nat) (a : attr) : option nat :=
  match read_attr w o a with
  | Some (mkCell _ [IRef p]) => Some p
  | _ => None
  end.

(* the attribute currently holds None *)
Definition attr_unset (w : world) (o : nat) (a : attr) : bool :=
  match read_attr w o a with
  | Some (mkCell _ [IAtom "None"]) => true
  | _ => false
  end.

(* getattr(self, "immutable", True) is falsy: the attribute exists and holds False *)
Definition immutable_false (w : world) (o : nat) : bool :=
  match read_attr w o "immutable" with
  | Some (mkCell _ [IAtom "False"]) => true
  | _ => false
  end.

(* ---- copy.copy + __copy__ : new object with the same attribute map, then fresh cells for the re-created attributes ---- *)
Fixpoint recopy_attrs (w : world) (n : nat) (l : list attr) : option world :=
  match l with
  | [] => Some w
  | a :: r =>
      match read_attr w n a with
      | None => recopy_attrs w n r                      (* attribute absent on this instance: nothing to re-create *)
      | Some c =>
          let (w1, k) := alloc_cell w c in
          match set_attr w1 n a k with
          | None => None
          | Some w2 => recopy_attrs w2 n r
          end
      end
  end.

Definition copy_obj (w : world) (o : nat) (recopy : list attr) : option (world * nat) :=
  match nth_error (objs w) o with
  | None => None
  | Some ob =>
      let (w1, n) := alloc_obj w ob in
      match recopy_attrs w1 n recopy with None => None | Some w2 => Some (w2, n) end
  end.

(* ---- effects ---- *)
Fixpoint lookup_arg (p : string) (args : list (string * item)) : option item :=
  match args with [] => None | (q, i) :: r => if String.eqb p q then Some i else lookup_arg p r end.

Definition target (w : world) (self : nat) (args : list (string * item)) (t : tgt) : option nat :=
  match t with
  | TSelf => Some self
  | TVia a => deref w self a
  | TArg p => match lookup_arg p args with Some (IRef o) => Some o | _ => None end
  | TArgVia p a => match lookup_arg p args with Some (IRef o) => deref w o a | _ => None end
  end.

(* one effect, resolved by the run-time choice (fired?, resulting content).  None = stuck (ill-formed step). *)
Definition run_eff (w : world) (self : nat) (args : list (string * item)) (e : eff) (ch : bool * cell) : option world :=
  if negb (fst ch) then Some w else
  if negb (items_ok (length (objs w)) (items (snd ch))) then None else
  match target w self args (etgt e) with
  | None => None
  | Some o =>
      match ekd e with
      | KRebind => let (w1, k) := alloc_cell w (snd ch) in set_attr w1 o (eattr e) k
      | KRebindUnset =>
          if attr_unset w o (eattr e) then let (w1, k) := alloc_cell w (snd ch) in set_attr w1 o (eattr e) k
          else None                       (* the guard says this write cannot happen: the step is ill-formed *)
      | KInPlace | KNested _ =>
          match get_attr_cell w o (eattr e) with
          | None => None
          | Some c => write_cell w c (snd ch)
          end
      end
  end.

Fixpoint run_effs (w : world) (self : nat) (args : list (string * item)) (es : list eff) (chs : list (bool * cell))
  : option world :=
  match es, chs with
  | [], [] => Some w
  | e :: er, ch :: cr =>
      match run_eff w self args e ch with None => None | Some w1 => run_effs w1 self args er cr end
  | _, _ => None
  end.

(* a new object whose attributes get fresh cells with the given contents *)
Fixpoint alloc_attrs (w : world) (l : list (attr * cell)) : option (world * list (attr * nat)) :=
  match l with
  | [] => Some (w, [])
  | (a, c) :: r =>
      if negb (items_ok (length (objs w)) (items c)) then None else
      let (w1, k) := alloc_cell w c in
      match alloc_attrs w1 r with
      | None => None
      | Some (w2, m) => Some (w2, (a, k) :: m)
      end
  end.
Definition new_obj (w : world) (cls : string) (l : list (attr * cell)) : option (world * nat) :=
  match alloc_attrs w l with
  | None => None
  | Some (w1, m) => Some (alloc_obj w1 (mkObj cls m))
  end.

(* ---- histories ---- *)
Inductive step :=
| SNew (cls : string) (attrs : list (attr * cell))
      (* a constructor call *)
| SCall (recv : nat) (m : string) (args : list (string * item)) (chs : list (bool * cell)) (wrap : list (attr * cell)).
      (* recv.m(args); chs resolves the method's effect list; wrap = attributes of the returned wrapper (RNew) *)

Definition copies_now (w : world) (recv : nat) (m : meth) : bool := mcopies m && negb (immutable_false w recv).

(* class and table row of recv.mn *)
Definition lookup_call (T : table) (w : world) (recv : nat) (mn : string) : option (class * meth) :=
  match nth_error (objs w) recv with
  | None => None
  | Some ob =>
      match find_class T (ocls ob) with
      | None => None
      | Some c => match find_meth (cmeths c) mn with None => None | Some m => Some (c, m) end
      end
  end.

(* the decorator and the body: copy the receiver when [cpf], run the method's effects on the copy / the receiver *)
Definition exec_body (cpf : bool) (c : class) (m : meth) (w : world) (recv : nat)
           (args : list (string * item)) (chs : list (bool * cell)) : option (world * nat) :=
  match (if cpf then copy_obj w recv (crecopy c) else Some (w, recv)) with
  | None => None
  | Some (w1, self) =>
      match run_effs w1 self args (meffs m) chs with
      | None => None
      | Some w2 => Some (w2, self)
      end
  end.

Definition finish (w : world) (self : nat) (r : retk) (wrap : list (attr * cell)) : option (world * nat) :=
  match r with
  | RSelf => Some (w, self)
  | RVia a => match deref w self a with None => None | Some o => Some (w, o) end
  | RNew cls => new_obj w cls wrap
  | RCall _ _ => None
  end.

(* recv.mn(args): [cp w o m] says whether the decorator copies object o before running m on it.
   A row returning [RCall a m2] runs its own effects (the first |effects| choices), then m2 on the object behind self.a
   (remaining choices) and returns what m2 returns; one level of delegation. *)
Definition exec_call (T : table) (cp : world -> nat -> meth -> bool) (w : world) (recv : nat) (mn : string)
           (args : list (string * item)) (chs : list (bool * cell)) (wrap : list (attr * cell)) : option (world * nat) :=
  match lookup_call T w recv mn with
  | None => None
  | Some (c, m) =>
      if negb (forallb (fun a => item_ok (length (objs w)) (snd a)) args) then None else
      match mret m with
      | RCall a m2 =>
          let n := length (meffs m) in
          match exec_body (cp w recv m) c m w recv args (firstn n chs) with
          | None => None
          | Some (w2, self) =>
              match deref w2 self a with
              | None => None
              | Some o =>
                  match lookup_call T w2 o m2 with
                  | None => None
                  | Some (c2, k2) =>
                      match exec_body (cp w2 o k2) c2 k2 w2 o args (skipn n chs) with
                      | None => None
                      | Some (w3, s3) => finish w3 s3 (mret k2) wrap
                      end
                  end
              end
          end
      | r =>
          match exec_body (cp w recv m) c m w recv args chs with
          | None => None
          | Some (w2, self) => finish w2 self r wrap
          end
      end
  end.

Definition exec_step (T : table) (w : world) (s : step) : option (world * nat) :=
  match s with
  | SNew cls l => new_obj w cls l
  | SCall recv mn args chs wrap => exec_call T copies_now w recv mn args chs wrap
  end.

(* ---- the immutable=False sentence: the same chain of calls, run in place or through copies ---- *)
Definition call := (string * list (string * item) * list (bool * cell))%type.

(* cp = false : getattr(self, "immutable", True) is False, the decorator never copies;  cp = true : it copies whenever
   the method is a @builder *)
Fixpoint run_chain (T : table) (cp : bool) (w : world) (o : nat) (ch : list call) : option (world * nat) :=
  match ch with
  | [] => Some (w, o)
  | (mn, args, chs) :: r =>
      match exec_call T (fun _ _ m => cp && mcopies m) w o mn args chs [] with
      | None => None
      | Some (w1, o1) => run_chain T cp w1 o1 r
      end
  end.

(* what the final object holds: its class and, per attribute, the content of the attribute's cell *)
Definition view (w : world) (o : nat) : option (string * list (attr * option cell)) :=
  match nth_error (objs w) o with
  | None => None
  | Some ob => Some (ocls ob, map (fun ac : attr * nat => (fst ac, nth_error (cells w) (snd ac))) (oattrs ob))
  end.

Definition tgt_is_self (t : tgt) : bool := match t with TSelf => true | _ => false end.
Fixpoint fired_self (es : list eff) (chs : list (bool * cell)) : bool :=
  match es, chs with
  | e :: er, ch :: cr => (negb (fst ch) || tgt_is_self (etgt e)) && fired_self er cr
  | _, _ => true
  end.
Definition call_self_only (c : class) (cl : call) : bool :=
  match find_meth (cmeths c) (fst (fst cl)) with
  | None => true
  | Some m => (match mret m with RSelf => true | _ => false end) && fired_self (meffs m) (snd cl)
  end.

(* no two attributes of the object point to the same cell *)
Fixpoint nodup_nat (l : list nat) : bool :=
  match l with [] => true | x :: r => negb (existsb (Nat.eqb x) r) && nodup_nat r end.
Definition unaliased (w : world) (o : nat) : bool :=
  match nth_error (objs w) o with None => false | Some ob => nodup_nat (map snd (oattrs ob)) end.

(* worlds after each step; a stuck step (None: the call is ill-formed for the model) ends the run *)
Fixpoint run (T : table) (w : world) (h : list step) : list world :=
  match h with
  | [] => []
  | s :: r => match exec_step T w s with None => [] | Some (w1, _) => w1 :: run T w1 r end
  end.

(* ---- observation: everything reachable from an object (what any rendering can depend on) ---- *)
Inductive tree :=
| TAtom (s : string)
| TObj (cls : string) (attrs : list (attr * option (bool * list tree)))
| TCut                         (* fuel exhausted *)
| TDangling.

Fixpoint obs (fuel : nat) (w : world) (i : item) : tree :=
  match i with
  | IAtom s => TAtom s
  | IRef o =>
      match fuel with
      | O => TCut
      | S f =>
          match nth_error (objs w) o with
          | None => TDangling
          | Some ob =>
              TObj (ocls ob)
                   (map (fun ac : attr * nat =>
                           (fst ac, match nth_error (cells w) (snd ac) with
                                    | None => None
                                    | Some c => Some (cont c, map (obs f w) (items c))
                                    end))
                        (oattrs ob))
          end
      end
  end.

(* ---- well-formedness: every pointer is allocated ---- *)
Definition obj_ok (nc : nat) (ob : obj) : bool := forallb (fun ac : attr * nat => Nat.ltb (snd ac) nc) (oattrs ob).
Definition cell_ok (no : nat) (c : cell) : bool := items_ok no (items c).
Definition wfb (w : world) : bool :=
  forallb (obj_ok (length (cells w))) (objs w) && forallb (cell_ok (length (objs w))) (cells w).

(* ---- which steps are covered by the immutability theorem (dynamic reading of the table) ---- *)
Fixpoint fired_safe (recopy : list attr) (es : list eff) (chs : list (bool * cell)) : bool :=
  match es, chs with
  | e :: er, ch :: cr => (negb (fst ch) || eff_safe recopy e) && fired_safe recopy er cr
  | _, _ => true
  end.

(* a body is quiet when every effect that fires is safe AND the body ran on a copy; without a copy nothing may fire *)
Fixpoint fired_ok (cpf : bool) (recopy : list attr) (es : list eff) (chs : list (bool * cell)) : bool :=
  match es, chs with
  | e :: er, ch :: cr => (negb (fst ch) || (cpf && eff_safe recopy e)) && fired_ok cpf recopy er cr
  | _, _ => true
  end.

Definition step_quiet (T : table) (w : world) (s : step) : bool :=
  match s with
  | SNew _ _ => true
  | SCall recv mn args chs wrap =>
      match lookup_call T w recv mn with
      | None => true
      | Some (c, m) =>
          match mret m with
          | RCall a m2 =>
              let n := length (meffs m) in
              fired_ok (copies_now w recv m) (crecopy c) (meffs m) (firstn n chs) &&
              match exec_body (copies_now w recv m) c m w recv args (firstn n chs) with
              | None => true
              | Some (w2, self) =>
                  match deref w2 self a with
                  | None => true
                  | Some o =>
                      match lookup_call T w2 o m2 with
                      | None => true
                      | Some (c2, k2) => fired_ok (copies_now w2 o k2) (crecopy c2) (meffs k2) (skipn n chs)
                      end
                  end
              end
          | _ => fired_ok (copies_now w recv m) (crecopy c) (meffs m) chs
          end
      end
  end.

Fixpoint hist_quiet (T : table) (w : world) (h : list step) : bool :=
  match h with
  | [] => true
  | s :: r => match exec_step T w s with
              | None => true
              | Some (w1, _) => step_quiet T w s && hist_quiet T w1 r
              end
  end.

(* static variant: every call goes to a (class, method) pair of the list P and no receiver has immutable=False *)
Definition step_uses (P : list (string * string)) (w : world) (s : step) : bool :=
  match s with
  | SNew _ _ => true
  | SCall recv mn _ _ _ =>
      match nth_error (objs w) recv with
      | None => true
      | Some ob => mem_pair (ocls ob, mn) P && negb (immutable_false w recv)
      end
  end.
Fixpoint hist_uses (T : table) (P : list (string * string)) (w : world) (h : list step) : bool :=
  match h with
  | [] => true
  | s :: r => match exec_step T w s with
              | None => true
              | Some (w1, _) => step_uses P w s && hist_uses T P w1 r
              end
  end.

(* ---- the property on the model: every object alive before a call observes the same after it ---- *)
Fixpoint preserved (T : table) (w : world) (h : list step) : Prop :=
  match h with
  | [] => True
  | s :: r =>
      match exec_step T w s with
      | None => True
      | Some (w1, _) =>
          (forall fuel o, o < length (objs w) -> obs fuel w1 (IRef o) = obs fuel w (IRef o))
          /\ preserved T w1 r
      end
  end.
