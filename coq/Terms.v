(* Terms.v — executable model of pypika's expression terms (pypika/terms.py) and their get_sql.
   Definitions only.  Operator texts and the parenthesisation predicates come from gen/TermsTable.v,
   which is regenerated from the sources on every run.

   Rendering context = the keyword arguments threaded through get_sql.  Python passes a fresh dict per
   call, so every constructor below says explicitly which context its children see. *)
From PV Require Import Base Crit gen.TermsTable.

Inductive dialect := DVertica | DClickhouse | DOracle | DMssql | DMysql | DPostgres | DRedshift | DSqlite | DSnowflake.

Record ctx := {
  q    : option string;   (* quote_char (always passed explicitly by queries and by str()) *)
  sq   : option string;   (* secondary_quote_char; absent is modelled as its default, the single quote *)
  aq   : option string;   (* alias_quote_char *)
  askw : bool;            (* as_keyword *)
  dia  : option dialect;
  wa   : bool;            (* with_alias *)
  wn   : bool;            (* with_namespace *)
  subq : bool;            (* subquery *)
  subc : bool             (* subcriterion *)
}.

Definition set_wa (c : ctx) (b : bool) : ctx :=
  {| q := q c; sq := sq c; aq := aq c; askw := askw c; dia := dia c; wa := b; wn := wn c; subq := subq c; subc := subc c |}.
Definition set_subq (c : ctx) (b : bool) : ctx :=
  {| q := q c; sq := sq c; aq := aq c; askw := askw c; dia := dia c; wa := wa c; wn := wn c; subq := b; subc := subc c |}.
Definition set_subc (c : ctx) (b : bool) : ctx :=
  {| q := q c; sq := sq c; aq := aq c; askw := askw c; dia := dia c; wa := wa c; wn := wn c; subq := subq c; subc := b |}.
(* Function.get_sql re-packs only with_namespace, quote_char and dialect for its arguments, and
   get_function_sql adds with_alias=False, subquery=True; everything else falls back to its default *)
(* Function.get_sql: quote_char, dialect, with_namespace and (since 5ba0470) the alias / literal conventions
   secondary_quote_char, alias_quote_char, as_keyword reach the arguments; the positional flags do not *)
Definition fctx (c : ctx) : ctx :=
  {| q := q c; sq := sq c; aq := aq c; askw := askw c; dia := dia c; wa := false; wn := wn c; subq := true; subc := false |}.

(* a table as far as Field/Star/replace_table are concerned *)
Record tref := { tname : string; tschema : list string; talias : option string }.
Definition tref_eqb (a b : tref) : bool :=
  String.eqb (tname a) (tname b) && list_eqb String.eqb (tschema a) (tschema b)
  && option_eqb String.eqb (talias a) (talias b).
(* Table.get_table_name: alias or name *)
Definition table_name (t : tref) : string := if truthy_ostr (talias t) then ostr (talias t) else tname t.

Inductive term :=
| TField (name : string) (tbl : option tref) (alias : option string)
| TStar (tbl : option tref)
| TValS (s : string) (alias : option string)            (* ValueWrapper(str) *)
| TValI (z : Z) (alias : option string)                 (* ValueWrapper(int) *)
| TValB (b : bool) (sqlite : bool) (alias : option string)   (* ValueWrapper(bool) / SQLLiteValueWrapper(bool) *)
| TValNone (alias : option string)                      (* ValueWrapper(None) *)
| TValRaw (txt : string) (alias : option string)        (* other payloads: str(value) as produced by Python *)
| TLit (raw : string) (alias : option string)           (* LiteralValue, NullValue *)
| TParam (txt : string)                                 (* Parameter(placeholder) *)
| TNeg (t : term)
| TArith (op : aop) (l r : term) (alias : option string)
| TBasic (c : cmp) (l r : term) (alias : option string)
| TCplx (b : bop) (l r : term) (alias : option string)
| TIn (t c : term) (negated : bool) (alias : option string)
| TBetween (t lo hi : term) (alias : option string)
| TBitAnd (t : term) (v : string) (alias : option string)   (* v = str(value) *)
| TIsNull (t : term) (alias : option string)
| TNotNull (t : term) (alias : option string)
| TNot (t : term) (alias : option string)
| TAll (t : term) (alias : option string)
| TEmpty
| TCase (ws : wlist) (els : oterm) (alias : option string)
| TFunc (name : string) (args : tlist) (special : option string) (alias : option string)
| TTuple (vs : tlist) (alias : option string)
| TArray (vs : tlist) (alias : option string)
| TSub (col tbl : string) (alias : option string)       (* the sub-query Query.from_(tbl).select(col) used as a term *)
with tlist := TNil | TCons (t : term) (r : tlist)
with wlist := WNil | WCons (c v : term) (r : wlist)
with oterm := ONone | OSome (t : term).

(* getattr(side, "operator", None): ArithmeticExpression has it; Not delegates attribute access to its term *)
Fixpoint top_op (t : term) : option aop :=
  match t with TArith op _ _ _ => Some op | TNot t' _ => top_op t' | _ => None end.
Definition top_bop (t : term) : option bop := match t with TCplx b _ _ _ => Some b | _ => None end.

(* the kind of a term as an OPERAND, as far as the renderers of operators and predicates distinguish it
   (gen/TermsTable.v: operand_parens, neg_parens_arith, neg_parens_neg) *)
Definition okind_of (t : term) : okind :=
  match t with
  | TBasic _ _ _ _ => OKBasic | TCplx _ _ _ _ => OKCplx | TIn _ _ _ _ => OKIn | TBetween _ _ _ _ => OKBetween
  | TIsNull _ _ => OKNull | TNotNull _ _ => OKNotNull | TNot _ _ => OKNot | _ => OKOther
  end.
Definition starts_minus (s : string) : bool :=
  match s with String a _ => Ascii.eqb a "-"%char | EmptyString => false end.

Definition bind {A B} (x : res A) (f : A -> res B) : res B := match x with Ok a => f a | Err e => Err e end.
Notation "x <- e ;; f" := (bind e (fun x => f)) (at level 61, e at next level, right associativity).

Definition paren (b : bool) (s : string) : string := if b then "(" ++ s ++ ")" else s.
(* _operand_sql: the text of an operand in slot [sl] *)
Definition opnd (sl : oslot) (t : term) (s : string) : string := paren (operand_parens sl (okind_of t)) s.
(* ... and the context it is rendered in: a parenthesised operand no longer sees an enclosing NOT's subcriterion flag *)
Definition opc (sl : oslot) (t : term) (c : ctx) : ctx :=
  if operand_parens sl (okind_of t) && negb operand_keeps_subc then set_subc c false else c.
(* format_alias_sql with the context's alias settings; [qc] is the quote_char that reaches it *)
Definition alias_sql (c : ctx) (qc : option string) (sql : string) (alias : option string) : string :=
  fmt_alias sql alias qc (aq c) (askw c).

Definition is_pg (d : option dialect) : bool := match d with Some DPostgres | Some DRedshift => true | _ => false end.

Fixpoint render (c : ctx) (t : term) {struct t} : res string :=
  match t with
  | TField name tbl alias =>
      let base := fq (q c) name in
      let s := match tbl with
               | Some tb => if wn c || truthy_ostr (talias tb) then fq (q c) (table_name tb) ++ "." ++ base else base
               | None => base end in
      Ok (if wa c then alias_sql c (q c) s alias else s)
  | TStar tbl =>
      Ok (match tbl with
          | Some tb => if wn c || truthy_ostr (talias tb) then fq (q c) (table_name tb) ++ ".*" else "*"
          | None => "*" end)
  | TValS s alias => Ok (alias_sql c (q c) (fq (sq c) (double_quote (sq c) s)) alias)
  | TValI z alias => Ok (alias_sql c (q c) (Z_to_string z) alias)
  | TValB b sqlite alias =>
      Ok (alias_sql c (q c) (if sqlite then (if b then "1" else "0") else (if b then "true" else "false")) alias)
  | TValNone alias => Ok (alias_sql c (q c) "null" alias)
  | TValRaw txt alias => Ok (alias_sql c (q c) txt alias)
  | TLit raw alias => Ok (alias_sql c (q c) raw alias)
  | TParam txt => Ok txt
  | TNeg t' =>
      s0 <- render (opc SNeg t' (set_wa c false)) t' ;;
      let s := opnd SNeg t' s0 in
      Ok ("-" ++ paren (match t' with TArith _ _ _ _ => neg_parens_arith | TNeg _ => neg_parens_neg | _ => false end
                        || (neg_parens_minus && starts_minus s)) s)
  | TArith op l r alias =>
      let c' := set_wa c false in
      a0 <- render (opc SArithL l c') l ;; b0 <- render (opc SArithR r c') r ;;
      let a := opnd SArithL l a0 in
      let b := opnd SArithR r b0 in
      let rp := right_needs_parens op (top_op r)
                || (sub_parens_minus && (match op with OSub => true | _ => false end) && starts_minus b) in
      let s := paren (left_needs_parens op (top_op l)) a ++ aop_text op ++ paren rp b in
      Ok (if wa c then alias_sql c (q c) s alias else s)
  | TBasic cm l r alias =>
      let c' := set_wa c false in
      a0 <- render (opc SCmpL l c') l ;; b0 <- render (opc SCmpR r c') r ;;
      let s := opnd SCmpL l a0 ++ cmp_text cm ++ opnd SCmpR r b0 in
      Ok (if wa c then alias_sql c (q c) s alias else s)
  | TCplx bo l r alias =>
      let c' := set_wa c false in
      a <- render (set_subc c' (needs_brackets_x bo (top_bop l))) l ;;
      b <- render (set_subc c' (needs_brackets_x bo (top_bop r))) r ;;
      let s := paren (subc c) (a ++ " " ++ bop_text_x bo ++ " " ++ b) in
      Ok (if wa c then alias_sql c (q c) s alias else s)
  | TIn t' cont negated alias =>
      a <- render (opc SInTerm t' (set_wa (set_subq c false) false)) t' ;; b <- render (set_wa (set_subq c true) false) cont ;;
      Ok (alias_sql c (q c) (opnd SInTerm t' a ++ " " ++ (if negated then "NOT " else "") ++ "IN " ++ b) alias)
  | TBetween t' lo hi alias =>
      let c' := set_wa c false in
      a <- render (opc SBetTerm t' c') t' ;; b <- render (opc SBetLo lo c') lo ;; d <- render (opc SBetHi hi c') hi ;;
      Ok (alias_sql c (q c) (opnd SBetTerm t' a ++ " BETWEEN " ++ opnd SBetLo lo b ++ " AND " ++ opnd SBetHi hi d) alias)
  | TBitAnd t' v alias =>
      a <- render (set_wa c false) t' ;; Ok (alias_sql c (q c) ("(" ++ a ++ " & " ++ v ++ ")") alias)
  | TIsNull t' alias => a <- render (opc SIsNull t' (set_wa c false)) t' ;; Ok (alias_sql c (q c) (opnd SIsNull t' a ++ " IS NULL") alias)
  | TNotNull t' alias => a <- render (opc SNotNull t' (set_wa c false)) t' ;; Ok (alias_sql c (q c) (opnd SNotNull t' a ++ " IS NOT NULL") alias)
  | TNot t' alias => a <- render (set_wa (set_subc c true) false) t' ;; Ok (alias_sql (set_subc c true) (q c) ("NOT " ++ a) alias)
  | TAll t' alias => a <- render (set_wa c false) t' ;; Ok (alias_sql c (q c) (a ++ " ALL") alias)
  | TEmpty => Err "TypeError"
  | TCase ws els alias =>
      let c' := set_wa c false in
      match ws with
      | WNil => Err "CaseException"
      | _ =>
        cs <- render_whens c' ws ;;
        e <- match els with ONone => Ok "" | OSome t' => s <- render c' t' ;; Ok (" ELSE " ++ s) end ;;
        let s := "CASE " ++ join " " cs ++ e ++ " END" in
        Ok (if wa c then alias_sql c (q c) s alias else s)
      end
  | TFunc name args special alias =>
      ss <- render_list (fctx c) args ;;
      let s := name ++ "(" ++ join "," ss ++ (match special with Some sp => " " ++ sp | None => "" end) ++ ")" in
      Ok (if wa c then alias_sql c (q c) s alias else s)
  | TTuple vs alias => ss <- render_list (set_wa c false) vs ;; Ok (alias_sql c (q c) ("(" ++ join "," ss ++ ")") alias)
  | TArray vs alias =>
      ss <- render_list (set_wa c false) vs ;;
      let body := join "," ss in
      let s := if is_pg (dia c)
               then (match body with EmptyString => "'{}'" | _ => "ARRAY[" ++ body ++ "]" end)
               else "[" ++ body ++ "]" in
      Ok (alias_sql c (q c) s alias)
  | TSub col tbl alias =>
      let body := "SELECT " ++ fq (q c) col ++ " FROM " ++ fq (q c) tbl in
      (* a generic QueryBuilder: its own ALIAS/QUERY_ALIAS quote chars are None, so the alias is quoted by quote_char *)
      let s := paren (subq c) body in
      Ok (if wa c then fmt_alias s alias (q c) None (askw c) else s)
  end
with render_list (c : ctx) (l : tlist) {struct l} : res (list string) :=
  match l with
  | TNil => Ok []
  | TCons t r => a <- render c t ;; rest <- render_list c r ;; Ok (a :: rest)
  end
with render_whens (c : ctx) (l : wlist) {struct l} : res (list string) :=
  match l with
  | WNil => Ok []
  | WCons cr v r =>
      a <- render c cr ;; b <- render c v ;; rest <- render_whens c r ;;
      Ok (("WHEN " ++ a ++ " THEN " ++ b) :: rest)
  end.

(* the context Term.__str__ uses: quote_char is the double quote, secondary_quote_char the single quote *)
Definition str_ctx : ctx :=
  {| q := Some """"; sq := Some "'"; aq := None; askw := false; dia := None; wa := false; wn := false;
     subq := false; subc := false |}.
