(* Ident.v — model of the identity of pypika's tables, schemas/databases and named (WITH) queries
   (queries.py: AliasedQuery.__eq__/__hash__, Schema.__eq__/__ne__, Database, Table._init_schema,
   Table.__eq__/__ne__/__hash__/for_/for_portion) and of the three membership tests built on it
   (x in [..] : == only;  x in {..} / {..: ..}.get(x) : hash-equal, then ==).   Definitions only.

   The model is parametric in a configuration [cfg]: for every class, the list of attributes its
   __eq__ compares, its __ne__ compares, and its __hash__ depends on, and the list of hashable kinds.
   The configuration of the code under test is regenerated on every run (gen/C16Table.v : x_cfg);
   [cfg_before_fix] below records the lists of the tree before the repairs 45f675c / 72f33c4 (Table.__eq__ did not
   compare the temporal clauses, Schema/Database were unhashable) for documentation/witness purposes only. *)
From PV Require Import Base.

(* ------------------------------------------------------------------------------------------ *)
(* kinds and attributes                                                                        *)
(* ------------------------------------------------------------------------------------------ *)
Inductive kind := KTable | KSchema | KDatabase | KAliased.
Inductive sattr := SName | SParent | SKind.                   (* Schema: _name, _parent, class  *)
Inductive tattr := TName | TSchema | TAlias | TFor | TPortion | TQcls. (* Table: _table_name, _schema, alias, _for, _for_portion, _query_cls *)
Inductive aattr := QName | QBody.                              (* AliasedQuery: name, query      *)

Definition kind_eqb (a b : kind) : bool :=
  match a, b with KTable, KTable | KSchema, KSchema | KDatabase, KDatabase | KAliased, KAliased => true | _, _ => false end.
Definition sa_eqb (a b : sattr) : bool :=
  match a, b with SName, SName | SParent, SParent | SKind, SKind => true | _, _ => false end.
Definition ta_eqb (a b : tattr) : bool :=
  match a, b with TName, TName | TSchema, TSchema | TAlias, TAlias | TFor, TFor | TPortion, TPortion | TQcls, TQcls => true | _, _ => false end.
Definition aa_eqb (a b : aattr) : bool :=
  match a, b with QName, QName | QBody, QBody => true | _, _ => false end.

Definition kmem (x : kind) (l : list kind) : bool := existsb (kind_eqb x) l.
Definition smem (x : sattr) (l : list sattr) : bool := existsb (sa_eqb x) l.
Definition tmem (x : tattr) (l : list tattr) : bool := existsb (ta_eqb x) l.
Definition amem (x : aattr) (l : list aattr) : bool := existsb (aa_eqb x) l.

(* l1 is a sub-list (as a set) of l2 *)
Definition ssub (l1 l2 : list sattr) : bool := forallb (fun x => smem x l2) l1.
Definition tsub (l1 l2 : list tattr) : bool := forallb (fun x => tmem x l2) l1.
Definition asub (l1 l2 : list aattr) : bool := forallb (fun x => amem x l2) l1.

(* ------------------------------------------------------------------------------------------ *)
(* values                                                                                      *)
(* ------------------------------------------------------------------------------------------ *)
(* Schema(name, parent=None) / Database(name, parent=None): a non-empty chain, leaf first.
   [db] = the object is an instance of Database. *)
Inductive schema :=
| SRoot (n : string) (db : bool)
| SSub (n : string) (db : bool) (p : schema).

Definition sname (s : schema) : string := match s with SRoot n _ | SSub n _ _ => n end.
Definition sdb (s : schema) : bool := match s with SRoot _ d | SSub _ d _ => d end.
(* the schema chain as SQL sees it: the names, leaf first *)
Fixpoint chain (s : schema) : list string :=
  match s with SRoot n _ => [n] | SSub n _ p => n :: chain p end.

(* Table: the temporal clauses are opaque texts (the rendering of the criterion given to
   for_() / for_portion()); a table never carries both (the builders raise). *)
Record table := { tname : string; tschema : option schema; talias : option string;
                  tfor : option string; tportion : option string;
                  tqcls : string   (* the name of the Query class the table is bound to (query_cls=, Query.Table) *) }.

(* AliasedQuery(name, query=None): the body is an opaque text *)
Record aliased := { aname : string; abody : option string }.

Inductive ident := ITable (t : table) | ISchema (s : schema) | IAliased (a : aliased).

Definition kind_of (i : ident) : kind :=
  match i with
  | ITable _ => KTable
  | ISchema s => if sdb s then KDatabase else KSchema
  | IAliased _ => KAliased
  end.

(* ------------------------------------------------------------------------------------------ *)
(* configuration: which attributes each special method looks at                                *)
(* ------------------------------------------------------------------------------------------ *)
Record cfg := {
  c_seq : list sattr;     (* Schema.__eq__ *)
  c_sne : list sattr;     (* Schema.__ne__  (also what Table.__eq__ uses: self._schema != other._schema) *)
  c_skey : list sattr;    (* Schema.__hash__ : hash((self._name, self._parent)) *)
  c_teq : list tattr;     (* Table.__eq__ *)
  c_tne : list tattr;     (* Table.__ne__ *)
  c_tkey : list tattr;    (* Table.__hash__ *)
  c_tkey_s : list sattr;  (* ... the attributes of the table's schema that reach Table.__hash__ *)
  c_aeq : list aattr;     (* AliasedQuery.__eq__ *)
  c_ane : list aattr;     (* AliasedQuery.__ne__ (inherited: the inverse of __eq__) *)
  c_akey : list aattr;    (* AliasedQuery.__hash__ *)
  c_hashable : list kind  (* kinds on which hash() returns instead of raising TypeError *)
}.

(* pypika/queries.py before the repairs 45f675c (Table.__eq__ compares the temporal clauses) and
   72f33c4 (Schema.__hash__): kept to document what the repaired defects were *)
Definition cfg_before_fix : cfg := {|
  c_seq := [SName; SParent]; c_sne := [SName; SParent]; c_skey := [];
  c_teq := [TName; TSchema; TAlias]; c_tne := [TName; TSchema; TAlias];
  c_tkey := [TName; TSchema; TAlias; TFor; TPortion]; c_tkey_s := [SName; SParent];
  c_aeq := [QName]; c_ane := [QName]; c_akey := [QName];
  c_hashable := [KTable; KAliased] |}.

(* ------------------------------------------------------------------------------------------ *)
(* Schema.__eq__ :  isinstance(other, Schema) and self._name == other._name
                                              and self._parent == other._parent
   (None == None is True, Schema == None is False, the parents are compared by Schema.__eq__).
   A comparison of the classes (SKind) is not in the code; it is there so that the generated
   configuration can express it should the code start to compare them.                         *)
(* ------------------------------------------------------------------------------------------ *)
Definition name_ok (attrs : list sattr) (n m : string) : bool :=
  if smem SName attrs then String.eqb n m else true.
Definition kind_ok (attrs : list sattr) (k l : bool) : bool :=
  if smem SKind attrs then Bool.eqb k l else true.

Fixpoint seq_on (attrs : list sattr) (a b : schema) : bool :=
  match a, b with
  | SRoot n k, SRoot m l => name_ok attrs n m && kind_ok attrs k l
  | SSub n k p, SSub m l q =>
      name_ok attrs n m && kind_ok attrs k l && (if smem SParent attrs then seq_on attrs p q else true)
  | SRoot n k, SSub m l _ | SSub n k _, SRoot m l =>
      name_ok attrs n m && kind_ok attrs k l && negb (smem SParent attrs)
  end.
(* Schema.__ne__ : not self.__eq__(other) *)
Definition sne_on (attrs : list sattr) (a b : schema) : bool := negb (seq_on attrs a b).

(* ------------------------------------------------------------------------------------------ *)
(* Table.__eq__ : isinstance(other, Table), then _table_name != , _schema != , alias != ,
   _temporal_sql() != (the renderings of _for and _for_portion)                                *)
(* ------------------------------------------------------------------------------------------ *)
Definition ostr_eqb (a b : option string) : bool := option_eqb String.eqb a b.

Definition tattr_eqb (sa : list sattr) (x : tattr) (a b : table) : bool :=
  match x with
  | TName => String.eqb (tname a) (tname b)
  | TSchema => match tschema a, tschema b with
               | None, None => true
               | Some p, Some q => negb (sne_on sa p q)       (* not (p != q) *)
               | _, _ => false                               (* None != schema, schema != None *)
               end
  | TAlias => ostr_eqb (talias a) (talias b)
  | TFor => ostr_eqb (tfor a) (tfor b)
  | TPortion => ostr_eqb (tportion a) (tportion b)
  | TQcls => String.eqb (tqcls a) (tqcls b)
  end.

Definition teq_on (sa : list sattr) (ta : list tattr) (a b : table) : bool :=
  forallb (fun x => tattr_eqb sa x a b) ta.
Definition tne_on (sa : list sattr) (ta : list tattr) (a b : table) : bool := negb (teq_on sa ta a b).

(* AliasedQuery.__eq__ : isinstance(other, AliasedQuery) and self.name == other.name *)
Definition aattr_eqb (x : aattr) (a b : aliased) : bool :=
  match x with
  | QName => String.eqb (aname a) (aname b)
  | QBody => ostr_eqb (abody a) (abody b)
  end.
Definition aeq_on (aa : list aattr) (a b : aliased) : bool := forallb (fun x => aattr_eqb x a b) aa.
Definition ane_on (aa : list aattr) (a b : aliased) : bool := negb (aeq_on aa a b).

(* == and != between any two of the objects; different classes: every __eq__ answers False
   (isinstance test), every __ne__ True.  Schema and Database are one class family. *)
Definition ieq (c : cfg) (a b : ident) : bool :=
  match a, b with
  | ITable s, ITable t => teq_on (c_sne c) (c_teq c) s t
  | ISchema s, ISchema t => seq_on (c_seq c) s t
  | IAliased s, IAliased t => aeq_on (c_aeq c) s t
  | _, _ => false
  end.
Definition ine (c : cfg) (a b : ident) : bool :=
  match a, b with
  | ITable s, ITable t => tne_on (c_sne c) (c_tne c) s t
  | ISchema s, ISchema t => sne_on (c_sne c) s t
  | IAliased s, IAliased t => ane_on (c_ane c) s t
  | _, _ => true
  end.

(* ------------------------------------------------------------------------------------------ *)
(* what a hash may depend on: the projection of the object on a list of attributes             *)
(* ------------------------------------------------------------------------------------------ *)
Definition level := (option string * option bool)%type.
Definition here (attrs : list sattr) (n : string) (k : bool) : level :=
  (if smem SName attrs then Some n else None, if smem SKind attrs then Some k else None).
Fixpoint sproj (attrs : list sattr) (s : schema) : list level :=
  match s with
  | SRoot n k => [here attrs n k]
  | SSub n k p => here attrs n k :: (if smem SParent attrs then sproj attrs p else [])
  end.

Inductive val := VStr (s : string) | VOpt (o : option string) | VSch (o : option (list level)).

Definition tval (sa : list sattr) (x : tattr) (t : table) : val :=
  match x with
  | TName => VStr (tname t)
  | TSchema => VSch (option_map (sproj sa) (tschema t))
  | TAlias => VOpt (talias t)
  | TFor => VOpt (tfor t)
  | TPortion => VOpt (tportion t)
  | TQcls => VStr (tqcls t)
  end.
Definition aval (x : aattr) (a : aliased) : val :=
  match x with QName => VStr (aname a) | QBody => VOpt (abody a) end.

Definition key := (nat * list val)%type.
(* projection of an object: class family tag + attribute values *)
Definition iproj (sa : list sattr) (ta : list tattr) (ss : list sattr) (aa : list aattr) (i : ident) : key :=
  match i with
  | ITable t => (0, map (fun x => tval sa x t) ta)
  | IAliased a => (1, map (fun x => aval x a) aa)
  | ISchema s => (2, [VSch (Some (sproj ss s))])
  end.

(* the hash key: everything __hash__ can see of the object
   (Table.__hash__ = hash(str(self)), the rendering with a double quote as quote_char, which shows name, schema
   chain, temporal clause and alias; AliasedQuery.__hash__ = hash(str(self.name))) *)
Definition ikey (c : cfg) (i : ident) : key := iproj (c_tkey_s c) (c_tkey c) (c_skey c) (c_akey c) i.
(* the same projection on the attributes compared by == *)
Definition ieqkey (c : cfg) (i : ident) : key := iproj (c_sne c) (c_teq c) (c_seq c) (c_aeq c) i.

Definition hashable (c : cfg) (i : ident) : bool := kmem (kind_of i) (c_hashable c).

(* decidable equality of keys (used by the correspondence check: equal keys must hash equal) *)
Definition level_eqb (a b : level) : bool := ostr_eqb (fst a) (fst b) && option_eqb Bool.eqb (snd a) (snd b).
Definition val_eqb (a b : val) : bool :=
  match a, b with
  | VStr x, VStr y => String.eqb x y
  | VOpt x, VOpt y => ostr_eqb x y
  | VSch x, VSch y => option_eqb (list_eqb level_eqb) x y
  | _, _ => false
  end.
Definition key_eqb (a b : key) : bool := Nat.eqb (fst a) (fst b) && list_eqb val_eqb (snd a) (snd b).

(* ------------------------------------------------------------------------------------------ *)
(* membership.  CPython: list.__contains__ = any(item is x or item == x);
   set/dict lookup = some stored item with the same hash and (item is x or item == x);
   building {..} or looking x up in it hashes the objects: TypeError for an unhashable one.   *)
(* ------------------------------------------------------------------------------------------ *)
Definition in_list_gen {A} (eq : A -> A -> bool) (a : A) (l : list A) : bool := existsb (fun b => eq b a) l.
Definition in_set_gen {A} (hashable : A -> bool) (heq eq : A -> A -> bool) (a : A) (l : list A) : res bool :=
  if forallb hashable (a :: l) then Ok (existsb (fun b => heq b a && eq b a) l) else Err "TypeError".

Definition in_list (c : cfg) (a : ident) (l : list ident) : bool := in_list_gen (ieq c) a l.

Section Hash.
  (* Python's hash on the key is an arbitrary function: nothing but "equal keys hash equal" is used *)
  Variable H : key -> Z.
  Definition ihash (c : cfg) (i : ident) : res Z := if hashable c i then Ok (H (ikey c i)) else Err "TypeError".
  Definition hash_eq (c : cfg) (b a : ident) : bool := Z.eqb (H (ikey c b)) (H (ikey c a)).
  Definition in_set (c : cfg) (a : ident) (l : list ident) : res bool :=
    in_set_gen (hashable c) (hash_eq c) (ieq c) a l.
  (* {b: .. for b in l}.get(a) is not None *)
  Definition in_dict (c : cfg) (a : ident) (l : list ident) : res bool := in_set c a l.
End Hash.

(* ------------------------------------------------------------------------------------------ *)
(* "objects that differ in name, schema chain, alias or temporal clause"                       *)
(* ------------------------------------------------------------------------------------------ *)
Definition ochain (o : option schema) : option (list string) := option_map chain o.

Definition differ_core (a b : ident) : Prop :=
  match a, b with
  | ITable s, ITable t => tname s <> tname t \/ ochain (tschema s) <> ochain (tschema t) \/ talias s <> talias t
  | ISchema s, ISchema t => chain s <> chain t
  | IAliased s, IAliased t => aname s <> aname t
  | _, _ => False          (* objects of different classes: not what the property's sentence is about *)
  end.
Definition differ_temporal (a b : ident) : Prop :=
  match a, b with
  | ITable s, ITable t => tfor s <> tfor t \/ tportion s <> tportion t
  | _, _ => False
  end.
Definition no_temporal (i : ident) : bool :=
  match i with ITable t => negb (is_some (tfor t)) && negb (is_some (tportion t)) | _ => true end.
Definition not_schema (i : ident) : bool := match i with ISchema _ => false | _ => true end.

(* boolean conditions on a configuration under which the laws are provable *)
Definition set_eq_s (a b : list sattr) := ssub a b && ssub b a.
Definition set_eq_t (a b : list tattr) := tsub a b && tsub b a.
Definition set_eq_a (a b : list aattr) := asub a b && asub b a.
Definition ne_coherent (c : cfg) : bool :=
  set_eq_s (c_sne c) (c_seq c) && set_eq_t (c_tne c) (c_teq c) && set_eq_a (c_ane c) (c_aeq c).
Definition key_coherent (c : cfg) : bool :=
  tsub (c_tkey c) (c_teq c) && (negb (tmem TSchema (c_tkey c)) || ssub (c_tkey_s c) (c_sne c))
  && ssub (c_skey c) (c_seq c) && asub (c_akey c) (c_aeq c).
(* the same, not counting the temporal attributes of tables *)
Definition is_temporal (x : tattr) : bool := match x with TFor | TPortion => true | _ => false end.
Definition key_coherent_nt (c : cfg) : bool :=
  tsub (filter (fun x => negb (is_temporal x)) (c_tkey c)) (c_teq c)
  && (negb (tmem TSchema (c_tkey c)) || ssub (c_tkey_s c) (c_sne c))
  && ssub (c_skey c) (c_seq c) && asub (c_akey c) (c_aeq c).
Definition dist_core (c : cfg) : bool :=
  tmem TName (c_teq c) && tmem TSchema (c_teq c) && tmem TAlias (c_teq c)
  && smem SName (c_sne c) && smem SParent (c_sne c)
  && smem SName (c_seq c) && smem SParent (c_seq c) && amem QName (c_aeq c).
Definition dist_temporal (c : cfg) : bool := tmem TFor (c_teq c) && tmem TPortion (c_teq c).
Definition all_hashable (c : cfg) : bool := forallb (fun k => kmem k (c_hashable c)) [KTable; KSchema; KDatabase; KAliased].

(* ------------------------------------------------------------------------------------------ *)
(* construction routes                                                                         *)
(* ------------------------------------------------------------------------------------------ *)
(* schema-building expressions: Schema(n) / Database(n), Schema(n, parent=p) / Database(n, parent=p),
   and attribute access p.n on a Database ( Database.__getattr__ : Schema(item, parent=self) ) *)
Inductive sprog :=
| PNew (db : bool) (n : string)
| PSub (db : bool) (n : string) (parent : sprog)
| PAttr (p : sprog) (n : string)
| PObs (p : sprog).          (* the object is observed (hash(), ==, str(), set membership) before being used further:
                               observations do not change what the object is *)

Fixpoint ev_sprog (p : sprog) : res schema :=
  match p with
  | PNew db n => Ok (SRoot n db)
  | PSub db n q => match ev_sprog q with Ok s => Ok (SSub n db s) | Err e => Err e end
  | PAttr q n => match ev_sprog q with
                 | Ok s => if sdb s then Ok (SSub n false s) else Err "NotADatabase"  (* Schema.n is a Table; not generated *)
                 | Err e => Err e
                 end
  | PObs q => ev_sprog q
  end.

(* the schema argument of Table(name, schema=...) / attribute access on a Schema *)
Inductive sroute :=
| RNone                      (* Table(n) *)
| RStr (s : string)          (* Table(n, schema='s')              -> Schema(s) *)
| RSeq (l : list string)     (* Table(n, schema=('a','b',..)) / [..] -> reduce(lambda obj, s: Schema(s, parent=obj), l[1:], Schema(l[0])) *)
| RObj (p : sprog)           (* Table(n, schema=<Schema object>) *)
| RAttr (p : sprog).         (* <Schema object>.n                 -> Table(n, schema=self) *)

Definition chain_from (root : schema) (rest : list string) : schema :=
  fold_left (fun obj s => SSub s false obj) rest root.

Definition ev_route (r : sroute) : res (option schema) :=
  match r with
  | RNone => Ok None
  | RStr s => Ok (Some (SRoot s false))
  | RSeq [] => Err "IndexError"                                   (* schema[0] on an empty tuple/list *)
  | RSeq (n0 :: rest) => Ok (Some (chain_from (SRoot n0 false) rest))
  | RObj p => match ev_sprog p with Ok s => Ok (Some s) | Err e => Err e end
  | RAttr p => match ev_sprog p with
               | Ok s => if sdb s then Err "NotATable" else Ok (Some s)           (* Database.n is a Schema; not generated *)
               | Err e => Err e
               end
  end.

(* builder calls on a table (each returns a copy) *)
Inductive top := OpAs (a : string) | OpFor (txt : string) | OpPortion (txt : string)
               | OpObs.   (* hash(t), t == t, str(t), t in {t} on the intermediate object; then the derivation goes on *)

Definition apply_op (r : res table) (o : top) : res table :=
  match r with
  | Err e => Err e
  | Ok t =>
    match o with
    | OpObs => Ok t
    | OpAs a => Ok {| tname := tname t; tschema := tschema t; talias := Some a; tfor := tfor t; tportion := tportion t; tqcls := tqcls t |}
    | OpFor x => if is_some (tfor t) || is_some (tportion t) then Err "AttributeError"
                 else Ok {| tname := tname t; tschema := tschema t; talias := talias t; tfor := Some x; tportion := None; tqcls := tqcls t |}
    | OpPortion x => if is_some (tfor t) || is_some (tportion t) then Err "AttributeError"
                 else Ok {| tname := tname t; tschema := tschema t; talias := talias t; tfor := None; tportion := Some x; tqcls := tqcls t |}
    end
  end.

Record tprog := { p_name : string; p_route : sroute; p_alias : option string; p_qcls : string; p_ops : list top }.

Definition ev_tprog (p : tprog) : res table :=
  match ev_route (p_route p) with
  | Err e => Err e
  | Ok s => fold_left apply_op (p_ops p)
              (Ok {| tname := p_name p; tschema := s; talias := p_alias p; tfor := None; tportion := None; tqcls := p_qcls p |})
  end.

Inductive iprog := ProgT (p : tprog) | ProgS (p : sprog) | ProgA (n : string) (body : option string).

Definition ev_iprog (p : iprog) : res ident :=
  match p with
  | ProgT t => match ev_tprog t with Ok x => Ok (ITable x) | Err e => Err e end
  | ProgS s => match ev_sprog s with Ok x => Ok (ISchema x) | Err e => Err e end
  | ProgA n b => Ok (IAliased {| aname := n; abody := b |})
  end.

(* nested constructor calls / attribute accesses that build the same chain as the tuple route *)
Fixpoint prog_chain (root : sprog) (rest : list string) : sprog :=
  match rest with [] => root | s :: r => prog_chain (PSub false s root) r end.
