(* Guards.v — model of pypika's documented rejections (property C14).  Definitions only.

   For each guarded call the state is exactly what the guard reads; [step_*] mirrors the method bodies
   literally (order of the checks relative to the assignments, Python truthiness, [is not None],
   or-chains); a raise is [Err "<ExceptionClassName>"].  The specification tables [guards_*] are written
   from the docstrings / messages / property text and do not mention [step_*].

   Anchors: pypika/queries.py (Table.for_/for_portion, _SetOperation.get_sql, QueryBuilder.into/select/
   delete/update/columns/insert/rollup/do_join, Joiner.on/on_field/using, JoinOn.validate,
   CreateQueryBuilder.*, DropQueryBuilder._set_target), pypika/dialects.py (MySQL on_duplicate_key_*,
   PostgreSQL on_conflict/do_nothing/do_update/where/returning/_on_conflict_sql, MSSQL top, Vertica
   local/preserve_rows, ClickHouse on_cluster/drop_dictionary/drop_quota), pypika/terms.py (Case.get_sql,
   CustomFunction.__call__, WindowFrameAnalyticFunction._set_frame_and_bounds), pypika/utils.py
   (resolve_is_aggregate). *)
From PV Require Import Base.
Local Open Scope list_scope.

Definition JoinExc := "JoinException".
Definition QueryExc := "QueryException".
Definition AttrErr := "AttributeError".
Definition RollupExc := "RollupException".
Definition SetOpExc := "SetOperationException".
Definition CaseExc := "CaseException".
Definition FunctionExc := "FunctionException".
Definition TypeErr := "TypeError".
Definition IndexErr := "IndexError".

(* Python truthiness of len(list) / of a list *)
Definition truthy (n : nat) : bool := negb (Nat.eqb n 0).
Definition is_none {A} (o : option A) : bool := match o with None => true | Some _ => false end.

(* ------------------------------------------------------------------------------------------ *)
(* tables as the guards compare them                                                          *)
(* ------------------------------------------------------------------------------------------ *)
Definition ostr_eqb : option string -> option string -> bool := option_eqb String.eqb.

(* a plain Table: Table.__eq__ compares name, schema and alias; __hash__ = hash(str(table)) is a
   function of the same three (no for_/for_portion in the modelled fragment), so set membership = __eq__ *)
Record ptab := mkPT { pt_name : string; pt_schema : option string; pt_alias : option string }.
Definition ptab_eqb (a b : ptab) : bool :=
  String.eqb (pt_name a) (pt_name b) && ostr_eqb (pt_schema a) (pt_schema b) && ostr_eqb (pt_alias a) (pt_alias b).

(* anything that can stand in FROM / JOIN / a field's table: Table, AliasedQuery (eq by name),
   sub-query.  A sub-query is described by its alias (None: not named yet), the table it selects from and a number
   that tells apart different sub-queries over the same table.  QueryBuilder.__eq__ compares the alias only,
   QueryBuilder.__hash__ = hash(alias) + sum of the hashes of its FROM tables: in a *set* two sub-queries count as the
   same element when alias and FROM table agree (whatever else differs).
   Objects of different kinds are never equal (each __eq__ starts with isinstance). *)
Inductive tbl := TTab (p : ptab) | TAlq (name : string) | TSub (alias : option string) (src : string) (uid : nat).
(* membership in a Python set (hash, then ==) *)
Definition tbl_eqb (a b : tbl) : bool :=
  match a, b with
  | TTab p, TTab q => ptab_eqb p q
  | TAlq n, TAlq m => String.eqb n m
  | TSub n s _, TSub m t _ => ostr_eqb n m && String.eqb s t
  | _, _ => false
  end.
(* the same source (what the documentation means by "the joined item / a table of the statement") *)
Definition tbl_ident (a b : tbl) : bool :=
  match a, b with
  | TSub n s u, TSub m t v => ostr_eqb n m && String.eqb s t && Nat.eqb u v
  | _, _ => tbl_eqb a b
  end.
Definition is_ttab (t : tbl) : bool := match t with TTab _ => true | _ => false end.

(* Field.table : a table or None *)
Definition tref := option tbl.
Definition tref_eqb : tref -> tref -> bool := option_eqb tbl_eqb.
Definition mem (x : tref) (l : list tref) : bool := existsb (tref_eqb x) l.
Definition optab_eqb : option ptab -> option ptab -> bool := option_eqb ptab_eqb.

(* ------------------------------------------------------------------------------------------ *)
(* utils.resolve_is_aggregate (utils.py:90-103), literally                                     *)
(* ------------------------------------------------------------------------------------------ *)
Fixpoint not_none (l : list (option bool)) : list bool :=
  match l with [] => [] | Some b :: r => b :: not_none r | None :: r => not_none r end.
Definition resolve_is_aggregate (values : list (option bool)) : option bool :=
  match not_none values with
  | [] => None
  | result => Some (forallb (fun b => b) result)
  end.

(* ========================================================================================== *)
(* 1. QueryBuilder and its dialect subclasses                                                  *)
(* ========================================================================================== *)
Inductive qcls := QGeneric | QMySQL | QPostgres | QMSSQL.

(* a stored join: its item and, for JoinOn, criterion.tables_ (the Table instances of its fields);
   JoinUsing / Join have no .criterion attribute *)
Record jrec := mkJ { j_item : tbl; j_crit : option (list ptab); j_alq : list tbl }.
(* j_alq: the AliasedQuery objects among the tables of the criterion's fields (JoinOn.validate_with) *)

Record qst := mkQ {
  q_cls : qcls;
  q_from : list tbl;               (* _from *)
  q_insert : option ptab;          (* _insert_table *)
  q_update : option ptab;          (* _update_table *)
  q_delete : bool;                 (* _delete_from *)
  q_with : list tbl;               (* _with (AliasedQuery objects) *)
  q_selects : nat;                 (* len(_selects) *)
  q_star : bool;                   (* _select_star *)
  q_groupbys : bool;               (* bool(_groupbys) *)
  q_mysql_rollup : bool;           (* _mysql_rollup *)
  q_joins : list jrec;             (* _joins *)
  q_values : bool;                 (* bool(_values) *)
  q_updates : bool;                (* bool(_updates) *)
  q_subcount : nat;                (* _subquery_count *)
  my_dups : nat;                   (* MySQL len(_duplicate_updates) *)
  my_ignore : bool;                (* MySQL _ignore_duplicates *)
  pg_conflict : bool;              (* PostgreSQL _on_conflict *)
  pg_fields : nat;                 (* len(_on_conflict_fields) *)
  pg_nothing : bool;               (* _on_conflict_do_nothing *)
  pg_updates : nat;                (* len(_on_conflict_do_updates) *)
  pg_rstar : bool                  (* _return_star *)
}.

Definition q_init (c : qcls) : qst :=
  mkQ c [] None None false [] 0 false false false [] false false 0 0 false false 0 false 0 false.

Definition set_from s v := mkQ (q_cls s) v (q_insert s) (q_update s) (q_delete s) (q_with s) (q_selects s) (q_star s) (q_groupbys s) (q_mysql_rollup s) (q_joins s) (q_values s) (q_updates s) (q_subcount s) (my_dups s) (my_ignore s) (pg_conflict s) (pg_fields s) (pg_nothing s) (pg_updates s) (pg_rstar s).
Definition set_insert s v := mkQ (q_cls s) (q_from s) v (q_update s) (q_delete s) (q_with s) (q_selects s) (q_star s) (q_groupbys s) (q_mysql_rollup s) (q_joins s) (q_values s) (q_updates s) (q_subcount s) (my_dups s) (my_ignore s) (pg_conflict s) (pg_fields s) (pg_nothing s) (pg_updates s) (pg_rstar s).
Definition set_update s v := mkQ (q_cls s) (q_from s) (q_insert s) v (q_delete s) (q_with s) (q_selects s) (q_star s) (q_groupbys s) (q_mysql_rollup s) (q_joins s) (q_values s) (q_updates s) (q_subcount s) (my_dups s) (my_ignore s) (pg_conflict s) (pg_fields s) (pg_nothing s) (pg_updates s) (pg_rstar s).
Definition set_delete s v := mkQ (q_cls s) (q_from s) (q_insert s) (q_update s) v (q_with s) (q_selects s) (q_star s) (q_groupbys s) (q_mysql_rollup s) (q_joins s) (q_values s) (q_updates s) (q_subcount s) (my_dups s) (my_ignore s) (pg_conflict s) (pg_fields s) (pg_nothing s) (pg_updates s) (pg_rstar s).
Definition set_with s v := mkQ (q_cls s) (q_from s) (q_insert s) (q_update s) (q_delete s) v (q_selects s) (q_star s) (q_groupbys s) (q_mysql_rollup s) (q_joins s) (q_values s) (q_updates s) (q_subcount s) (my_dups s) (my_ignore s) (pg_conflict s) (pg_fields s) (pg_nothing s) (pg_updates s) (pg_rstar s).
Definition set_selects s v st := mkQ (q_cls s) (q_from s) (q_insert s) (q_update s) (q_delete s) (q_with s) v st (q_groupbys s) (q_mysql_rollup s) (q_joins s) (q_values s) (q_updates s) (q_subcount s) (my_dups s) (my_ignore s) (pg_conflict s) (pg_fields s) (pg_nothing s) (pg_updates s) (pg_rstar s).
Definition set_groupbys s v r := mkQ (q_cls s) (q_from s) (q_insert s) (q_update s) (q_delete s) (q_with s) (q_selects s) (q_star s) v r (q_joins s) (q_values s) (q_updates s) (q_subcount s) (my_dups s) (my_ignore s) (pg_conflict s) (pg_fields s) (pg_nothing s) (pg_updates s) (pg_rstar s).
Definition set_joins s v := mkQ (q_cls s) (q_from s) (q_insert s) (q_update s) (q_delete s) (q_with s) (q_selects s) (q_star s) (q_groupbys s) (q_mysql_rollup s) v (q_values s) (q_updates s) (q_subcount s) (my_dups s) (my_ignore s) (pg_conflict s) (pg_fields s) (pg_nothing s) (pg_updates s) (pg_rstar s).
Definition set_values s v := mkQ (q_cls s) (q_from s) (q_insert s) (q_update s) (q_delete s) (q_with s) (q_selects s) (q_star s) (q_groupbys s) (q_mysql_rollup s) (q_joins s) v (q_updates s) (q_subcount s) (my_dups s) (my_ignore s) (pg_conflict s) (pg_fields s) (pg_nothing s) (pg_updates s) (pg_rstar s).
Definition set_updates s v := mkQ (q_cls s) (q_from s) (q_insert s) (q_update s) (q_delete s) (q_with s) (q_selects s) (q_star s) (q_groupbys s) (q_mysql_rollup s) (q_joins s) (q_values s) v (q_subcount s) (my_dups s) (my_ignore s) (pg_conflict s) (pg_fields s) (pg_nothing s) (pg_updates s) (pg_rstar s).
Definition set_subcount s v := mkQ (q_cls s) (q_from s) (q_insert s) (q_update s) (q_delete s) (q_with s) (q_selects s) (q_star s) (q_groupbys s) (q_mysql_rollup s) (q_joins s) (q_values s) (q_updates s) v (my_dups s) (my_ignore s) (pg_conflict s) (pg_fields s) (pg_nothing s) (pg_updates s) (pg_rstar s).
Definition set_my s d i := mkQ (q_cls s) (q_from s) (q_insert s) (q_update s) (q_delete s) (q_with s) (q_selects s) (q_star s) (q_groupbys s) (q_mysql_rollup s) (q_joins s) (q_values s) (q_updates s) (q_subcount s) d i (pg_conflict s) (pg_fields s) (pg_nothing s) (pg_updates s) (pg_rstar s).
Definition set_pg s c f n u r := mkQ (q_cls s) (q_from s) (q_insert s) (q_update s) (q_delete s) (q_with s) (q_selects s) (q_star s) (q_groupbys s) (q_mysql_rollup s) (q_joins s) (q_values s) (q_updates s) (q_subcount s) (my_dups s) (my_ignore s) c f n u r.

(* ---- call arguments, reduced to what the guards look at ---- *)
Inductive selterm :=
| SStr (star : bool)        (* select('name') / select('*') *)
| SField                    (* select(Field(...)) (not a Star) *)
| SOther.                   (* function, arithmetic expression, constant *)

Inductive fkind := FPlain | FAgg | FAnalytic.   (* Function / AggregateFunction / AnalyticFunction *)
Inductive rterm :=
| RStr (star : bool)                  (* 'name' / '*'  (inside a function: a string constant) *)
| RField (t : option ptab) (name : string)   (* Field(name, table=t) *)
| RConst                              (* anything wrap_constant turns into a ValueWrapper *)
| RFn (k : fkind) (args : list rterm)
| RArith (l r : rterm).

(* MSSQL top(value): the classes of values int() distinguishes *)
Inductive topval :=
| TVInt (z : Z) | TVStrInt (z : Z) | TVStrBad | TVFloat (z : Z) (* non-integral float truncating to z *)
| TVNone | TVBool (b : bool).
Inductive ufield := UStr | UField | UOther.

(* a field as the guards see it: its table (or None) and its name *)
Definition jfield := (tref * string)%type.
(* a join criterion, by the operand structure of the term classes.  JoinOn.validate / validate_with see it only through
   Term.find_ = nodes_; since d11365b nodes_ descends into every operand that holds a term of the statement (gen/C14Table.v
   nodes_coverage, expected_nodes_gaps below): also -x, x AT TIME ZONE, FILTER(WHERE ..), OVER(PARTITION BY .. ORDER BY ..) *)
Inductive jterm :=
| JF (f : jfield)                                  (* Field *)
| JConst                                           (* ValueWrapper / anything without fields *)
| JBin (l r : jterm)                               (* BasicCriterion, ComplexCriterion, ArithmeticExpression, BitwiseAndCriterion *)
| JTri (t lo hi : jterm)                           (* RangeCriterion (BETWEEN, field[lo:hi], PERIOD), NestedCriterion *)
| JIn (t : jterm) (items : list jterm)             (* ContainsCriterion over a Tuple *)
| JUn (t : jterm)                                  (* NullCriterion, NotNullCriterion, Not, All, Negative, AtTimezone *)
| JFn (args : list jterm)                          (* Function: arguments, FILTER criteria, PARTITION BY / ORDER BY terms *)
| JCase (whens : list (jterm * jterm)) (els : option jterm).

Fixpoint jvis (c : jterm) : list jfield :=          (* find_(Field): every field of the criterion, in every operand *)
  match c with
  | JF f => [f]
  | JConst => []
  | JBin l r => jvis l ++ jvis r
  | JTri t lo hi => jvis t ++ jvis lo ++ jvis hi
  | JIn t items => jvis t ++ flat_map jvis items
  | JUn t => jvis t
  | JFn args => flat_map jvis args
  | JCase whens els =>
      (fix go (l : list (jterm * jterm)) := match l with [] => [] | (w, t) :: r => jvis w ++ jvis t ++ go r end) whens
      ++ match els with Some e => jvis e | None => [] end
  end.
Fixpoint jmap (g : tref -> tref) (c : jterm) : jterm :=
  match c with
  | JF f => JF (g (fst f), snd f)
  | JConst => JConst
  | JBin l r => JBin (jmap g l) (jmap g r)
  | JTri t lo hi => JTri (jmap g t) (jmap g lo) (jmap g hi)
  | JIn t items => JIn (jmap g t) (map (jmap g) items)
  | JUn t => JUn (jmap g t)
  | JFn args => JFn (map (jmap g) args)
  | JCase whens els =>
      JCase ((fix go (l : list (jterm * jterm)) := match l with [] => [] | (w, t) :: r => (jmap g w, jmap g t) :: go r end) whens)
            (match els with Some e => Some (jmap g e) | None => None end)
  end.
(* (l1 == r1) & (l2 == r2) & ... *)
Fixpoint crit_of_pairs (l : list (jfield * jfield)) : jterm :=
  match l with
  | [] => JConst
  | [p] => JBin (JF (fst p)) (JF (snd p))
  | p :: r => JBin (JBin (JF (fst p)) (JF (snd p))) (crit_of_pairs r)
  end.

Inductive joinhow :=
| JOn (crit : option jterm)         (* .on(criterion): None, or a criterion *)
| JOnField (n : nat)                (* .on_field( n names ) *)
| JUsing (n : nat)                  (* .using( n names ) *)
| JCross.                           (* .cross() *)

Inductive qcall :=
| QFrom (t : tbl) | QWith (name : string) | QInto (t : ptab) | QUpdate (t : ptab) | QDelete
| QSelect (ts : list selterm) | QColumns | QInsert (n : nat) | QSet
| QGroupby (n : nat) | QRollup (mysql : bool) (n : nat)
| QJoin (item : tbl) (h : joinhow)
| QOnDupUpdate | QOnDupIgnore                                                   (* MySQL *)
| QOnConflict (n : nat) | QDoNothing | QDoUpdate (f : ufield) | QWhere (empty : bool)
| QReturning (ts : list rterm)                                                  (* PostgreSQL *)
| QTop (v : topval) (percent : bool)                                            (* MSSQL *)
| QRender.                                                                      (* str(q) *)

(* methods that exist only on one dialect's builder *)
Definition applicable (c : qcls) (call : qcall) : bool :=
  match call with
  | QOnDupUpdate | QOnDupIgnore => match c with QMySQL => true | _ => false end
  | QOnConflict _ | QDoNothing | QDoUpdate _ | QReturning _ => match c with QPostgres => true | _ => false end
  | QTop _ _ => match c with QMSSQL => true | _ => false end
  | _ => true
  end.

(* ---- select ---- *)
(* _select_field: nothing is added after a '*'; (_select_star_tables stays empty: no Table.star here) *)
Definition sel_field (s : qst) : qst :=
  if q_star s then s else set_selects s (S (q_selects s)) (q_star s).
Definition sel1 (s : qst) (t : selterm) : res qst :=
  match t with
  | SStr star =>
      (* _select_field_str: if 0 == len(self._from): raise QueryException *)
      match q_from s with
      | [] => Err QueryExc
      | _ => if star then Ok (set_selects s 1 true) else Ok (sel_field s)
      end
  | SField => Ok (sel_field s)
  | SOther => Ok (set_selects s (S (q_selects s)) (q_star s))
  end.
Fixpoint fold_res {S T} (f : S -> T -> res S) (s : S) (l : list T) : res S :=
  match l with
  | [] => Ok s
  | t :: r => match f s t with Ok s' => fold_res f s' r | Err e => Err e end
  end.

Fixpoint somes {A} (l : list (option A)) : list A :=
  match l with [] => [] | Some a :: r => a :: somes r | None :: r => somes r end.

(* ---- joins ---- *)
Definition base_tables (s : qst) : list tref :=
  map Some (q_from s) ++ [option_map TTab (q_update s)] ++ map Some (q_with s).

Definition table_name (t : tbl) : string :=
  match t with TTab p => match pt_alias p with Some a => a | None => pt_name p end | TAlq n => n | TSub a _ _ => ostr a end.
Definition crit_all_tables (crit : jterm) : list tref := map fst (jvis crit).

Definition is_alq_ref (t : tref) : bool := match t with Some (TAlq _) => true | _ => false end.
Fixpoint alqs_of (l : list tref) : list tbl :=
  match l with [] => [] | Some (TAlq n) :: r => TAlq n :: alqs_of r | _ :: r => alqs_of r end.

(* JoinOn.validate (after a7c7bb0):  criterion_tables = {f.table for f in criterion.find_(Field)}  -- every field;
   missing = criterion_tables - (set(_from) | {join.item for join in _joins} | {self.item}) - {None}; non-empty => raise *)
Definition validate_on (s : qst) (item : tbl) (crit : list tref) : bool :=
  let available := base_tables s ++ map (fun j => Some (j_item j)) (q_joins s) ++ [Some item] in
  (* ... and (160d589) AliasedQuery references are left to validate_with() at render time *)
  match filter (fun t => negb (mem t available) && negb (tref_eqb t None) && negb (is_alq_ref t)) crit with
  | [] => true
  | _ => false
  end.

Fixpoint ptabs_of (l : list tref) : list ptab :=
  match l with [] => [] | Some (TTab p) :: r => p :: ptabs_of r | _ :: r => ptabs_of r end.

(* QueryBuilder.do_join after a successful validate (10401de): a Table item without alias that is already among the
   base tables is given the first name "<name><n>", n = 2, 3, ..., that no source of the statement carries; then
   _joins.append.  taken = alias-or-name of every FROM table, the UPDATE target and every join item. *)
Fixpoint first_free (name : string) (taken : list string) (n fuel : nat) : nat :=
  match fuel with
  | O => n
  | S f => if existsb (String.eqb (name ++ nat_to_string n)%string) taken then first_free name taken (S n) f else n
  end.
(* [crit it]: the tables of the criterion's fields once the item carries its final name [it] -- on_field builds its
   criterion from the item object itself, so criterion.tables_ later shows the numbered alias written here *)
Definition do_join (s : qst) (item : tbl) (crit : tbl -> option (list tref)) : qst :=
  let base := base_tables s in
  let table_in_query :=
      existsb (fun clause => match clause with Some (TTab _) => mem (Some item) base | _ => false end) base in
  (* 2def80d: the WITH queries are left out of the names in use (with_() may come before or after the join) *)
  let taken := map table_name (q_from s ++ somes [option_map TTab (q_update s)] ++ map j_item (q_joins s)) in
  let item' :=
      match item with
      | TTab p => if is_none (pt_alias p) && table_in_query
                  then TTab (mkPT (pt_name p) (pt_schema p)
                                  (Some (pt_name p ++ nat_to_string (first_free (pt_name p) taken 2 (S (List.length taken))))%string))
                  else item
      | _ => item
      end in
  set_joins s (q_joins s ++ [mkJ item' (option_map ptabs_of (crit item')) (alqs_of (odefault [] (crit item')))]).

(* a sub-query that has no alias yet is named "sq<_subquery_count>" by from_() / join() (written onto the object) *)
Definition untagged (t : tbl) : bool := match t with TSub None _ _ => true | _ => false end.
Definition tag_sub (n : nat) (t : tbl) : tbl :=
  match t with TSub None src u => TSub (Some ("sq" ++ nat_to_string n)%string) src u | _ => t end.
(* a field of the criterion that was built from the very object being joined sees the name it has just been given *)
Definition same_object (item : tbl) (r : tref) : bool :=
  match item, r with
  | TSub None s u, Some (TSub None s' u') => String.eqb s s' && Nat.eqb u u'
  | _, _ => false
  end.
Definition retag (item item' : tbl) (r : tref) : tref := if same_object item r then Some item' else r.
Definition retag_crit (item item' : tbl) (crit : jterm) : jterm := jmap (retag item item') crit.

Definition join_step (s : qst) (item0 : tbl) (h : joinhow) : res qst :=
  (* QueryBuilder.join: if item.alias is None: self._tag_subquery(item)  (on the copy the Joiner keeps) *)
  let item := tag_sub (q_subcount s) item0 in
  let s1 := if untagged item0 then set_subcount s (S (q_subcount s)) else s in
  match h with
  | JOn None => Err JoinExc                                  (* if criterion is None: raise *)
  | JOn (Some crit0) =>
      let crit := retag_crit item0 item crit0 in
      (* the guards see the criterion through find_(Field) / tables_ *)
      if validate_on s item (crit_all_tables crit) then Ok (do_join s1 item (fun _ => Some (crit_all_tables crit)))
      else Err JoinExc
  | JOnField n =>
      if Nat.eqb n 0 then Err JoinExc                        (* if not fields: raise *)
      else match q_from s with
           | [] => Err IndexErr                              (* self.query._from[0] *)
           | f0 :: _ =>
               let crit := [Some f0; Some item] in
               if validate_on s item crit then Ok (do_join s1 item (fun it => Some [Some f0; Some it])) else Err JoinExc
           end
  | JUsing n => if Nat.eqb n 0 then Err JoinExc else Ok (do_join s1 item (fun _ => None))
  | JCross => Ok (do_join s1 item (fun _ => None))
  end.

(* ---- PostgreSQL returning ---- *)
Fixpoint is_agg (t : rterm) : option bool :=
  match t with
  | RStr _ => None                      (* ValueWrapper.is_aggregate = None *)
  | RConst => None
  | RField _ _ => Some false            (* Term.is_aggregate = False *)
  | RFn FAgg _ => Some true             (* AggregateFunction.is_aggregate = True *)
  | RFn FAnalytic _ => Some false       (* AnalyticFunction.is_aggregate = False *)
  | RFn FPlain args => resolve_is_aggregate (map is_agg args)
  | RArith l r => resolve_is_aggregate [is_agg l; is_agg r]
  end.
Fixpoint rfields (t : rterm) : list (option ptab * string) :=
  match t with
  | RField p n => [(p, n)]
  | RFn _ args => flat_map rfields args
  | RArith l r => rfields l ++ rfields r
  | _ => []
  end.

Definition is_dml (s : qst) : bool := is_some (q_insert s) || is_some (q_update s) || q_delete s.
(* _validate_returning_term: for j in self._joins: the joined item when it is a Table, and criterion.tables_ when the join
   has a criterion (JoinUsing and the CROSS Join have none) *)
Definition join_tables (s : qst) : list ptab :=
  flat_map (fun j => match j_item j with TTab p => [p] | _ => [] end ++ odefault [] (j_crit j)) (q_joins s).

(* _validate_returning_term (after a9c45a1): for every field of the term (find_(Field), no set), judged by its own
   table:  not (field.table in {insert, update})  and  isinstance(field.table, Table) and field.table not in
   set(_from) | join criterion tables *)
Definition validate_ret1 (s : qst) (acc : res unit) (f : tref) : res unit :=
  match acc with
  | Err e => Err e
  | Ok _ =>
      if negb (is_dml s) then Err QueryExc
      else
        let in_targets := mem f [option_map TTab (q_insert s); option_map TTab (q_update s)] in
        let join_and_base := q_from s ++ map TTab (join_tables s) in
        let not_base_or_join :=
            match f with Some (TTab p) => negb (existsb (tbl_eqb (TTab p)) join_and_base) | _ => false end in
        if negb in_targets && not_base_or_join then Err QueryExc else Ok tt
  end.
Definition validate_ret (s : qst) (fields : list tref) : res unit :=
  fold_left (validate_ret1 s) fields (Ok tt).

Definition term_fields (t : rterm) : list tref := map (fun f => option_map TTab (fst f)) (rfields t).

(* _return_field *)
Definition return_field (s : qst) (fields : list tref) : res qst :=
  if pg_rstar s then Ok s
  else match validate_ret s fields with Err e => Err e | Ok _ => Ok s end.

Definition ret1 (s : qst) (t : rterm) : res qst :=
  match t with
  | RField _ _ => return_field s (term_fields t)
  | RStr true => Ok (set_pg s (pg_conflict s) (pg_fields s) (pg_nothing s) (pg_updates s) true)
  | RStr false =>
      match q_insert s, q_update s with
      | Some p, _ => return_field s [Some (TTab p)]
      | None, Some p => return_field s [Some (TTab p)]
      | None, None =>
          if q_delete s then
            match q_from s with
            | [] => Err IndexErr
            | f0 :: _ => return_field s [Some f0]
            end
          else Err QueryExc
      end
  | RFn _ _ | RArith _ _ =>
      match is_agg t with
      | Some true => Err QueryExc                                   (* if term.is_aggregate: raise *)
      | _ => match validate_ret s (term_fields t) with Err e => Err e | Ok _ => Ok s end
      end
  | RConst => Ok s
  end.

(* ---- MSSQL top ---- *)
Definition py_int (v : topval) : res Z :=
  match v with
  | TVInt z | TVStrInt z | TVFloat z => Ok z
  | TVBool b => Ok (if b then 1%Z else 0%Z)
  | TVStrBad => Err "ValueError"
  | TVNone => Err TypeErr
  end.

(* QueryBuilder.get_sql returns "" before anything else for an incomplete statement *)
Definition renders (s : qst) : bool :=
  if negb (truthy (q_selects s) || is_some (q_insert s) || q_delete s || is_some (q_update s)) then false
  else if is_some (q_insert s) && negb (truthy (q_selects s) || q_values s) then false
  else if is_some (q_update s) && negb (q_updates s) then false
  else true.
(* JoinOn.validate_with for every join:  referenced AliasedQuery objects - set(_with) - set(_from) - join items *)
Definition unknown_with (s : qst) : bool :=
  existsb (fun j => match filter (fun a => negb (existsb (tbl_eqb a) (q_with s ++ q_from s ++ map j_item (q_joins s)))) (j_alq j)
                    with [] => false | _ => true end) (q_joins s).

(* ---- the step function of QueryBuilder objects ---- *)
Definition step_q (s : qst) (c : qcall) : res qst :=
  if negb (applicable (q_cls s) c) then Err TypeErr      (* Selectable.__getattr__ gives a Field: not callable *)
  else
  match c with
  | QFrom t =>
      (* an un-aliased sub-query is named sq<max(count, its own count = 0)>; the count moves on *)
      if untagged t then Ok (set_subcount (set_from s (q_from s ++ [tag_sub (q_subcount s) t])) (S (q_subcount s)))
      else Ok (set_from s (q_from s ++ [t]))
  | QWith name => Ok (set_with s (q_with s ++ [TAlq name]))
  | QInto t =>
      if is_some (q_insert s) then Err AttrErr            (* if self._insert_table is not None *)
      else Ok (set_insert s (Some t))
  | QUpdate t =>
      (* if self._update_table is not None or self._selects or self._delete_from *)
      if is_some (q_update s) || truthy (q_selects s) || q_delete s then Err AttrErr
      else Ok (set_update s (Some t))
  | QDelete =>
      (* if self._delete_from or self._selects or self._update_table *)
      if q_delete s || truthy (q_selects s) || is_some (q_update s) then Err AttrErr
      else Ok (set_delete s true)
  | QSelect ts =>
      (* 393df3f: if 0 == len(self._from): for term in terms: if isinstance(term, str): raise  -- before the loop *)
      if Nat.eqb (List.length (q_from s)) 0 && existsb (fun t => match t with SStr _ => true | _ => false end) ts
      then Err QueryExc else fold_res sel1 s ts
  | QColumns =>
      if is_none (q_insert s) then Err AttrErr else Ok s   (* if self._insert_table is None *)
  | QInsert n =>
      (* _apply_terms: if self._insert_table is None: raise; if not terms: return; self._values.append(...) *)
      if is_none (q_insert s) then Err AttrErr else Ok (set_values s (q_values s || truthy n))
  | QSet => Ok (set_updates s true)
  | QGroupby n => Ok (set_groupbys s (q_groupbys s || truthy n) (q_mysql_rollup s))
  | QRollup mysql n =>
      if q_mysql_rollup s then Err AttrErr
      else if mysql then
        if negb (truthy n) && negb (q_groupbys s) then Err RollupExc
        else Ok (set_groupbys s (q_groupbys s || truthy n) true)
      else Ok (set_groupbys s true (q_mysql_rollup s))
  | QJoin item h => join_step s item h
  | QOnDupUpdate =>
      if my_ignore s then Err QueryExc else Ok (set_my s (S (my_dups s)) (my_ignore s))
  | QOnDupIgnore =>
      if truthy (my_dups s) then Err QueryExc else Ok (set_my s (my_dups s) true)
  | QOnConflict n =>
      if negb (is_some (q_insert s)) then Err QueryExc      (* if not self._insert_table *)
      else Ok (set_pg s true (pg_fields s + n) (pg_nothing s) (pg_updates s) (pg_rstar s))
  | QDoNothing =>
      if Nat.ltb 0 (pg_updates s) then Err QueryExc
      else Ok (set_pg s (pg_conflict s) (pg_fields s) true (pg_updates s) (pg_rstar s))
  | QDoUpdate f =>
      if pg_nothing s then Err QueryExc
      else match f with
           | UOther => Err QueryExc
           | _ => Ok (set_pg s (pg_conflict s) (pg_fields s) (pg_nothing s) (S (pg_updates s)) (pg_rstar s))
           end
  | QWhere empty =>
      (* QueryBuilder.where has no guard; PostgreSQLQueryBuilder.where: if not self._on_conflict: super().where *)
      if negb (pg_conflict s) then Ok s
      else if empty then Ok s
      else if pg_nothing s then Err QueryExc
      else if truthy (pg_fields s) && truthy (pg_updates s) then Ok s
      else if truthy (pg_fields s) then Ok s
      else Err QueryExc
  | QReturning ts =>
      (* f36e217: if terms and not any([insert, update, delete]): raise -- before the loop *)
      if truthy (List.length ts) && negb (is_dml s) then Err QueryExc else fold_res ret1 s ts
  | QTop v percent =>
      (* try: top = int(value)  except (ValueError, TypeError): raise QueryException;
         if not isinstance(value, str) and top != value: raise QueryException (bed0bb3); then the percent check *)
      match py_int v with
      | Err e => if String.eqb e "ValueError" || String.eqb e TypeErr then Err QueryExc else Err e
      | Ok z => if match v with TVFloat _ => true | _ => false end then Err QueryExc
                else if percent && negb (Z.leb 0 z && Z.leb z 100) then Err QueryExc else Ok s
      end
  | QRender =>
      (* QueryBuilder.get_sql: the three "return ''" exits, then _validate_with_references(); the dialect's part after it *)
      if renders s && unknown_with s then Err JoinExc else
      match q_cls s with
      | QPostgres =>
          (* _on_conflict_sql *)
          if negb (pg_nothing s) && Nat.eqb (pg_updates s) 0 then
            if negb (truthy (pg_fields s)) then Ok s else Err QueryExc
          else if truthy (pg_updates s) && negb (truthy (pg_fields s)) then Err QueryExc
          else Ok s
      | _ => Ok s
      end
  end.

(* Python-level crashes that are no guards (IndexError on _from[0], a method that exists only on another dialect):
   excluded from the statement *)
Definition wf_q (s : qst) (c : qcall) : bool :=
  applicable (q_cls s) c &&
  match c with
  | QJoin _ (JOnField n) => Nat.eqb n 0 || truthy (List.length (q_from s))
  | QReturning ts =>
      (* returning('name') on a DELETE reads _from[0] *)
      negb (existsb (fun t => match t with RStr false => true | _ => false end) ts)
      || is_some (q_insert s) || is_some (q_update s) || negb (q_delete s) || truthy (List.length (q_from s))
  | _ => true
  end.

(* ---- specification: what the documentation says must be rejected ------------------------- *)
Definition guard (X : Type) := (string * (X -> bool) * string)%type.
Definition g_id {X} (g : guard X) : string := fst (fst g).
Definition g_cond {X} (g : guard X) : X -> bool := snd (fst g).
Definition g_exn {X} (g : guard X) : string := snd g.
(* the classes of all guards whose situation holds, in table order; the first is the one raised *)
Definition fired {X} (gs : list (guard X)) (x : X) : list string :=
  map g_exn (filter (fun g => g_cond g x) gs).
Definition first_fired {X} (gs : list (guard X)) (x : X) : option string := hd_error (fired gs x).

(* a table the join criterion may name: the joined item, a FROM / WITH / UPDATE source, an earlier join *)
Definition sources (s : qst) (item : tbl) : list tbl :=
  item :: q_from s ++ q_with s ++ match q_update s with Some u => [TTab u] | None => [] end ++ map j_item (q_joins s).
Definition join_source (s : qst) (item : tbl) (t : tbl) : bool := existsb (tbl_ident t) (sources s item).
(* table-less fields name no table at all *)
Definition foreign_ref (s : qst) (item : tbl) (r : tref) : bool :=
  match r with
  | None => false
  | Some (TAlq _) => false       (* a reference to a WITH query is judged when the statement is rendered *)
  | Some t => negb (join_source s item t)
  end.
(* some field of the criterion -- in whatever operand position -- names a foreign table *)
Definition names_foreign_table (s : qst) (item : tbl) (crit : jterm) : bool :=
  existsb (foreign_ref s item) (crit_all_tables crit).
(* a complete statement: it has a verb, an INSERT has values or a SELECT, an UPDATE has assignments *)
Definition is_statement (s : qst) : bool :=
  (Nat.ltb 0 (q_selects s) || is_some (q_insert s) || q_delete s || is_some (q_update s))
  && (is_none (q_insert s) || Nat.ltb 0 (q_selects s) || q_values s)
  && (is_none (q_update s) || q_updates s).
(* some join criterion refers to a WITH query the statement does not define (nor selects from, nor joins) *)
Definition refers_unknown_with (s : qst) : bool :=
  existsb (fun j => existsb (fun a => negb (existsb (tbl_eqb a) (q_with s))
                                      && negb (existsb (tbl_eqb a) (q_from s))
                                      && negb (existsb (fun j' => tbl_eqb a (j_item j')) (q_joins s))) (j_alq j)) (q_joins s).
(* RETURNING: fields and strings after a '*' are dropped (like select), so only the effective terms count *)
Fixpoint effective (star : bool) (ts : list rterm) : list rterm :=
  match ts with
  | [] => []
  | RStr true :: r => RStr true :: effective true r
  | (RStr false) as t :: r | (RField _ _) as t :: r => if star then effective star r else t :: effective star r
  | t :: r => t :: effective star r
  end.
Definition is_fn (t : rterm) : bool := match t with RFn _ _ | RArith _ _ => true | _ => false end.
(* a field is the statement's own when it is table-less, on the INSERT/UPDATE target, on a FROM table, on a joined
   table (ON, USING or CROSS join) or on a table named by a join criterion *)
Definition own_field (s : qst) (f : option ptab) : bool :=
  match f with
  | None => true
  | Some p => optab_eqb (Some p) (q_insert s) || optab_eqb (Some p) (q_update s)
              || existsb (tbl_eqb (TTab p)) (q_from s) || existsb (ptab_eqb p) (join_tables s)
  end.
Definition ret_bad (s : qst) (t : rterm) : bool :=
  (is_fn t && match is_agg t with Some true => true | _ => false end)        (* aggregate *)
  || existsb (fun f => negb (own_field s (fst f))) (rfields t).                     (* foreign table *)

Definition is_integer_value (v : topval) : bool :=
  match v with TVInt _ | TVStrInt _ | TVBool _ => true | _ => false end.
Definition top_value (v : topval) : Z :=
  match v with TVInt z | TVStrInt z | TVFloat z => z | TVBool true => 1%Z | _ => 0%Z end.

Definition qx := (qst * qcall)%type.
Definition guards_q : list (guard qx) := [
  ("into_once", (fun x => match x with (s, QInto _) => is_some (q_insert s) | _ => false end), AttrErr);
  ("update_once", (fun x => match x with (s, QUpdate _) => is_some (q_update s) || truthy (q_selects s) || q_delete s | _ => false end), AttrErr);
  ("delete_once", (fun x => match x with (s, QDelete) => q_delete s || truthy (q_selects s) || is_some (q_update s) | _ => false end), AttrErr);
  ("insert_requires_into", (fun x => match x with (s, QColumns) | (s, QInsert _) => is_none (q_insert s) | _ => false end), AttrErr);
  ("select_str_no_from", (fun x => match x with (s, QSelect ts) =>
        Nat.eqb (List.length (q_from s)) 0 && existsb (fun t => match t with SStr _ => true | _ => false end) ts | _ => false end), QueryExc);
  ("rollup_mysql_once", (fun x => match x with (s, QRollup _ _) => q_mysql_rollup s | _ => false end), AttrErr);
  ("rollup_mysql_empty", (fun x => match x with (s, QRollup true n) => Nat.eqb n 0 && negb (q_groupbys s) | _ => false end), RollupExc);
  ("join_on_none", (fun x => match x with (_, QJoin _ (JOn None)) => true | _ => false end), JoinExc);
  ("join_on_field_none", (fun x => match x with (_, QJoin _ (JOnField n)) => Nat.eqb n 0 | _ => false end), JoinExc);
  ("join_using_none", (fun x => match x with (_, QJoin _ (JUsing n)) => Nat.eqb n 0 | _ => false end), JoinExc);
  ("join_foreign_table", (fun x => match x with (s, QJoin item (JOn (Some crit))) =>
        let item' := tag_sub (q_subcount s) item in names_foreign_table s item' (retag_crit item item' crit) | _ => false end), JoinExc);
  ("mysql_update_after_ignore", (fun x => match x with (s, QOnDupUpdate) => my_ignore s | _ => false end), QueryExc);
  ("mysql_ignore_after_update", (fun x => match x with (s, QOnDupIgnore) => Nat.ltb 0 (my_dups s) | _ => false end), QueryExc);
  ("pg_on_conflict_non_insert", (fun x => match x with (s, QOnConflict _) => is_none (q_insert s) | _ => false end), QueryExc);
  ("pg_do_nothing_after_update", (fun x => match x with (s, QDoNothing) => Nat.ltb 0 (pg_updates s) | _ => false end), QueryExc);
  ("pg_do_update_after_nothing", (fun x => match x with (s, QDoUpdate _) => pg_nothing s | _ => false end), QueryExc);
  ("pg_do_update_field_type", (fun x => match x with (_, QDoUpdate UOther) => true | _ => false end), QueryExc);
  ("pg_do_nothing_where", (fun x => match x with (s, QWhere false) => pg_conflict s && pg_nothing s | _ => false end), QueryExc);
  ("pg_fieldless_where", (fun x => match x with (s, QWhere false) => pg_conflict s && Nat.eqb (pg_fields s) 0 | _ => false end), QueryExc);
  ("join_unknown_with_query", (fun x => match x with (s, QRender) => is_statement s && refers_unknown_with s | _ => false end), JoinExc);
  ("pg_conflict_no_handler", (fun x => match x with (s, QRender) =>
        match q_cls s with QPostgres => Nat.ltb 0 (pg_fields s) && negb (pg_nothing s) && Nat.eqb (pg_updates s) 0 | _ => false end | _ => false end), QueryExc);
  ("pg_fieldless_do_update", (fun x => match x with (s, QRender) =>
        match q_cls s with QPostgres => Nat.eqb (pg_fields s) 0 && Nat.ltb 0 (pg_updates s) | _ => false end | _ => false end), QueryExc);
  ("pg_returning", (fun x => match x with (s, QReturning ts) =>
        (* not INSERT/UPDATE/DELETE: nothing can be returned;  else: an aggregate or a foreign-table term *)
        (negb (is_dml s) && truthy (List.length ts)) || existsb (ret_bad s) (effective (pg_rstar s) ts) | _ => false end), QueryExc);
  ("mssql_top_int", (fun x => match x with (_, QTop v _) => negb (is_integer_value v) | _ => false end), QueryExc);
  ("mssql_top_percent", (fun x => match x with (_, QTop v true) => is_integer_value v && negb (Z.leb 0 (top_value v) && Z.leb (top_value v) 100) | _ => false end), QueryExc)
].

(* the one situation in which the code is known to deviate from the documentation (finding
   C14-join-subquery-same-alias-same-from): the criterion names a sub-query that is none of the statement's sources
   but carries the alias AND selects from the table of one that is -- the set arithmetic of JoinOn.validate cannot
   tell them apart *)
Definition frag_q (s : qst) (c : qcall) : bool :=
  match c with
  | QJoin item (JOn (Some crit)) =>
      let item' := tag_sub (q_subcount s) item in
      forallb (fun r => match r with
                        | Some t => forallb (fun u => negb (tbl_eqb t u) || tbl_ident t u) (sources s item')
                        | None => true
                        end) (crit_all_tables (retag_crit item item' crit))
  | _ => true
  end.

(* ========================================================================================== *)
(* 2. CreateQueryBuilder (+ Vertica)                                                           *)
(* ========================================================================================== *)
Record cst := mkC {
  c_vertica : bool;
  c_table : bool;            (* bool(_create_table) *)
  c_temporary : bool;
  c_as_select : bool;        (* bool(_as_select) *)
  c_columns : nat;           (* len(_columns) *)
  c_pk : option nat;         (* _primary_key: None, or a list of that length *)
  c_fk : option nat          (* _foreign_key *)
}.
Inductive ccall :=
| CCreateTable | CTemporary | CColumns (n : nat) | CPrimaryKey (n : nat) | CForeignKey (n : nat)
| CAsSelect (is_query : bool) | CLocal | CPreserveRows | CUnlogged.

Definition step_c (s : cst) (c : ccall) : res cst :=
  match c with
  | CCreateTable =>
      if c_table s then Err AttrErr
      else Ok (mkC (c_vertica s) true (c_temporary s) (c_as_select s) (c_columns s) (c_pk s) (c_fk s))
  | CTemporary => Ok (mkC (c_vertica s) (c_table s) true (c_as_select s) (c_columns s) (c_pk s) (c_fk s))
  | CColumns n =>
      if c_as_select s then Err AttrErr
      else Ok (mkC (c_vertica s) (c_table s) (c_temporary s) (c_as_select s) (c_columns s + n) (c_pk s) (c_fk s))
  | CPrimaryKey n =>
      if is_some (c_pk s) then Err AttrErr                      (* if self._primary_key is not None: *)
      else Ok (mkC (c_vertica s) (c_table s) (c_temporary s) (c_as_select s) (c_columns s) (Some n) (c_fk s))
  | CForeignKey n =>
      if is_some (c_fk s) then Err AttrErr                      (* if self._foreign_key is not None: *)
      else Ok (mkC (c_vertica s) (c_table s) (c_temporary s) (c_as_select s) (c_columns s) (c_pk s) (Some n))
  | CAsSelect is_query =>
      if truthy (c_columns s) then Err AttrErr
      else if negb is_query then Err TypeErr
      else Ok (mkC (c_vertica s) (c_table s) (c_temporary s) true (c_columns s) (c_pk s) (c_fk s))
  | CLocal | CPreserveRows =>
      if negb (c_vertica s) then Err AttrErr   (* plain CreateQueryBuilder has no such attribute *)
      else if negb (c_temporary s) then Err AttrErr
      else Ok s
  | CUnlogged =>
      (* 1e06637: VerticaCreateQueryBuilder.unlogged raises; CreateQueryBuilder.unlogged sets a flag no guard reads *)
      if c_vertica s then Err AttrErr else Ok s
  end.
Definition wf_c (s : cst) (c : ccall) : bool :=
  match c with CLocal | CPreserveRows => c_vertica s | _ => true end.

Definition cx := (cst * ccall)%type.
Definition guards_c : list (guard cx) := [
  ("create_table_once", (fun x => match x with (s, CCreateTable) => c_table s | _ => false end), AttrErr);
  ("columns_after_as_select", (fun x => match x with (s, CColumns _) => c_as_select s | _ => false end), AttrErr);
  ("as_select_after_columns", (fun x => match x with (s, CAsSelect _) => Nat.ltb 0 (c_columns s) | _ => false end), AttrErr);
  ("as_select_type", (fun x => match x with (s, CAsSelect q) => negb q | _ => false end), TypeErr);
  ("primary_key_once", (fun x => match x with (s, CPrimaryKey _) => is_some (c_pk s) | _ => false end), AttrErr);
  ("foreign_key_once", (fun x => match x with (s, CForeignKey _) => is_some (c_fk s) | _ => false end), AttrErr);
  ("vertica_local_requires_temporary", (fun x => match x with (s, CLocal) => negb (c_temporary s) | _ => false end), AttrErr);
  ("vertica_preserve_rows_requires_temporary", (fun x => match x with (s, CPreserveRows) => negb (c_temporary s) | _ => false end), AttrErr);
  ("vertica_unlogged", (fun x => match x with (s, CUnlogged) => c_vertica s | _ => false end), AttrErr)
].
(* ========================================================================================== *)
(* 3. DropQueryBuilder (+ ClickHouse)                                                          *)
(* ========================================================================================== *)
Inductive dkind := KDatabase | KTable | KUser | KView | KIndex | KDictionary | KQuota.
Record dst := mkD {
  d_click : bool;
  d_target : option bool;     (* None: _drop_target_kind is None;  Some b: a target was set, b = bool(_drop_target) *)
  d_cluster : option bool     (* ClickHouse _cluster_name: None, or Some (bool(name)) *)
}.
Inductive dcall := DDrop (k : dkind) (nonempty : bool) | DOnCluster (nonempty : bool).

(* drop_database / drop_table wrap the name in a Database / Table object (always true); the others keep the str *)
Definition target_truthy (k : dkind) (nonempty : bool) : bool :=
  match k with KDatabase | KTable => true | _ => nonempty end.
Definition click_only (c : dcall) : bool :=
  match c with DDrop KDictionary _ | DDrop KQuota _ | DOnCluster _ => true | _ => false end.

Definition step_d (s : dst) (c : dcall) : res dst :=
  if click_only c && negb (d_click s) then Err AttrErr
  else match c with
  | DDrop k ne =>
      if is_some (d_target s) then Err AttrErr                    (* if self._drop_target_kind is not None: *)
      else Ok (mkD (d_click s) (Some (target_truthy k ne)) (d_cluster s))
  | DOnCluster ne =>
      if is_some (d_cluster s) then Err AttrErr                   (* if self._cluster_name is not None: *)
      else Ok (mkD (d_click s) (d_target s) (Some ne))
  end.
Definition wf_d (s : dst) (c : dcall) : bool := negb (click_only c) || d_click s.

Definition dx := (dst * dcall)%type.
Definition guards_d : list (guard dx) := [
  ("drop_target_once", (fun x => match x with (s, DDrop _ _) => is_some (d_target s) | _ => false end), AttrErr);
  ("on_cluster_once", (fun x => match x with (s, DOnCluster _) => is_some (d_cluster s) | _ => false end), AttrErr)
].
(* ========================================================================================== *)
(* 4. small objects: Table.for_/for_portion, window frames, Case, CustomFunction, set operations *)
(* ========================================================================================== *)
Record tst := mkT { t_for : bool; t_portion : bool }.
Inductive tcall := TFor | TForPortion.
Definition step_t (s : tst) (c : tcall) : res tst :=
  match c with
  | TFor => if t_for s then Err AttrErr else if t_portion s then Err AttrErr else Ok (mkT true (t_portion s))
  | TForPortion => if t_portion s then Err AttrErr else if t_for s then Err AttrErr else Ok (mkT (t_for s) true)
  end.
Definition guards_t : list (guard (tst * tcall)) := [
  ("table_for_once", (fun x => match x with (s, _) => t_for s || t_portion s end), AttrErr)
].

Record wst := mkW { w_frame : bool; w_bound : bool }.    (* bool(self.frame), bool(self.bound) *)
Inductive wcall := WRows | WRange.
Definition step_w (s : wst) (c : wcall) : res wst :=
  if w_frame s || w_bound s then Err AttrErr else Ok (mkW true true).
Definition guards_w : list (guard (wst * wcall)) := [
  ("window_frame_once", (fun x => match x with (s, _) => w_frame s || w_bound s end), AttrErr)
].

Record kst := mkK { k_cases : nat; k_else : bool }.
Inductive kcall := KWhen | KElse | KRender.
Definition step_k (s : kst) (c : kcall) : res kst :=
  match c with
  | KWhen => Ok (mkK (S (k_cases s)) (k_else s))
  | KElse => Ok (mkK (k_cases s) true)
  | KRender => if negb (truthy (k_cases s)) then Err CaseExc else Ok s     (* if not self._cases: *)
  end.
Definition guards_k : list (guard (kst * kcall)) := [
  ("case_without_when", (fun x => match x with (s, KRender) => Nat.eqb (k_cases s) 0 | _ => false end), CaseExc)
].

Record fst_ := mkF { f_params : option nat }.             (* CustomFunction.params: None or len *)
Inductive fcall := FCall (nargs : nat).
Definition step_f (s : fst_) (c : fcall) : res fst_ :=
  match c with
  | FCall n =>
      match f_params s with
      | None => Ok s                                       (* if not self._has_params(): *)
      | Some p => if negb (Nat.eqb n p) then Err FunctionExc else Ok s
      end
  end.
Definition guards_f : list (guard (fst_ * fcall)) := [
  ("custom_function_arity", (fun x => match x with (s, FCall n) =>
       match f_params s with Some p => negb (Nat.eqb n p) | None => false end end), FunctionExc)
].

(* an operand of a set operation: a query (len(_selects)) or itself a chain  base OP o1 OP o2 ...
   (_SetOperation._selects = base_query._selects) *)
Inductive sop := SQ (n : nat) | SNest (base : nat) (ops : list sop).
Definition sop_arity (o : sop) : nat := match o with SQ n => n | SNest b _ => b end.

(* _SetOperation.get_sql does not raise:  for every operand, in order: operand.get_sql(...) (a nested chain runs
   its own check there), then  if len(self.base_query._selects) != len(operand._selects): raise *)
Fixpoint sop_renders (o : sop) : bool :=
  match o with
  | SQ _ => true
  | SNest b ops =>
      (fix go (l : list sop) : bool :=
         match l with
         | [] => true
         | x :: r => if sop_renders x then (if Nat.eqb b (sop_arity x) then go r else false) else false
         end) ops
  end.

Record sst := mkS { so_base : nat; so_ops : list sop }.   (* len(_selects) of the base query; the operands *)
Inductive scall := SAdd (o : sop) | SRender.
Definition step_s (s : sst) (c : scall) : res sst :=
  match c with
  | SAdd o => Ok (mkS (so_base s) (so_ops s ++ [o]))
  | SRender => if sop_renders (SNest (so_base s) (so_ops s)) then Ok s else Err SetOpExc
  end.

(* documented: all queries of a set operation select the same number of terms -- at every depth some operand's
   arity differs from the arity of the chain it belongs to *)
Fixpoint sop_mismatch (o : sop) : bool :=
  match o with
  | SQ _ => false
  | SNest b ops =>
      (fix go (l : list sop) : bool :=
         match l with
         | [] => false
         | x :: r => sop_mismatch x || negb (Nat.eqb (sop_arity x) b) || go r
         end) ops
  end.
Definition guards_s : list (guard (sst * scall)) := [
  ("set_operation_arity", (fun x => match x with (s, SRender) => sop_mismatch (SNest (so_base s) (so_ops s)) | _ => false end), SetOpExc)
].

(* ========================================================================================== *)
(* 5. "a rejected call changes nothing": histories                                             *)
(* ========================================================================================== *)
(* the state after a history; a raising call leaves the state it was applied to *)
Fixpoint run {S C} (step : S -> C -> res S) (s : S) (cs : list C) : S * list (option string) :=
  match cs with
  | [] => (s, [])
  | c :: r =>
      match step s c with
      | Ok s' => let (f, o) := run step s' r in (f, None :: o)
      | Err e => let (f, o) := run step s r in (f, Some e :: o)
      end
  end.

(* histories against the specification table: every call of the history is inside the contract / the fragment *)
Fixpoint hist_ok {S C} (ok : S -> C -> bool) (step : S -> C -> res S) (s : S) (cs : list C) : bool :=
  match cs with
  | [] => true
  | c :: r => ok s c && hist_ok ok step (match step s c with Ok s' => s' | Err _ => s end) r
  end.
(* what the table says about each call of a history (the step function only supplies the successor state) *)
Fixpoint spec_outs {S C} (gs : list (guard (S * C))) (step : S -> C -> res S) (s : S) (cs : list C) : list (option string) :=
  match cs with
  | [] => []
  | c :: r => first_fired gs (s, c) :: spec_outs gs step (match step s c with Ok s' => s' | Err _ => s end) r
  end.

(* ---- effects that precede a raise (table extracted from the sources: gen/C14Table.v) ---- *)
Inductive eff :=
| EAssign (attr : string)                     (* self.attr = ... on the builder's copy *)
| EInPlace (attr : string) (recopied : bool)  (* in-place mutation of a container; recopied by __copy__? *)
| EWriteArg (what : string)                   (* write into an argument / foreign object *)
| ESnap (attr : string) (copied : bool)       (* saved = (list(self.attr), ...) / (self.attr, ...): a snapshot is taken *)
| ERestore (attr : string)                    (* self.attr = <that snapshot>  (in an except block, before re-raising) *)
| ERaise (cls : string).
(* one row per method with a raise: name, "the class honours immutable=False", and for every raise the
   effects of a path leading to it (ending with the ERaise) *)
Definition effrow := (string * bool * list (list eff))%type.

Definition harmless_on_copy (e : eff) : bool :=
  match e with EAssign _ => true | EInPlace _ r => r | EWriteArg _ => false | ERaise _ => true
             | ESnap _ _ => true | ERestore _ => true end.
Definition path_safe (p : list eff) : bool := forallb harmless_on_copy p.
Definition raise_safe (t : list effrow) : bool := forallb (fun r => forallb path_safe (snd r)) t.

(* with immutable=False the builder is mutated in place: then nothing may be left written when the raise happens.
   What is written is tracked most-recent-first; restoring an attribute from a snapshot undoes what was written to it
   since the snapshot (rebindings always, in-place changes only when the snapshot is a copy). *)
Inductive pend := PAssign (a : string) | PInPlace (a : string) | PArg (w : string) | PSnap (a : string) (copied : bool).
Fixpoint snap_flag (a : string) (l : list pend) : option bool :=
  match l with
  | [] => None
  | PSnap b c :: r => if String.eqb a b then Some c else snap_flag a r
  | _ :: r => snap_flag a r
  end.
Fixpoint undo (a : string) (copied : bool) (l : list pend) : list pend :=
  match l with
  | [] => []
  | PSnap b c :: r => if String.eqb a b then l else PSnap b c :: undo a copied r
  | PAssign b :: r => if String.eqb a b then undo a copied r else PAssign b :: undo a copied r
  | PInPlace b :: r => if String.eqb a b && copied then undo a copied r else PInPlace b :: undo a copied r
  | x :: r => x :: undo a copied r
  end.
Definition is_written (x : pend) : bool := match x with PSnap _ _ => false | _ => true end.
Fixpoint strict_from (acc : list pend) (p : list eff) : bool :=
  match p with
  | [] => true
  | ERaise _ :: r => negb (existsb is_written acc) && strict_from acc r
  | EAssign a :: r => strict_from (PAssign a :: acc) r
  | EInPlace a _ :: r => strict_from (PInPlace a :: acc) r
  | EWriteArg w :: r => strict_from (PArg w :: acc) r
  | ESnap a c :: r => strict_from (PSnap a c :: acc) r
  | ERestore a :: r =>
      strict_from (match snap_flag a acc with Some c => undo a c acc | None => PAssign a :: acc end) r
  end.
Definition path_strict (p : list eff) : bool := strict_from [] p.
Definition mutable_unsafe (t : list effrow) : list string :=
  map (fun r => fst (fst r)) (filter (fun r => snd (fst r) && negb (forallb path_strict (snd r))) t).

Fixpoint last_raise (p : list eff) : option string :=
  match p with [] => None | [ERaise k] => Some k | _ :: r => last_raise r end.
Fixpoint dedup (l : list string) : list string :=
  match l with [] => [] | x :: r => if existsb (String.eqb x) r then dedup r else x :: dedup r end.
Fixpoint insert_sorted (x : string) (l : list string) : list string :=
  match l with [] => [x] | y :: r => if String.leb x y then x :: l else y :: insert_sorted x r end.
Definition sort_strings (l : list string) : list string := fold_right insert_sorted [] l.
Definition raise_classes (r : effrow) : list string := sort_strings (dedup (somes (map last_raise (snd r)))).
Definition lookup_row (t : list effrow) (name : string) : option effrow :=
  find (fun r => String.eqb (fst (fst r)) name) t.
(* every guarded method raises exactly the documented classes *)
Definition classes_ok (t : list effrow) (expected : list (string * list string)) : bool :=
  forallb (fun e => match lookup_row t (fst e) with
                    | Some r => list_eqb String.eqb (raise_classes r) (sort_strings (snd e))
                    | None => false end) expected.

Definition expected_raises : list (string * list string) := [
  ("Table.for_", [AttrErr]); ("Table.for_portion", [AttrErr]);
  ("_SetOperation.get_sql", [SetOpExc]);
  ("QueryBuilder.into", [AttrErr]); ("QueryBuilder.select", [QueryExc]); ("QueryBuilder.delete", [AttrErr]);
  ("QueryBuilder.update", [AttrErr]); ("QueryBuilder.columns", [AttrErr]); ("QueryBuilder.insert", [AttrErr]);
  ("QueryBuilder.replace", [AttrErr]); ("QueryBuilder.rollup", [AttrErr; RollupExc]);
  ("QueryBuilder.do_join", [JoinExc]); ("QueryBuilder._with_join", [JoinExc]); ("JoinOn.validate", [JoinExc]);
  ("JoinOn.validate_with", [JoinExc]); ("QueryBuilder._validate_with_references", [JoinExc]); ("QueryBuilder.get_sql", [JoinExc]);
  ("Joiner.on", [JoinExc]); ("Joiner.on_field", [JoinExc]); ("Joiner.using", [JoinExc]);
  ("CreateQueryBuilder.create_table", [AttrErr]); ("CreateQueryBuilder.columns", [AttrErr]);
  ("CreateQueryBuilder.primary_key", [AttrErr]); ("CreateQueryBuilder.foreign_key", [AttrErr]);
  ("CreateQueryBuilder.as_select", [AttrErr; TypeErr]);
  ("DropQueryBuilder._set_target", [AttrErr]); ("DropQueryBuilder.drop_table", [AttrErr]);
  ("DropQueryBuilder.drop_database", [AttrErr]); ("DropQueryBuilder.drop_user", [AttrErr]);
  ("DropQueryBuilder.drop_view", [AttrErr]); ("DropQueryBuilder.drop_index", [AttrErr]);
  ("Case.get_sql", [CaseExc]); ("CustomFunction.__call__", [FunctionExc]);
  ("WindowFrameAnalyticFunction._set_frame_and_bounds", [AttrErr]);
  ("WindowFrameAnalyticFunction.rows", [AttrErr]); ("WindowFrameAnalyticFunction.range", [AttrErr]);
  ("MySQLQueryBuilder.on_duplicate_key_update", [QueryExc]); ("MySQLQueryBuilder.on_duplicate_key_ignore", [QueryExc]);
  ("PostgreSQLQueryBuilder.on_conflict", [QueryExc]); ("PostgreSQLQueryBuilder.do_nothing", [QueryExc]);
  ("PostgreSQLQueryBuilder.do_update", [QueryExc]); ("PostgreSQLQueryBuilder.where", [QueryExc]);
  ("PostgreSQLQueryBuilder._on_conflict_sql", [QueryExc]); ("PostgreSQLQueryBuilder.get_sql", [JoinExc; QueryExc]);
  ("PostgreSQLQueryBuilder.returning", [QueryExc]); ("PostgreSQLQueryBuilder._validate_returning_term", [QueryExc]);
  ("MSSQLQueryBuilder.top", [QueryExc]);
  ("VerticaCreateQueryBuilder.local", [AttrErr]); ("VerticaCreateQueryBuilder.preserve_rows", [AttrErr]);
  ("VerticaCreateQueryBuilder.unlogged", [AttrErr]);
  ("ClickHouseDropQueryBuilder.on_cluster", [AttrErr]); ("ClickHouseDropQueryBuilder.drop_dictionary", [AttrErr]);
  ("ClickHouseDropQueryBuilder.drop_quota", [AttrErr])
].
(* the builder methods the (path-insensitive) effects walk still flags for immutable=False builders: select() only,
   whose raise inside the loop is dead since the check stands in front of the loop (393df3f; props/C14.v
   C14_select_atomic proves that on the model).  returning() restores _returns/_return_star before re-raising. *)
Definition dead_raise_methods : list string := ["QueryBuilder.select"].
Definition expected_mutable_unsafe : list string := ["QueryBuilder.select"].

(* ---- nodes_ coverage of the term classes (table extracted from pypika/terms.py: gen/C14Table.v) ---- *)
(* the child-term attributes a class's nodes_ does not yield from: what is invisible to find_ / fields_() / tables_ and
   therefore to JoinOn.validate, validate_with and _validate_returning_term *)
Definition nodes_gaps (t : list (string * list string * list string)) : list (string * list string) :=
  flat_map (fun r => match filter (fun a => negb (existsb (String.eqb a) (snd r))) (snd (fst r)) with
                     | [] => []
                     | g => [(fst (fst r), g)]
                     end) t.
(* the gaps of the current sources (after d11365b), none of which holds a term of the enclosing statement:
   Function.schema and its subclasses' (a Schema object, no term), ExistsCriterion.container (a sub-query: "subqueries
   have their own fields"), Values.field (MySQL VALUES(col): a column of the row being inserted) *)
Definition expected_nodes_gaps : list (string * list string) := [
  ("Values", ["field"]); ("ExistsCriterion", ["container"]); ("Function", ["schema"]); ("AggregateFunction", ["schema"]);
  ("AnalyticFunction", ["schema"]); ("WindowFrameAnalyticFunction", ["schema"]); ("IgnoreNullsAnalyticFunction", ["schema"]);
  ("Pow", ["schema"]); ("Mod", ["schema"]); ("Rollup", ["schema"])
].

(* ---- the vote of every term class in resolve_is_aggregate (table extracted from pypika/terms.py: gen/C14Table.v) ---- *)
(* "None": the class abstains (Node default: values, parameters, interval literals, AT TIME ZONE, the empty criterion);
   "False" / "True": a fixed vote; "property": computed from the operands by resolve_is_aggregate.  The RETURNING aggregate
   guard depends on these votes: an abstaining operand next to an aggregate leaves the expression an aggregate. *)
Definition expected_is_aggregate_table : list (string * string) := [
  ("Node", "None");
  ("Term", "False");
  ("Parameter", "None");
  ("ListParameter", "None");
  ("DictParameter", "None");
  ("QmarkParameter", "None");
  ("NumericParameter", "None");
  ("FormatParameter", "None");
  ("NamedParameter", "None");
  ("PyformatParameter", "None");
  ("Negative", "property");
  ("ValueWrapper", "None");
  ("ParameterValueWrapper", "None");
  ("JSON", "False");
  ("Values", "False");
  ("LiteralValue", "False");
  ("NullValue", "False");
  ("SystemTimeValue", "False");
  ("Criterion", "False");
  ("EmptyCriterion", "None");
  ("Field", "False");
  ("Index", "False");
  ("Star", "False");
  ("Tuple", "property");
  ("Array", "property");
  ("Bracket", "property");
  ("NestedCriterion", "property");
  ("BasicCriterion", "property");
  ("ContainsCriterion", "property");
  ("ExistsCriterion", "False");
  ("RangeCriterion", "property");
  ("BetweenCriterion", "property");
  ("PeriodCriterion", "property");
  ("BitwiseAndCriterion", "False");
  ("NullCriterion", "False");
  ("NotNullCriterion", "False");
  ("ComplexCriterion", "property");
  ("ArithmeticExpression", "property");
  ("Case", "property");
  ("Not", "False");
  ("All", "False");
  ("Function", "property");
  ("AggregateFunction", "True");
  ("AnalyticFunction", "False");
  ("WindowFrameAnalyticFunction", "False");
  ("IgnoreNullsAnalyticFunction", "False");
  ("Interval", "None");
  ("Pow", "property");
  ("Mod", "property");
  ("Rollup", "property");
  ("PseudoColumn", "False");
  ("AtTimezone", "None")
].
