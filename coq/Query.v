(* Query.v — executable model of statement rendering: QueryBuilder.get_sql for the ten query classes
   (SELECT / INSERT / UPDATE / DELETE, WITH, joins, sub-queries as sources, select items and IN/EXISTS/comparison
   operands and function arguments), _SetOperation.get_sql, Table/Schema rendering, the with_namespace decision
   and the sq%d auto-naming of un-aliased sub-queries.  Clause items are terms of Terms.v; sub-queries occur at the
   designated item positions below.  Class constants come from gen/QueryTable.v (regenerated on every run);
   the pagination tail is Page.render_page.  Definitions only. *)
From PV Require Import Base Crit gen.TermsTable Terms Page gen.QueryTable.

Inductive jhow := JInner | JLeft | JRight | JOuter | JLeftOuter | JRightOuter | JFullOuter | JCross | JHash.
Definition jhow_text (h : jhow) : string :=
  match h with JInner => "" | JLeft => "LEFT" | JRight => "RIGHT" | JOuter => "FULL OUTER" | JLeftOuter => "LEFT OUTER"
  | JRightOuter => "RIGHT OUTER" | JFullOuter => "FULL OUTER" | JCross => "CROSS" | JHash => "HASH" end.
Inductive setop := SUnion | SUnionAll | SIntersect | SExcept | SMinus.
Definition setop_text (o : setop) : string :=
  match o with SUnion => "UNION" | SUnionAll => "UNION ALL" | SIntersect => "INTERSECT" | SExcept => "EXCEPT" | SMinus => "MINUS" end.
Inductive order := Asc | Desc.
Definition order_text (o : order) : string := match o with Asc => "ASC" | Desc => "DESC" end.

(* a field's table may be written as "#i": the i-th source (FROM items, then JOIN items) of the enclosing statement;
   the model resolves it to the source's in-statement table reference (this is how fields bound to an auto-named
   sub-query are expressed) *)

Inductive item :=
| IT (t : term)                                   (* an ordinary expression *)
| ISub (q : query)                                (* a sub-query used as a term (select item, operand) *)
| IIn (t : term) (q : query) (neg : bool)         (* t [NOT] IN (sub-query) *)
| IExists (q : query) (neg : bool)
| ICmp (c : cmp) (t : term) (q : query)           (* t = (sub-query) *)
| IFunc (name : string) (args : list item) (alias : option string)   (* a function call whose arguments may be sub-queries *)
| ICplx (b : bop) (l r : item)
| INot (i : item)
with source :=
| SrcT (t : tref)
| SrcQ (q : query)
| SrcA (name : string)                            (* AliasedQuery(name) referring to a WITH clause *)
with jcond := JOn (i : item) | JUsing (fs : list string) | JCrossCond
with query :=
| QSel (cls : cls)
       (withs : list (string * query))
       (distinct : bool) (selects : list item)
       (from : list source) (joins : list (jhow * source * jcond))
       (wheres havings : option item) (groupbys : list item) (orderbys : list (item * option order))
       (lim off : option Z) (for_update : bool) (alias : option string)
| QIns (cls : cls) (into : tref) (columns : list term) (rows : list (list item)) (sel : option query)
       (replace : bool) (alias : option string)
| QUpd (cls : cls) (tbl : tref) (sets : list (term * item)) (from : list source) (joins : list (jhow * source * jcond))
       (wheres : option item) (lim : option Z)
| QDel (cls : cls) (from : list source) (wheres : option item)
| QSet (base : query) (ops : list (setop * query)) (orderbys : list (term * option order)) (lim off : option Z)
       (alias : option string).

(* ---------------- rendering context ---------------- *)
Record kctx := {
  kc : ctx;          (* the keyword arguments Terms.render understands *)
  k_abs : bool;      (* secondary_quote_char / alias_quote_char / as_keyword / query_alias_quote_char are ABSENT
                        (a term rendered outside any statement) *)
  k_gba : bool;      (* groupby_alias (Oracle / MSSQL switch it off in _set_kwargs_defaults; it is handed down) *)
  k_qaq : option string   (* query_alias_quote_char: the quote of SUB-QUERY aliases, a convention of the outermost class *)
}.
Definition mk_k (c : ctx) (a g : bool) (qa : option string) : kctx := {| kc := c; k_abs := a; k_gba := g; k_qaq := qa |}.
Definition with_c (k : kctx) (c : ctx) : kctx := mk_k c (k_abs k) (k_gba k) (k_qaq k).
Definition set_wn (c : ctx) (b : bool) : ctx :=
  {| q := q c; sq := sq c; aq := aq c; askw := askw c; dia := dia c; wa := wa c; wn := b; subq := subq c; subc := subc c |}.
Definition set_aq (c : ctx) (a : option string) : ctx :=
  {| q := q c; sq := sq c; aq := a; askw := askw c; dia := dia c; wa := wa c; wn := wn c; subq := subq c; subc := subc c |}.
Definition set_q (c : ctx) (a : option string) : ctx :=
  {| q := a; sq := sq c; aq := aq c; askw := askw c; dia := dia c; wa := wa c; wn := wn c; subq := subq c; subc := subc c |}.
Definition set_dia (c : ctx) (a : option dialect) : ctx :=
  {| q := q c; sq := sq c; aq := aq c; askw := askw c; dia := a; wa := wa c; wn := wn c; subq := subq c; subc := subc c |}.

(* str(query): get_sql(dialect=self.dialect) with every other key absent: the class defaults apply *)
Definition qalias_quote (c : cls) : option string := match cls_qaq c with None => cls_aq c | Some qa => Some qa end.
Definition top_ctx (c : cls) : kctx :=
  mk_k {| q := cls_q c; sq := cls_sq c; aq := cls_aq c; askw := cls_askw c; dia := cls_dia c; wa := false; wn := false;
          subq := false; subc := false |} false (cls_gba c) (qalias_quote c).

(* _set_kwargs_defaults of class [c] applied to incoming kwargs [k]: only the absent keys are filled.
   quote_char and dialect are always present in nested calls (Function.get_sql forwards them). *)
Definition defaults (c : cls) (k : kctx) : kctx :=
  let base := kc k in
  let base' := if k_abs k
               then {| q := q base; sq := cls_sq c; aq := cls_aq c; askw := cls_askw c; dia := dia base; wa := wa base;
                       wn := wn base; subq := subq base; subc := subc base |}
               else base in
  mk_k base' false (if cls_gba c then k_gba k else false) (if k_abs k then qalias_quote c else k_qaq k).

(* ---------------- tables ---------------- *)
Definition schema_sql (qc : option string) (chain : list string) : string := join "." (map (fq qc) chain).
(* Table.get_sql: quoted name, schema chain outermost first, and ALWAYS the alias (format_alias_sql) *)
Definition table_sql (c : ctx) (t : tref) : string :=
  let base := fq (q c) (tname t) in
  let full := match tschema t with [] => base | ch => schema_sql (q c) ch ++ "." ++ base end in
  fmt_alias full (talias t) (q c) (aq c) (askw c).

(* ---------------- sources, auto-naming, scope ---------------- *)
Definition qalias (x : query) : option string :=
  match x with
  | QSel _ _ _ _ _ _ _ _ _ _ _ _ _ a => a
  | QIns _ _ _ _ _ _ a => a
  | QSet _ _ _ _ _ a => a
  | _ => None end.
Definition set_qalias (x : query) (a : option string) : query :=
  match x with
  | QSel c w d s f j wh h g o l off fu _ => QSel c w d s f j wh h g o l off fu a
  | QIns c i cols rows s r _ => QIns c i cols rows s r a
  | QSet b ops o l off _ => QSet b ops o l off a
  | other => other end.
Definition is_some_str (o : option string) : bool := match o with Some _ => true | None => false end.

(* from_(): an un-aliased QueryBuilder / _SetOperation gets "sq%d" with d = max(own count, the sub-query's own count);
   join(): _tag_subquery uses the own count only (and only QueryBuilder items are tagged).
   [inner x] is the sub-query's own final count. *)
Section Naming.
Variable inner : query -> nat.
(* effective alias of every FROM item (None for tables / named queries), and the counter afterwards *)
Fixpoint name_from (own : nat) (l : list source) : list (option string) * nat :=
  match l with
  | [] => ([], own)
  | SrcQ x :: r =>
      match qalias x with
      | Some a => let (r', n) := name_from own r in (Some a :: r', n)
      | None =>
          let d := Nat.max own (match x with QSet _ _ _ _ _ _ => 0 | _ => inner x end) in
          let (r', n) := name_from (S d) r in
          (Some ("sq" ++ nat_to_string d) :: r', n)
      end
  | _ :: r => let (r', n) := name_from own r in (None :: r', n)
  end.
(* do_join: an un-aliased Table that is already among the base tables (FROM items / UPDATE target) gets the first
   free numbered alias name2, name3, ... (with respect to the names of the FROM items, the UPDATE target and the joins
   made so far; not the WITH queries: with_() may be called before or after the join) written onto it; an un-aliased sub-query or set operation is tagged sq<own>.
   [taken]: the names in use so far. *)
Fixpoint first_free_aux (nm : string) (taken : list string) (fuel n : nat) : string :=
  let cand := nm ++ nat_to_string n in
  match fuel with
  | O => cand
  | S f => if existsb (String.eqb cand) taken then first_free_aux nm taken f (S n) else cand
  end.
Definition first_free (nm : string) (taken : list string) : string := first_free_aux nm taken (List.length taken) 2.

Fixpoint name_joins (base : list tref) (taken : list string) (own : nat) (l : list (jhow * source * jcond))
  : list (option string) * nat :=
  match l with
  | [] => ([], own)
  | (_, SrcQ x, _) :: r =>
      match qalias x with
      | Some a => let (r', n) := name_joins base (a :: taken) own r in (Some a :: r', n)
      | None =>
          let nm := "sq" ++ nat_to_string own in
          let (r', n) := name_joins base (nm :: taken) (S own) r in (Some nm :: r', n)
      end
  | (_, SrcT t, _) :: r =>
      let eff := match talias t with
                 | None => if existsb (tref_eqb t) base then Some (first_free (tname t) taken) else None
                 | Some a => Some a end in
      let nm := match eff with Some a => a | None => tname t end in
      let (r', n) := name_joins base (nm :: taken) own r in (eff :: r', n)
  | (_, SrcA nm, _) :: r => let (r', n) := name_joins base (nm :: taken) own r in (None :: r', n)
  end.
End Naming.

(* the sub-query's own counter: structural recursion through FROM / JOIN items *)
Fixpoint sub_count (x : query) : nat :=
  match x with
  | QSel _ _ _ _ from joins _ _ _ _ _ _ _ _ =>
      let fix cf (own : nat) (l : list source) : nat :=
          match l with
          | [] => own
          | SrcQ y :: r => if is_some_str (qalias y) then cf own r
                           else cf (S (Nat.max own (match y with QSet _ _ _ _ _ _ => 0 | _ => sub_count y end))) r
          | _ :: r => cf own r end in
      let fix cj (own : nat) (l : list (jhow * source * jcond)) : nat :=
          match l with
          | [] => own
          | (_, SrcQ y, _) :: r =>
              (match qalias y with None => cj (S own) r | Some _ => cj own r end)
          | _ :: r => cj own r end in
      cj (cf 0 from) joins
  | _ => 0
  end.

(* the in-statement table reference of a source *)
Definition src_ref (s : source) (eff : option string) : tref :=
  match s with
  | SrcT t => {| tname := tname t; tschema := tschema t; talias := match eff with Some a => Some a | None => talias t end |}
  | SrcQ x => {| tname := ""; tschema := []; talias := eff |}
  | SrcA n => {| tname := n; tschema := []; talias := Some n |}
  end.
Definition base_tables (l : list source) : list tref :=
  flat_map (fun s => match s with SrcT t => [t] | _ => [] end) l.
(* the names the sources carry in the statement (alias, else table name; the tag of a sub-query; the WITH name) *)
Definition tref_name (t : tref) : string := match talias t with Some a => a | None => tname t end.
Fixpoint src_names (l : list source) (ns : list (option string)) : list string :=
  match l with
  | [] => []
  | s :: r =>
      let eff := hd None ns in
      (match s with
       | SrcT t => [match eff with Some a => a | None => tref_name t end]
       | SrcQ _ => match eff with Some a => [a] | None => [] end
       | SrcA n => [n] end) ++ src_names r (tl ns)
  end.
Fixpoint src_refs (l : list source) (ns : list (option string)) : list tref :=
  match l, ns with
  | s :: r, n :: rn => src_ref s n :: src_refs r rn
  | s :: r, [] => src_ref s None :: src_refs r []
  | [], _ => []
  end.

Definition term_alias (t : term) : option string :=
  match t with
  | TField _ _ a | TValS _ a | TValI _ a | TValB _ _ a | TValNone a | TValRaw _ a | TLit _ a | TArith _ _ _ a
  | TBasic _ _ _ a | TCplx _ _ _ a | TIn _ _ _ a | TBetween _ _ _ a | TBitAnd _ _ a | TIsNull _ a | TNotNull _ a
  | TNot _ a | TAll _ a | TCase _ _ a | TFunc _ _ _ a | TTuple _ a | TArray _ a | TSub _ _ a => a
  | _ => None
  end.

(* resolve "#i" table references of a term against the statement's sources *)
Definition is_src_ref (t : tref) : option nat :=
  match tname t with
  | String "#" rest => match Z_of_string rest with Some z => Some (Z.to_nat z) | None => None end
  | _ => None end.
Definition resolve_tref (srcs : list tref) (t : tref) : tref :=
  match is_src_ref t with Some i => nth i srcs t | None => t end.
Definition resolve_otref (srcs : list tref) (o : option tref) : option tref := option_map (resolve_tref srcs) o.

Fixpoint map_tref (f : tref -> tref) (t : term) : term :=
  match t with
  | TField n tb a => TField n (option_map f tb) a
  | TStar tb => TStar (option_map f tb)
  | TNeg x => TNeg (map_tref f x)
  | TArith o l r a => TArith o (map_tref f l) (map_tref f r) a
  | TBasic c l r a => TBasic c (map_tref f l) (map_tref f r) a
  | TCplx b l r a => TCplx b (map_tref f l) (map_tref f r) a
  | TIn x c n a => TIn (map_tref f x) (map_tref f c) n a
  | TBetween x lo hi a => TBetween (map_tref f x) (map_tref f lo) (map_tref f hi) a
  | TBitAnd x v a => TBitAnd (map_tref f x) v a
  | TIsNull x a => TIsNull (map_tref f x) a
  | TNotNull x a => TNotNull (map_tref f x) a
  | TNot x a => TNot (map_tref f x) a
  | TAll x a => TAll (map_tref f x) a
  | TCase ws e a => TCase (map_tref_w f ws) (match e with ONone => ONone | OSome x => OSome (map_tref f x) end) a
  | TFunc n args sp a => TFunc n (map_tref_l f args) sp a
  | TTuple vs a => TTuple (map_tref_l f vs) a
  | TArray vs a => TArray (map_tref_l f vs) a
  | other => other
  end
with map_tref_l (f : tref -> tref) (l : tlist) : tlist :=
  match l with TNil => TNil | TCons x r => TCons (map_tref f x) (map_tref_l f r) end
with map_tref_w (f : tref -> tref) (l : wlist) : wlist :=
  match l with WNil => WNil | WCons c v r => WCons (map_tref f c) (map_tref f v) (map_tref_w f r) end.

(* tables of the fields of a term (Term.fields_() -> field.table), for _validate_table *)
Fixpoint field_tables (t : term) : list (option tref) :=
  match t with
  | TField _ tb _ => [tb]
  | TStar tb => [tb]
  | TNeg x | TIsNull x _ | TNotNull x _ | TNot x _ | TAll x _ | TBitAnd x _ _ => field_tables x
  | TArith _ l r _ | TBasic _ l r _ | TCplx _ l r _ => field_tables l ++ field_tables r
  | TIn x c _ _ => field_tables x ++ field_tables c
  | TBetween x lo hi _ => field_tables x ++ field_tables lo ++ field_tables hi
  | TCase ws e _ => field_tables_w ws ++ (match e with ONone => [] | OSome x => field_tables x end)
  | TFunc _ args _ _ | TTuple args _ | TArray args _ => field_tables_l args
  | _ => []
  end
with field_tables_l (l : tlist) : list (option tref) :=
  match l with TNil => [] | TCons x r => field_tables x ++ field_tables_l r end
with field_tables_w (l : wlist) : list (option tref) :=
  match l with WNil => [] | WCons c v r => field_tables c ++ field_tables v ++ field_tables_w r end.

(* the tables of the field leaves of an item's own terms: Term.fields_() walks nodes_(), which does not descend into a
   QueryBuilder (Term.nodes_ yields the builder itself only), so sub-queries contribute nothing *)
Fixpoint item_tables (i : item) : list (option tref) :=
  match i with
  | IT t | IIn t _ _ | ICmp _ t _ => field_tables t
  | ISub _ | IExists _ _ => []
  | IFunc _ args _ => (fix go (l : list item) : list (option tref) := match l with [] => [] | x :: r => (item_tables x ++ go r)%list end) args
  | ICplx _ l r => (item_tables l ++ item_tables r)%list
  | INot x => item_tables x
  end.

(* ---------------- the renderer ---------------- *)
Definition ctx_item (k : kctx) (walias subquery : bool) (wns : bool) : ctx :=
  set_wn (set_subq (set_wa (kc k) walias) subquery) wns.

(* Function arguments: quote_char, dialect, with_namespace and the alias / literal conventions (also groupby_alias and
   the sub-query alias quote) are handed on; the positional flags are not *)
Definition fk (k : kctx) : kctx := with_c k (fctx (kc k)).

Definition page_tail (c : cls) (kd : kind) (l o : option Z) : string := render_page c kd (pg l o).

Definition opt_bind {A} (o : option A) (f : A -> res string) : res string :=
  match o with None => Ok "" | Some a => f a end.

(* len(x._selects); a set operation answers for its base query (_SetOperation._selects) *)
Fixpoint nselects (x : query) : nat :=
  match x with
  | QSel _ _ _ sels _ _ _ _ _ _ _ _ _ _ => List.length sels
  | QSet b _ _ _ _ _ => nselects b
  | _ => 0 end.
Definition is_builder (x : query) : bool := match x with QSet _ _ _ _ _ _ => false | _ => true end.
Definition item_alias (y : item) : option string :=
  match y with IT t => term_alias t | ISub y' => qalias y' | IFunc _ _ a => a | _ => None end.
Definition jprefix (h : jhow) (cnd : jcond) : string :=
  let jt := match cnd with JCrossCond => "CROSS" | _ => jhow_text h end in
  match jt with EmptyString => "" | _ => jt ++ " " end.

(* [ali]: the alias the statement carries when it is rendered (its own, or the sq%d the enclosing statement gave it) *)
Fixpoint ritem (k : kctx) (srcs : list tref) (c : ctx) (i : item) {struct i} : res string :=
  match i with
  | IT t => render c (map_tref (resolve_tref srcs) t)
  | ISub x => rquery (with_c k c) (wa c) (subq c) (qalias x) x
  | IIn t x neg =>
      a <- render (set_subq c false) (map_tref (resolve_tref srcs) t) ;;
      b <- rquery (with_c k (set_subq c true)) (wa c) true (qalias x) x ;;
      Ok (a ++ " " ++ (if neg then "NOT " else "") ++ "IN " ++ b)
  | IExists x neg =>
      b <- rquery (with_c k c) (wa c) (subq c) (qalias x) x ;; Ok ((if neg then "NOT " else "") ++ "EXISTS " ++ b)
  | ICmp cm t x =>
      let c' := set_wa c false in
      a <- render c' (map_tref (resolve_tref srcs) t) ;;
      b <- rquery (with_c k c') false (subq c) (qalias x) x ;;
      Ok (a ++ cmp_text cm ++ b)
  | IFunc name args alias =>
      let k' := fk (with_c k c) in
      ss <- (fix go (l : list item) : res (list string) :=
               match l with [] => Ok [] | x :: r => a <- ritem k' srcs (kc k') x ;; rest <- go r ;; Ok (a :: rest) end) args ;;
      let s := name ++ "(" ++ join "," ss ++ ")" in
      Ok (if wa c then alias_sql c (q c) s alias else s)
  | ICplx bo l r =>
      let nb (x : item) := match x with ICplx b2 _ _ => negb (bop_eqb b2 bo) | IT t => needs_brackets_x bo (top_bop t) | _ => false end in
      a <- ritem k srcs (set_subc c (nb l)) l ;; b <- ritem k srcs (set_subc c (nb r)) r ;;
      Ok (paren (subc c) (a ++ " " ++ bop_text_x bo ++ " " ++ b))
  | INot x => a <- ritem k srcs (set_subc c true) x ;; Ok ("NOT " ++ a)
  end

(* QueryBuilder.get_sql(with_alias, subquery, **kwargs) / _SetOperation.get_sql *)
with rquery (kin : kctx) (walias subquery : bool) (ali : option string) (x : query) {struct x} : res string :=
  match x with
  | QSel c withs distinct selects from joins wheres havings groupbys orderbys l o fu _ =>
      let k := defaults c kin in
      let (fnames, n1) := name_from sub_count 0 from in
      let (jnames, _) := name_joins (base_tables from) (src_names from fnames) n1 joins in
      let srcs := (src_refs from fnames ++ src_refs (map (fun j => snd (fst j)) joins) jnames)%list in
      let in_scope (tb : tref) := existsb (tref_eqb tb) srcs in
      let foreign := existsb (fun o => match o with Some tb => negb (in_scope (resolve_tref srcs tb)) | None => false end)
                             (match wheres with Some w => item_tables w | None => [] end) in
      let wns := negb (Nat.eqb (List.length joins) 0) || Nat.ltb 1 (List.length from)
                 || (match from with SrcQ y :: _ => is_builder y | _ => false end)
                 || foreign in
      let base := kc k in
      let ci (wa_ sq_ : bool) := ctx_item k wa_ sq_ wns in
      let kk := with_c k (set_wn base wns) in
      match selects with
      | [] => Ok ""
      | _ =>
      w <- (match withs with
            | [] => Ok ""
            | _ => ws <- (fix go (l : list (string * query)) : res (list string) :=
                            match l with [] => Ok [] | (n, y) :: r =>
                              a <- rquery kk false false (qalias y) y ;; rest <- go r ;; Ok ((n ++ " AS (" ++ a ++ ") ") :: rest) end) withs ;;
                   Ok ("WITH " ++ join "," ws) end) ;;
      sel <- (fix go (l : list item) : res (list string) :=
                match l with [] => Ok [] | y :: r => a <- ritem kk srcs (ci true true) y ;; rest <- go r ;; Ok (a :: rest) end) selects ;;
      fr <- (fix go (l : list source) (ns : list (option string)) : res (list string) :=
               match l with [] => Ok [] | s :: r =>
                 a <- (match s with
                       | SrcT t => Ok (table_sql (ci true true) t)
                       | SrcQ y => rquery (with_c k (ci true true)) true true (hd None ns) y
                       | SrcA n => Ok n end) ;;
                 rest <- go r (tl ns) ;; Ok (a :: rest) end) from fnames ;;
      js <- (fix go (l : list (jhow * source * jcond)) (ns : list (option string)) : res (list string) :=
               match l with [] => Ok [] | (h, s, cnd) :: r =>
                 a <- (match s with
                       | SrcT t => Ok (table_sql (ci true true) (src_ref s (hd None ns)))
                       | SrcQ y => rquery (with_c k (ci true true)) true true (hd None ns) y
                       | SrcA n => Ok n end) ;;
                 cn <- (match cnd with
                        | JOn i => b <- ritem kk srcs (ci false true) i ;; Ok (" ON " ++ b)
                        | JUsing fs => Ok (" USING (" ++ join "," (map (fq (q base)) fs) ++ ")")
                        | JCrossCond => Ok "" end) ;;
                 rest <- go r (tl ns) ;;
                 Ok ((jprefix h cnd ++ "JOIN " ++ a ++ cn) :: rest) end) joins jnames ;;
      wh <- opt_bind wheres (fun i => a <- ritem kk srcs (ci false true) i ;; Ok (" WHERE " ++ a)) ;;
      let selected_aliases := map item_alias selects in
      let alias_ref (y : item) : option string :=
          match item_alias y with
          | Some a => if truthy_ostr (Some a) && existsb (option_eqb String.eqb (Some a)) selected_aliases then Some a else None
          | None => None end in
      gb <- (match groupbys with
             | [] => Ok ""
             | _ => gs <- (fix go (l : list item) : res (list string) :=
                             match l with [] => Ok [] | y :: r =>
                               a <- (match (if k_gba k then alias_ref y else None) with
                                     | Some a => Ok (fq (or_ostr (aq base) (q base)) a)
                                     | None => ritem kk srcs (ci false clause_subq_groupby) y end) ;;
                               rest <- go r ;; Ok (a :: rest) end) groupbys ;;
                    Ok (" GROUP BY " ++ join "," gs) end) ;;
      hv <- opt_bind havings (fun i => a <- ritem kk srcs (ci false clause_subq_having) i ;; Ok (" HAVING " ++ a)) ;;
      ob <- (match orderbys with
             | [] => Ok ""
             | _ => os <- (fix go (l : list (item * option order)) : res (list string) :=
                             match l with [] => Ok [] | (y, d) :: r =>
                               a <- (match alias_ref y with
                                     | Some a => Ok (fq (or_ostr (aq base) (q base)) a)
                                     | None => ritem kk srcs (ci false clause_subq_orderby) y end) ;;
                               rest <- go r ;;
                               Ok ((match d with Some d' => a ++ " " ++ order_text d' | None => a end) :: rest) end) orderbys ;;
                    Ok (" ORDER BY " ++ join "," os) end) ;;
      let body := w ++ "SELECT " ++ (if distinct then "DISTINCT " else "") ++ join "," sel
                  ++ (match fr with [] => "" | _ => " FROM " ++ join "," fr end)
                  ++ (match js with [] => "" | _ => " " ++ join " " js end)
                  ++ wh ++ gb ++ hv ++ ob ++ page_tail c KSelect l o ++ (if fu then " FOR UPDATE" else "") in
      let body := paren subquery body in
      Ok (if walias then fmt_alias body ali (q base) (k_qaq k) (askw base) else body)
      end
  | QIns c into columns rows sel replace _ =>
      let k := defaults c kin in
      let base := set_wn (kc k) false in
      let kk := with_c k base in
      let head := (if replace then "REPLACE INTO " else "INSERT INTO ") ++ table_sql base into in
      cols <- (match columns with
               | [] => Ok ""
               | _ => cs <- render_list base (fold_right TCons TNil columns) ;; Ok (" (" ++ join "," cs ++ ")") end) ;;
      match rows, sel with
      | [], None => Ok ""
      | _ :: _, _ =>
          rs <- (fix go (l : list (list item)) : res (list string) :=
                   match l with [] => Ok [] | row :: r =>
                     vs <- (fix gov (l2 : list item) : res (list string) :=
                              match l2 with [] => Ok [] | y :: r2 =>
                                a <- ritem kk [] (set_subq (set_wa base false) true) y ;; rest <- gov r2 ;; Ok (a :: rest) end) row ;;
                     rest <- go r ;; Ok (join "," vs :: rest) end) rows ;;
          Ok (head ++ cols ++ " VALUES (" ++ join "),(" rs ++ ")")
      | [], Some y =>
          s <- rquery kk false false (qalias y) y ;;
          match s with
          | EmptyString => Ok ""
          | _ =>
            let body := paren subquery (head ++ cols ++ " " ++ s) in
            Ok (if walias then fmt_alias body ali (q base) (k_qaq k) (askw base) else body)
          end
      end
  | QUpd c tbl sets from joins wheres l =>
      let k := defaults c kin in
      let (fnames, n1) := name_from sub_count 0 from in
      let (jnames, _) := name_joins (tbl :: base_tables from) (tref_name tbl :: src_names from fnames) n1 joins in
      let srcs := (src_refs from fnames ++ src_refs (map (fun j => snd (fst j)) joins) jnames)%list in
      let in_scope (tb : tref) := existsb (tref_eqb tb) (tbl :: srcs) in
      let foreign := existsb (fun o => match o with Some tb => negb (in_scope (resolve_tref srcs tb)) | None => false end)
                             (match wheres with Some w => item_tables w | None => [] end) in
      let wns := negb (Nat.eqb (List.length joins) 0) || Nat.ltb 1 (List.length from)
                 || (match from with SrcQ y :: _ => is_builder y | _ => false end)
                 || foreign || negb (Nat.eqb (List.length from) 0) in
      let base := set_wn (kc k) wns in
      let kk := with_c k base in
      let src_sql (s : source) (n : option string) : res string :=
          match s with
          | SrcT t => Ok (table_sql base t)
          | SrcQ y => rquery (with_c k (set_subq (set_wa base true) true)) true true n y
          | SrcA nm => Ok nm end in
      match sets with
      | [] => Ok ""
      | _ =>
      js <- (fix go (l : list (jhow * source * jcond)) (ns : list (option string)) : res (list string) :=
               match l with [] => Ok [] | (h, s, cnd) :: r =>
                 a <- (match s with
                       | SrcT t => Ok (table_sql base (src_ref s (hd None ns)))
                       | SrcQ y => rquery (with_c k (set_subq (set_wa base true) true)) true true (hd None ns) y
                       | SrcA nm => Ok nm end) ;;
                 cn <- (match cnd with
                        | JOn i => b <- ritem kk srcs (set_subq (set_wa base false) true) i ;; Ok (" ON " ++ b)
                        | JUsing fs => Ok (" USING (" ++ join "," (map (fq (q base)) fs) ++ ")")
                        | JCrossCond => Ok "" end) ;;
                 rest <- go r (tl ns) ;;
                 Ok ((jprefix h cnd ++ "JOIN " ++ a ++ cn) :: rest) end) joins jnames ;;
      ss <- (fix go (l : list (term * item)) : res (list string) :=
               match l with [] => Ok [] | (f, v) :: r =>
                 a <- render (set_wn base false) f ;;
                 b <- ritem kk srcs (if clause_subq_setvalue then set_subq base true else base) v ;;
                 rest <- go r ;; Ok ((a ++ "=" ++ b) :: rest) end) sets ;;
      fr <- (fix go (l : list source) (ns : list (option string)) : res (list string) :=
               match l with [] => Ok [] | s :: r =>
                 a <- (match s with
                       | SrcT t => Ok (table_sql base t)
                       | SrcQ y => rquery (with_c k (set_subq (set_wa base true) true)) true true (hd None ns) y
                       | SrcA nm => Ok nm end) ;;
                 rest <- go r (tl ns) ;; Ok (a :: rest) end) from fnames ;;
      wh <- opt_bind wheres (fun i => a <- ritem kk srcs (set_subq base true) i ;; Ok (" WHERE " ++ a)) ;;
      Ok ((if cls_is_clickhouse c then "ALTER TABLE " else "UPDATE ") ++ table_sql base tbl
          ++ (match js with [] => "" | _ => " " ++ join " " js end)
          ++ (if cls_is_clickhouse c then " UPDATE " else " SET ") ++ join "," ss
          ++ (match fr with [] => "" | _ => " FROM " ++ join "," fr end)
          ++ wh ++ page_tail c KUpdate l None)
      end
  | QDel c from wheres =>
      let k := defaults c kin in
      let (fnames, _) := name_from sub_count 0 from in
      let srcs := src_refs from fnames in
      let in_scope (tb : tref) := existsb (tref_eqb tb) srcs in
      let foreign := existsb (fun o => match o with Some tb => negb (in_scope (resolve_tref srcs tb)) | None => false end)
                             (match wheres with Some w => item_tables w | None => [] end) in
      let wns := Nat.ltb 1 (List.length from) || (match from with SrcQ y :: _ => is_builder y | _ => false end) || foreign in
      let base := set_wn (kc k) wns in
      let kk := with_c k base in
      fr <- (fix go (l : list source) (ns : list (option string)) : res (list string) :=
               match l with [] => Ok [] | s :: r =>
                 a <- (match s with
                       | SrcT t => Ok (table_sql base t)
                       | SrcQ y => rquery (with_c k (set_subq (set_wa base true) true)) true true (hd None ns) y
                       | SrcA nm => Ok nm end) ;;
                 rest <- go r (tl ns) ;; Ok (a :: rest) end) from fnames ;;
      wh <- opt_bind wheres (fun i => a <- ritem kk srcs (set_subq base true) i ;; Ok (" WHERE " ++ a)) ;;
      let body := (if cls_is_clickhouse c
                   then "ALTER TABLE" ++ (match fr with [] => "" | _ => " " ++ join "," fr ++ " DELETE" end)
                   else "DELETE" ++ (match fr with [] => "" | _ => " FROM " ++ join "," fr end)) ++ wh in
      Ok (paren subquery body)
  | QSet base ops orderbys l o _ =>
      let bc := match base with QSel c _ _ _ _ _ _ _ _ _ _ _ _ _ => c | QIns c _ _ _ _ _ _ => c | QUpd c _ _ _ _ _ _ => c
                              | QDel c _ _ => c | QSet _ _ _ _ _ _ => CQuery end in
      (* _SetOperation.get_sql: every default comes from the base query's class (_set_kwargs_defaults) *)
      let k := defaults bc kin in
      let wrap := cls_wrap bc in
      b <- rquery k false wrap (qalias base) base ;;
      rest <- (fix go (l2 : list (setop * query)) : res (list string) :=
                 match l2 with [] => Ok [] | (so, y) :: r =>
                   a0 <- rquery k false wrap (qalias y) y ;;
                   (* operands are not parenthesised: a nested set operation keeps its grouping as a derived table *)
                   let a := match y with
                            | QSet _ _ _ _ _ _ => if wrap then a0 else "SELECT * FROM (" ++ a0 ++ ")"
                            | _ => a0 end in
                   (if Nat.eqb (nselects base) (nselects y) then
                      rs <- go r ;; Ok ((" " ++ setop_text so ++ " " ++ a) :: rs)
                    else Err "SetOperationException") end) ops ;;
      let c := kc k in
      let selected_aliases := match base with
                              | QSel _ _ _ sels _ _ _ _ _ _ _ _ _ _ => map item_alias sels
                              | _ => [] end in
      ob <- (match orderbys with
             | [] => Ok ""
             | _ => os <- (fix go (l2 : list (term * option order)) : res (list string) :=
                             match l2 with [] => Ok [] | (t, d) :: r =>
                               a <- (match term_alias t with
                                     | Some a => if truthy_ostr (Some a) && existsb (option_eqb String.eqb (Some a)) selected_aliases
                                                 then Ok (fq (or_ostr (aq c) (q c)) a) else render (set_wa c false) t
                                     | None => render (set_wa c false) t end) ;;
                               rs <- go r ;;
                               Ok ((match d with Some d' => a ++ " " ++ order_text d' | None => a end) :: rs) end) orderbys ;;
                    Ok (" ORDER BY " ++ join "," os) end) ;;
      (* the limit/offset are written by a fresh builder of the base query's class *)
      let body := b ++ sconcat rest ++ ob ++ page_tail bc KSelect l o in
      let body := paren subquery body in
      Ok (if walias then fmt_alias body ali (q c) (k_qaq k) (askw c) else body)
  end.

(* str(q) *)
Definition top_cls (x : query) : cls :=
  match x with
  | QSel c _ _ _ _ _ _ _ _ _ _ _ _ _ | QIns c _ _ _ _ _ _ | QUpd c _ _ _ _ _ _ | QDel c _ _ => c
  | QSet (QSel c _ _ _ _ _ _ _ _ _ _ _ _ _) _ _ _ _ _ => c
  | QSet _ _ _ _ _ _ => CQuery
  end.
Definition str_query (x : query) : res string := rquery (top_ctx (top_cls x)) false false (qalias x) x.
