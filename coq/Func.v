(* Func.v — model of pypika's function / aggregate / window wrappers (C18).  Definitions only.

   Code mirrored (pypika/terms.py, pypika/functions.py, pypika/analytics.py):
     Function.get_function_sql / get_sql / get_special_params_sql
     AggregateFunction.filter / get_filter_sql / get_function_sql          (FILTER)
     AnalyticFunction.over / orderby / get_partition_sql / get_function_sql (OVER)
     WindowFrameAnalyticFunction.Edge.__str__ / _set_frame_and_bounds / get_frame_sql / get_partition_sql
     IgnoreNullsAnalyticFunction.ignore_nulls / get_special_params_sql
     DistinctOptionFunction.get_function_sql  (the text splice)
     CustomFunction.__call__
     CurTimestamp.get_function_sql (bare name, no parentheses: a documented exception)

   A sub-query among them is rendered as one parenthesised unit in every position: arguments with subquery=True,
   and (since the C18 sub-query repair) the FILTER criterion, the PARTITION BY / ORDER BY terms and the field of
   EXTRACT(.. FROM ..) as well - the harness renders each part alone in exactly that way.
   Arguments, filter criteria, partition and order-by terms are OPAQUE, already rendered texts
   (their own rendering belongs to other properties); the harness takes them from the
   implementation.  What is modelled is everything the wrappers add around them.             *)
From PV Require Import Base.
Open Scope string_scope.

(* ------------------------------------------------------------------------------------------ *)
(* text helpers                                                                                *)
(* ------------------------------------------------------------------------------------------ *)
Fixpoint take (n : nat) (s : string) : string :=          (* Python s[:n] *)
  match n, s with
  | O, _ => ""
  | S n', String c r => String c (take n' r)
  | S _, EmptyString => ""
  end.
Fixpoint drop (n : nat) (s : string) : string :=          (* Python s[n:] *)
  match n, s with
  | O, _ => s
  | S n', String _ r => drop n' r
  | S _, EmptyString => ""
  end.

Definition strip_prefix (k s : string) : option string :=
  if prefix k s then Some (drop (String.length k) s) else None.

(* Some p when s = p ++ suf *)
Fixpoint strip_suffix (suf s : string) : option string :=
  if String.eqb s suf then Some ""
  else match s with
       | EmptyString => None
       | String c r => match strip_suffix suf r with Some p => Some (String c p) | None => None end
       end.

(* split at the first / at the last occurrence of a character *)
Fixpoint split_char (c : ascii) (s : string) : option (string * string) :=
  match s with
  | EmptyString => None
  | String a r =>
      if Ascii.eqb a c then Some ("", r)
      else match split_char c r with Some (p, q) => Some (String a p, q) | None => None end
  end.
Fixpoint split_last (c : ascii) (s : string) : option (string * string) :=
  match s with
  | EmptyString => None
  | String a r =>
      match split_last c r with
      | Some (p, q) => Some (String a p, q)
      | None => if Ascii.eqb a c then Some ("", r) else None
      end
  end.

Fixpoint nochar (c : ascii) (s : string) : bool :=
  match s with EmptyString => true | String a r => negb (Ascii.eqb a c) && nochar c r end.

Definition nonempty (s : string) : bool := match s with EmptyString => false | _ => true end.

(* ------------------------------------------------------------------------------------------ *)
(* parenthesis depth, "top level", keywords                                                    *)
(* ------------------------------------------------------------------------------------------ *)
Definition next (d : nat) (c : ascii) : nat :=
  if Ascii.eqb c "(" then S d else if Ascii.eqb c ")" then Nat.pred d else d.

(* balanced when read from depth d: never closes below level 0 and ends at level 0 *)
Fixpoint bal (d : nat) (s : string) : bool :=
  match s with
  | EmptyString => Nat.eqb d 0
  | String c r => if Nat.eqb d 0 && Ascii.eqb c ")" then false else bal (next d c) r
  end.
Definition balanced (s : string) : bool := bal 0 s.

(* balanced and without a comma at level 0 *)
Fixpoint top (d : nat) (s : string) : bool :=
  match s with
  | EmptyString => Nat.eqb d 0
  | String c r =>
      if Nat.eqb d 0 && (Ascii.eqb c "," || Ascii.eqb c ")") then false else top (next d c) r
  end.

(* a keyword W is met at s when s starts with " W " *)
Definition kwp (W s : string) : bool := prefix (String " " (W ++ " ")) s.
Definition kw_at (kws : list string) (s : string) : bool := existsb (fun W => kwp W s) kws.

(* no keyword of kws starts at level 0 inside s, not even when s is followed by a space *)
Fixpoint kwfree (kws : list string) (d : nat) (s : string) : bool :=
  match s with
  | EmptyString => true
  | String c r => negb (Nat.eqb d 0 && kw_at kws (s ++ " ")) && kwfree kws (next d c) r
  end.

Definition KW_SPECIAL : list string := ["AS"; "FROM"; "USING"; "IGNORE"].
Definition KW_PART : list string := ["ORDER"; "ROWS"; "RANGE"].
Definition KW_ORD : list string := ["ROWS"; "RANGE"].

(* The reader's list scanner: pieces separated by level-0 commas; stops (without consuming) at a level-0
   closing parenthesis, at a level-0 keyword of kws, or at the end of the text. *)
Fixpoint scan (kws : list string) (d : nat) (s : string) : list string * string :=
  match s with
  | EmptyString => ([""], "")
  | String c r =>
      if Nat.eqb d 0 && (Ascii.eqb c ")" || kw_at kws s) then ([""], s)
      else if Nat.eqb d 0 && Ascii.eqb c "," then
        let (ps, rest) := scan kws 0 r in ("" :: ps, rest)
      else
        match scan kws (next d c) r with
        | (p :: ps, rest) => (String c p :: ps, rest)
        | ([], rest) => ([String c ""], rest)
        end
  end.

(* ------------------------------------------------------------------------------------------ *)
(* descriptions                                                                                *)
(* ------------------------------------------------------------------------------------------ *)
Inductive dir := Preceding | Following.
(* the value handed to Preceding(v)/Following(v): an int, or anything else (float, Decimal, str) of which only
   str(value) - what "{value}".format writes - matters *)
Inductive offset := OInt (n : Z) | ORaw (s : string).
Inductive bound := BCurrentRow | BEdge (d : dir) (v : option offset). (* analytics.CURRENT_ROW | Preceding(v) / Following(v) *)
Inductive fkind := Rows | Range.
Inductive order := Asc | Desc.
Definition frame : Type := fkind * bound * option bound.

Definition dir_eqb (a b : dir) : bool := match a, b with Preceding, Preceding | Following, Following => true | _, _ => false end.
Definition order_eqb (a b : order) : bool := match a, b with Asc, Asc | Desc, Desc => true | _, _ => false end.
Definition fkind_eqb (a b : fkind) : bool := match a, b with Rows, Rows | Range, Range => true | _, _ => false end.
Definition offset_eqb (a b : offset) : bool :=
  match a, b with OInt n, OInt m => Z.eqb n m | ORaw s, ORaw t => String.eqb s t | _, _ => false end.
Definition bound_eqb (a b : bound) : bool :=
  match a, b with
  | BCurrentRow, BCurrentRow => true
  | BEdge d v, BEdge d' v' => dir_eqb d d' && option_eqb offset_eqb v v'
  | _, _ => false
  end.

(* a filter criterion: its text rendered alone (subcriterion=False) and whether it is a ComplexCriterion whose
   operator is not AND (OR / XOR at the top): ComplexCriterion.needs_brackets then parenthesises it inside
   the conjunction that Criterion.all builds *)
Definition crit : Type := bool * string.

Record func_desc := {
  fd_name : string;                              (* self.name *)
  fd_schema : option string;                     (* rendered self.schema *)
  fd_alias : option string;                      (* self.alias *)
  fd_special : option string;                    (* what get_special_params_sql returns *)
  fd_distinct : bool;                            (* DistinctOptionFunction._distinct *)
  fd_filters : list crit;                        (* AggregateFunction._filters *)
  fd_include_filter : bool;
  fd_partition : list string;                    (* AnalyticFunction._partition *)
  fd_orderbys : list (string * option order);    (* AnalyticFunction._orderbys *)
  fd_include_over : bool;
  fd_frame : option frame;                       (* WindowFrameAnalyticFunction.frame / .bound *)
  fd_bare : bool                                 (* get_function_sql overridden to the bare name (CurTimestamp) *)
}.

Definition plain_func (name : string) : func_desc :=
  {| fd_name := name; fd_schema := None; fd_alias := None; fd_special := None; fd_distinct := false;
     fd_filters := []; fd_include_filter := false; fd_partition := []; fd_orderbys := [];
     fd_include_over := false; fd_frame := None; fd_bare := false |}.

(* ------------------------------------------------------------------------------------------ *)
(* rendering                                                                                   *)
(* ------------------------------------------------------------------------------------------ *)
Definition dir_text (d : dir) : string := match d with Preceding => "PRECEDING" | Following => "FOLLOWING" end.
Definition order_text (o : order) : string := match o with Asc => "ASC" | Desc => "DESC" end.
Definition fkind_text (k : fkind) : string := match k with Rows => "ROWS" | Range => "RANGE" end.

(* Edge.__str__ : "{value} {modifier}" with value = "UNBOUNDED" if self.value is None else self.value *)
Definition offset_text (o : offset) : string := match o with OInt n => Z_to_string n | ORaw s => s end.
Definition render_edge (e : dir * option offset) : string :=
  (match snd e with None => "UNBOUNDED" | Some v => offset_text v end) ++ " " ++ dir_text (fst e).

Definition render_bound (b : bound) : string :=
  match b with BCurrentRow => "CURRENT ROW" | BEdge d v => render_edge (d, v) end.

(* get_frame_sql *)
Definition render_frame (f : frame) : string :=
  match f with
  | (k, b, None) => fkind_text k ++ " " ++ render_bound b
  | (k, lo, Some hi) => fkind_text k ++ " BETWEEN " ++ render_bound lo ++ " AND " ++ render_bound hi
  end.

(* AnalyticFunction._orderby_field *)
Definition render_orderby (o : string * option order) : string :=
  match snd o with None => fst o | Some d => fst o ++ " " ++ order_text d end.

(* AnalyticFunction.get_partition_sql : " ".join(terms) *)
Definition analytic_partition_sql (fd : func_desc) : string :=
  join " "
    ((match fd_partition fd with [] => [] | ps => ["PARTITION BY " ++ join "," ps] end) ++
     (match fd_orderbys fd with [] => [] | os => ["ORDER BY " ++ join "," (map render_orderby os)] end)).

(* WindowFrameAnalyticFunction.get_partition_sql *)
Definition partition_sql (fd : func_desc) : string :=
  match fd_frame fd with
  | None => analytic_partition_sql fd
  | Some f => analytic_partition_sql fd ++ " " ++ render_frame f
  end.

(* Function.get_function_sql : "{name}({args}{special})" *)
Definition base_function_sql (fd : func_desc) (args : list string) : string :=
  fd_name fd ++ "(" ++ join "," args ++
  (if truthy_ostr (fd_special fd) then " " ++ ostr (fd_special fd) else "") ++ ")".

(* Criterion.all(filters).get_sql(): one criterion is rendered as it is; several are folded with "and" into
   left-nested ComplexCriterions, which render flat, each member that needs brackets parenthesised *)
Definition crit_in_and (c : crit) : string := if fst c then "(" ++ snd c ++ ")" else snd c.
Definition filters_text (fs : list crit) : string :=
  match fs with
  | [c] => snd c
  | _ => join " AND " (map crit_in_and fs)
  end.

(* AggregateFunction.get_filter_sql: "WHERE " + Criterion.all(filters).get_sql(kwargs);
   Criterion.all([]) is the EmptyCriterion whose get_sql takes no keyword arguments: TypeError *)
Definition filter_sql (fd : func_desc) : res string :=
  match fd_filters fd with
  | [] => Err "TypeError"
  | fs => Ok ("WHERE " ++ filters_text fs)
  end.

(* AggregateFunction.get_function_sql *)
Definition aggregate_function_sql (fd : func_desc) (args : list string) : res string :=
  let sql := base_function_sql fd args in
  if fd_include_filter fd then
    match filter_sql fd with Ok f => Ok (sql ++ " FILTER(" ++ f ++ ")") | Err e => Err e end
  else Ok sql.

(* AnalyticFunction.get_function_sql *)
Definition analytic_function_sql (fd : func_desc) (args : list string) : res string :=
  match aggregate_function_sql fd args with
  | Err e => Err e
  | Ok sql => Ok (if fd_include_over fd then sql ++ " OVER(" ++ partition_sql fd ++ ")" else sql)
  end.

(* DistinctOptionFunction.get_function_sql : n = len(self.name) + 1 ; s[:n] + "DISTINCT " + s[n:] *)
Definition splice (s : string) (n : nat) : string := take n s ++ "DISTINCT " ++ drop n s.

Definition function_sql (fd : func_desc) (args : list string) : res string :=
  if fd_bare fd then Ok (fd_name fd) else
  match analytic_function_sql fd args with
  | Err e => Err e
  | Ok s => Ok (if fd_distinct fd then splice s (String.length (fd_name fd) + 1) else s)
  end.

(* keyword arguments of get_sql that matter to the wrapper itself *)
Record ropts := {
  ro_with_alias : bool;
  ro_quote : option string;          (* quote_char *)
  ro_alias_quote : option string;    (* alias_quote_char *)
  ro_as_keyword : bool
}.

(* Function.get_sql *)
Definition get_sql (o : ropts) (fd : func_desc) (args : list string) : res string :=
  match function_sql fd args with
  | Err e => Err e
  | Ok s =>
      let s1 := match fd_schema fd with Some sc => sc ++ "." ++ s | None => s end in
      Ok (if ro_with_alias o then fmt_alias s1 (fd_alias fd) (ro_quote o) (ro_alias_quote o) (ro_as_keyword o) else s1)
  end.

(* CustomFunction.__call__ : without declared params the call arguments are passed through;
   with declared params a different count raises FunctionException *)
Definition custom_call (params : option (list string)) (args : list string) : res (list string) :=
  match params with
  | None => Ok args
  | Some ps => if Nat.eqb (List.length args) (List.length ps) then Ok args else Err "FunctionException"
  end.

(* WindowFrameAnalyticFunction._set_frame_and_bounds (bounds are Edge objects or CURRENT_ROW: always truthy);
   a frame switches the OVER clause on *)
Definition set_frame (fd : func_desc) (k : fkind) (b : bound) (ab : option bound) : res func_desc :=
  match fd_frame fd with
  | Some _ => Err "AttributeError"
  | None =>
      Ok {| fd_name := fd_name fd; fd_schema := fd_schema fd; fd_alias := fd_alias fd; fd_special := fd_special fd;
            fd_distinct := fd_distinct fd; fd_filters := fd_filters fd; fd_include_filter := fd_include_filter fd;
            fd_partition := fd_partition fd; fd_orderbys := fd_orderbys fd; fd_include_over := true;
            fd_frame := Some (k, b, ab); fd_bare := fd_bare fd |}
  end.

(* ------------------------------------------------------------------------------------------ *)
(* the reader                                                                                  *)
(* ------------------------------------------------------------------------------------------ *)
Record window_ast := {
  wa_partition : list string;
  wa_order : list (string * option order);
  wa_frame : option frame
}.
Record call_ast := {
  a_schema : option string;
  a_name : string;
  a_distinct : bool;
  a_args : list string;
  a_special : option string;
  a_filter : option string;          (* the criterion text after FILTER(WHERE *)
  a_over : option window_ast;
  a_tail : option string             (* whatever follows the call after one space (the alias) *)
}.

(* a frame bound: number or UNBOUNDED, then the modifier *)
Definition is_int_text (s : string) : bool :=
  match Z_of_string s with Some z => String.eqb (Z_to_string z) s | None => false end.
Definition num_start_char (c : ascii) : bool :=
  existsb (Ascii.eqb c) ["-"; "+"; "."; "0"; "1"; "2"; "3"; "4"; "5"; "6"; "7"; "8"; "9"]%char.
(* a non-integer numeral as str() writes it: starts like a number, one word, no parentheses *)
Definition raw_ok (s : string) : bool :=
  negb (is_int_text s) && match s with String c _ => num_start_char c | EmptyString => false end
  && nochar " " s && nochar "(" s && nochar ")" s.
Definition parse_edge_tok (tok : string) : option (option offset) :=
  match Z_of_string tok with
  | Some z => if String.eqb (Z_to_string z) tok then Some (Some (OInt z))
              else if raw_ok tok then Some (Some (ORaw tok)) else None
  | None => if String.eqb tok "UNBOUNDED" then Some None
            else if raw_ok tok then Some (Some (ORaw tok)) else None
  end.
Definition parse_dir (s : string) : option (dir * string) :=
  match strip_prefix "PRECEDING" s with
  | Some r => Some (Preceding, r)
  | None => match strip_prefix "FOLLOWING" s with Some r => Some (Following, r) | None => None end
  end.
Definition parse_bound (s : string) : option (bound * string) :=
  match strip_prefix "CURRENT ROW" s with
  | Some r => Some (BCurrentRow, r)
  | None =>
      match split_char " " s with
      | Some (tok, r) =>
          match parse_edge_tok tok, parse_dir r with
          | Some v, Some (d, r') => Some (BEdge d v, r')
          | _, _ => None
          end
      | None => None
      end
  end.

(* what an edge text denotes: (modifier, number) ; None = not an edge text *)
Definition denote_edge (s : string) : option (dir * option offset) :=
  match parse_bound s with
  | Some (BEdge d v, EmptyString) => Some (d, v)
  | _ => None
  end.

Definition parse_fkind (s : string) : option (fkind * string) :=
  match strip_prefix "ROWS " s with
  | Some r => Some (Rows, r)
  | None => match strip_prefix "RANGE " s with Some r => Some (Range, r) | None => None end
  end.

Definition parse_frame (s : string) : option (frame * string) :=
  match parse_fkind s with
  | None => None
  | Some (k, r) =>
      match strip_prefix "BETWEEN " r with
      | Some r1 =>
          match parse_bound r1 with
          | Some (lo, r2) =>
              match strip_prefix " AND " r2 with
              | Some r3 => match parse_bound r3 with Some (hi, r4) => Some ((k, lo, Some hi), r4) | None => None end
              | None => None
              end
          | None => None
          end
      | None => match parse_bound r with Some (b, r') => Some ((k, b, None), r') | None => None end
      end
  end.

Definition parse_orderby (s : string) : string * option order :=
  match strip_suffix " ASC" s with
  | Some t => (t, Some Asc)
  | None => match strip_suffix " DESC" s with Some t => (t, Some Desc) | None => (s, None) end
  end.

(* the three stages of the window reader; s = text after "OVER(" *)
Definition parse_part (s : string) : bool * list string * string :=
  match strip_prefix "PARTITION BY " s with
  | Some r => let (ps, s1) := scan KW_PART 0 r in (true, ps, s1)
  | None => (false, [], s)
  end.
Definition parse_ord (has_p : bool) (s1 : string) : list (string * option order) * string :=
  match strip_prefix (if has_p then " ORDER BY " else "ORDER BY ") s1 with
  | Some r => let (os, s2) := scan KW_ORD 0 r in (map parse_orderby os, s2)
  | None => ([], s1)
  end.
(* optional frame, then the closing parenthesis *)
Definition parse_ftail (s2 : string) : option (option frame * string) :=
  match strip_prefix ")" s2 with
  | Some rest => Some (None, rest)
  | None =>
      match strip_prefix " " s2 with
      | None => None
      | Some s3 =>
          match parse_frame s3 with
          | None => None
          | Some (f, s4) => match strip_prefix ")" s4 with Some rest => Some (Some f, rest) | None => None end
          end
      end
  end.
Definition parse_window (s : string) : option (window_ast * string) :=
  let '(has_p, ps, s1) := parse_part s in
  let '(os, s2) := parse_ord has_p s1 in
  match parse_ftail s2 with
  | Some (f, rest) => Some ({| wa_partition := ps; wa_order := os; wa_frame := f |}, rest)
  | None => None
  end.

(* one opaque, comma-free text up to the closing parenthesis *)
Definition parse_single (s : string) : option (string * string) :=
  match scan [] 0 s with
  | ([p], r) => match strip_prefix ")" r with Some rest => Some (p, rest) | None => None end
  | _ => None
  end.

(* stages of the call reader *)
Definition parse_qname (qname : string) : option string * string :=
  match split_last "." qname with Some (sc, n) => (Some sc, n) | None => (None, qname) end.
Definition parse_distinct (r0 : string) : bool * string :=
  match strip_prefix "DISTINCT " r0 with Some r => (true, r) | None => (false, r0) end.
Definition parse_args (r1 : string) : list string * string :=
  let (pieces, r2) := scan KW_SPECIAL 0 r1 in
  (match pieces with [EmptyString] => [] | _ => pieces end, r2).
Definition parse_special (r2 : string) : option (option string * string) :=
  match strip_prefix ")" r2 with
  | Some r3 => Some (None, r3)
  | None => match strip_prefix " " r2 with
            | Some r => match parse_single r with Some (sp, r3) => Some (Some sp, r3) | None => None end
            | None => None
            end
  end.
Definition parse_filter (r3 : string) : option (option string * string) :=
  match strip_prefix " FILTER(WHERE " r3 with
  | Some r => match parse_single r with Some (c, r4) => Some (Some c, r4) | None => None end
  | None => Some (None, r3)
  end.
Definition parse_over (r4 : string) : option (option window_ast * string) :=
  match strip_prefix " OVER(" r4 with
  | Some r => match parse_window r with Some (w, r5) => Some (Some w, r5) | None => None end
  | None => Some (None, r4)
  end.
Definition parse_tail (r5 : string) : option (option string) :=
  match r5 with
  | EmptyString => Some None
  | String c t => if Ascii.eqb c " " then Some (Some t) else None
  end.

Definition parse_call (s : string) : option call_ast :=
  match split_char "(" s with
  | None => None
  | Some (qname, r0) =>
      let (schema, name) := parse_qname qname in
      let (distinct, r1) := parse_distinct r0 in
      let (args, r2) := parse_args r1 in
      match parse_special r2 with
      | None => None
      | Some (special, r3) =>
          match parse_filter r3 with
          | None => None
          | Some (filter, r4) =>
              match parse_over r4 with
              | None => None
              | Some (over, r5) =>
                  match parse_tail r5 with
                  | None => None
                  | Some tail =>
                      Some {| a_schema := schema; a_name := name; a_distinct := distinct; a_args := args;
                              a_special := special; a_filter := filter; a_over := over; a_tail := tail |}
                  end
              end
          end
      end
  end.

(* ------------------------------------------------------------------------------------------ *)
(* well-formedness predicates (boolean: something provably satisfies them)                     *)
(* ------------------------------------------------------------------------------------------ *)
(* an argument text: balanced, no level-0 comma, no level-0 special keyword, not starting with the
   DISTINCT keyword, not empty *)
Definition arg_ok (a : string) : bool :=
  top 0 a && kwfree KW_SPECIAL 0 a && negb (prefix "DISTINCT " (a ++ " ")) && nonempty a.

Definition name_ok (n : string) : bool := nonempty n && nochar "(" n && nochar ")" n && nochar "." n.
Definition schema_ok (o : option string) : bool :=
  match o with None => true | Some sc => nochar "(" sc && nochar ")" sc end.
Definition special_ok (o : option string) : bool :=
  match o with
  | None => true
  | Some EmptyString => true
  | Some sp => top 0 sp && kw_at KW_SPECIAL (" " ++ sp)
  end.
Definition part_ok (p : string) : bool := top 0 p && kwfree KW_PART 0 p && nonempty p.
Definition ord_ok (o : string * option order) : bool :=
  let t := fst o in
  top 0 t && kwfree KW_ORD 0 t && nonempty t
  && negb (is_some (strip_suffix " ASC" t)) && negb (is_some (strip_suffix " DESC" t)).
Definition filter_ok (f : crit) : bool := top 0 (snd f).
Definition offset_ok (v : option offset) : bool := match v with Some (ORaw s) => raw_ok s | _ => true end.
Definition bound_ok (b : bound) : bool := match b with BCurrentRow => true | BEdge _ v => offset_ok v end.
Definition frame_ok (f : option frame) : bool :=
  match f with
  | None => true
  | Some (_, lo, hi) => bound_ok lo && match hi with Some b => bound_ok b | None => true end
  end.

(* the alias part must not look like a clause *)
Definition tail_text (o : ropts) (fd : func_desc) : option string :=
  if ro_with_alias o then
    match fd_alias fd with
    | None => None
    | Some a => Some ((if ro_as_keyword o then "AS " else "") ++ fq (or_ostr (ro_alias_quote o) (ro_quote o)) a)
    end
  else None.
Definition tail_ok (t : option string) : bool :=
  match t with None => true | Some x => negb (prefix "FILTER(WHERE " x) && negb (prefix "OVER(" x) end.

(* texts are well formed (no condition on which clauses are combined) *)
Definition texts_ok (fd : func_desc) : bool :=
  name_ok (fd_name fd) && schema_ok (fd_schema fd) && special_ok (fd_special fd)
  && forallb filter_ok (fd_filters fd) && forallb part_ok (fd_partition fd) && forallb ord_ok (fd_orderbys fd)
  && frame_ok (fd_frame fd) && negb (fd_bare fd).

(* the states the clause methods can reach when every filter() call that passes criteria passes at least one
   non-empty criterion: a requested FILTER has at least one criterion, a frame comes with the OVER clause *)
Definition combo_ok (fd : func_desc) : bool :=
  (negb (fd_include_filter fd) || match fd_filters fd with [] => false | _ => true end)
  && (negb (is_some (fd_frame fd)) || fd_include_over fd).

(* what the text must read back as: every requested part, once, in order *)
Definition expected_ast (o : ropts) (fd : func_desc) (args : list string) : call_ast :=
  {| a_schema := fd_schema fd;
     a_name := fd_name fd;
     a_distinct := fd_distinct fd;
     a_args := args;
     a_special := if truthy_ostr (fd_special fd) then fd_special fd else None;
     a_filter := if fd_include_filter fd then Some (filters_text (fd_filters fd)) else None;
     a_over := if fd_include_over fd || is_some (fd_frame fd)
               then Some {| wa_partition := fd_partition fd; wa_order := fd_orderbys fd; wa_frame := fd_frame fd |}
               else None;
     a_tail := tail_text o fd |}.

(* ------------------------------------------------------------------------------------------ *)
(* wrapper catalogue (filled by extraction: coq/gen/C18Table.v)                                *)
(* ------------------------------------------------------------------------------------------ *)
(* how a constructor parameter was probed *)
Inductive pkind := PTerm | PWord | PNum | PEnum.
Definition pkind_eqb (a b : pkind) : bool :=
  match a, b with PTerm, PTerm | PWord, PWord | PNum, PNum | PEnum, PEnum => true | _, _ => false end.

(* one rendered argument position: the k-th constructor argument, a constant the wrapper adds,
   or something that contains a constructor argument but is not exactly its text *)
Inductive slot := SParam (k : nat) | SConst (text : string) | SMangled (text : string).
Definition slot_eqb (a b : slot) : bool :=
  match a, b with
  | SParam i, SParam j => Nat.eqb i j
  | SConst s, SConst t => String.eqb s t
  | SMangled s, SMangled t => String.eqb s t
  | _, _ => false
  end.

Record probe := {
  p_kinds : list pkind;                    (* one per constructor argument passed *)
  p_slots : list slot;                     (* Function.args after construction *)
  p_special : option (string * option nat) (* get_special_params_sql = prefix [++ text of argument k] *)
}.
Definition probe_eqb (a b : probe) : bool :=
  list_eqb pkind_eqb (p_kinds a) (p_kinds b) && list_eqb slot_eqb (p_slots a) (p_slots b)
  && option_eqb (fun x y => String.eqb (fst x) (fst y) && option_eqb Nat.eqb (snd x) (snd y)) (p_special a) (p_special b).

Record wrapper := {
  w_module : string;
  w_class : string;
  w_sql : string;            (* SQL name; "" for the generic bases whose name is a constructor argument *)
  w_named : bool;            (* first constructor argument is the SQL name *)
  w_agg : bool;              (* supports filter()   (AggregateFunction) *)
  w_distinct : bool;         (* supports distinct() (DistinctOptionFunction) *)
  w_analytic : bool;         (* supports over()/orderby() *)
  w_frame : bool;            (* supports rows()/range() *)
  w_ignore_nulls : bool;     (* supports ignore_nulls() *)
  w_schema : bool;           (* constructor accepts schema= *)
  w_alias : bool;            (* constructor accepts alias= *)
  w_bare : bool;             (* overrides get_function_sql: bare name *)
  w_probes : list probe
}.
Definition wrapper_eqb (a b : wrapper) : bool :=
  String.eqb (w_module a) (w_module b) && String.eqb (w_class a) (w_class b) && String.eqb (w_sql a) (w_sql b)
  && Bool.eqb (w_named a) (w_named b) && Bool.eqb (w_agg a) (w_agg b) && Bool.eqb (w_distinct a) (w_distinct b)
  && Bool.eqb (w_analytic a) (w_analytic b) && Bool.eqb (w_frame a) (w_frame b)
  && Bool.eqb (w_ignore_nulls a) (w_ignore_nulls b) && Bool.eqb (w_schema a) (w_schema b)
  && Bool.eqb (w_alias a) (w_alias b) && Bool.eqb (w_bare a) (w_bare b)
  && list_eqb probe_eqb (w_probes a) (w_probes b).

(* the constructor-argument indices in the order in which they appear in the text:
   the argument list first, the special clause last *)
Definition slot_param (s : slot) : list nat := match s with SParam k => [k] | _ => [] end.
Definition param_seq (p : probe) : list nat :=
  flat_map slot_param (p_slots p) ++ match p_special p with Some (_, Some k) => [k] | _ => [] end.

(* texts of the argument list / special clause for constructor-argument texts ts *)
Definition slot_text (ts : list string) (s : slot) : string :=
  match s with SParam k => nth k ts "" | SConst t => t | SMangled t => t end.
Definition inst_args (p : probe) (ts : list string) : list string := map (slot_text ts) (p_slots p).
Definition inst_special (p : probe) (ts : list string) : option string :=
  match p_special p with
  | Some (pre, Some k) => Some (pre ++ nth k ts "")
  | Some (pre, None) => Some pre
  | None => None
  end.

Definition slot_ok (s : slot) : bool :=
  match s with SParam _ => true | SConst t => arg_ok t | SMangled _ => false end.

(* identity permutation: every constructor argument exactly once, in call order *)
Definition probe_ok (p : probe) : bool :=
  list_eqb Nat.eqb (param_seq p) (seq 0 (List.length (p_kinds p)))
  && forallb slot_ok (p_slots p)
  && match p_special p with
     | None => true
     | Some (pre, _) => nonempty pre && top 0 pre && kw_at KW_SPECIAL (" " ++ pre)
     end.

(* the generic shape: name(args [special]) with every constructor argument once, in order;
   the bare form is an exception that has to be listed *)
Definition wrapper_ok (w : wrapper) : bool :=
  negb (w_bare w) && (w_named w || name_ok (w_sql w)) && forallb probe_ok (w_probes w)
  && match w_probes w with [] => false | _ => true end.

(* the one documented exception: CURRENT_TIMESTAMP takes no arguments and no parentheses *)
Definition bare_ok (w : wrapper) : bool :=
  w_bare w && name_ok (w_sql w)
  && list_eqb probe_eqb (w_probes w) [{| p_kinds := []; p_slots := []; p_special := None |}].

Fixpoint lookup_wrapper (m c : string) (l : list wrapper) : option wrapper :=
  match l with
  | [] => None
  | w :: r => if String.eqb (w_module w) m && String.eqb (w_class w) c then Some w else lookup_wrapper m c r
  end.
