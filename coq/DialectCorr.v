(* DialectCorr.v — correspondence entry points for C07 (definitions only).
   A case = (re-labelling, explicit kwargs, statement, text produced by pypika).  The token model's text must equal
   pypika's; when the statement is rendered as labelled it must also equal the shared string model (Query.v). *)
From PV Require Import Base Crit gen.TermsTable Terms Page gen.QueryTable Query QueryCorr Dialect.

Definition FUEL : nat := 48.
Definition res_text (r : res (list dtok)) : string := match r with Ok ts => tflat ts | Err e => "!" ++ e end.
Definition sres_text (r : res string) : string := match r with Ok s => s | Err e => "!" ++ e end.

Definition dcase := (option cls * option kwargs * query * string)%type.

Definition model_toks (o : option cls) (kw : option kwargs) (x : query) : res (list dtok) :=
  match kw with
  | None => str_toks (relabel o) FUEL x
  | Some k => kw_toks (relabel o) FUEL k x
  end.
Definition model_text (o : option cls) (kw : option kwargs) (x : query) : string := res_text (model_toks o kw x).
Definition shared_text (kw : option kwargs) (x : query) : string :=
  match kw with
  | None => query_text x
  | Some k => sres_text (rquery (kw_ctx (fun c => c) k x) false false (qalias x) x)
  end.

Definition check_case (c : dcase) : bool :=
  let '(o, kw, x, expected) := c in
  String.eqb (model_text o kw x) expected
  && match o with None => String.eqb (shared_text kw x) expected | Some _ => true end.
Definition show_case (c : dcase) : string :=
  let '(o, kw, x, _) := c in model_text o kw x.
