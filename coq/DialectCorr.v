(* DialectCorr.v — correspondence entry points for C07 (definitions only).
   A case = (re-labelling, explicit kwargs, statement, text produced by pypika).  The token model's text must equal
   pypika's; when the statement is rendered as labelled it must also equal the shared string model (Query.v). *)
From PV Require Import Base Crit gen.TermsTable Terms Page gen.QueryTable Query QueryCorr Dialect.

Definition FUEL : nat := 48.
Definition res_text (r : res (list dtok)) : string := match r with Ok ts => tflat ts | Err e => "!" ++ e end.
Definition sres_text (r : res string) : string := match r with Ok s => s | Err e => "!" ++ e end.

Definition dcase := (option cls * option kwargs * query * string)%type.

Definition model_toks (o : option cls) (kw : option kwargs) (x : query) : res (list dtok) :=
  match kw with
  | None => str_toks (relabel o) FUEL x
  | Some k => kw_toks (relabel o) FUEL k x
  end.
Definition model_text (o : option cls) (kw : option kwargs) (x : query) : string := res_text (model_toks o kw x).
Definition shared_text (kw : option kwargs) (x : query) : string :=
  match kw with
  | None => query_text x
  | Some k => sres_text (rquery (kw_ctx (fun c => c) k x) false false (qalias x) x)
  end.

Definition check_case (c : dcase) : bool :=
  let '(o, kw, x, expected) := c in
  String.eqb (model_text o kw x) expected
  && match o with None => String.eqb (shared_text kw x) expected | Some _ => true end.
Definition show_case (c : dcase) : string :=
  let '(o, kw, x, _) := c in model_text o kw x.

(* ---- witnesses used by props/C07.v (generated from the corpus specs of harness/props/C07.py together with the text
   pypika prints for them; the same specs are run on every check) ---- *)
Definition w_fn_alias : query := (QSel CSnowflake [] false [(IFunc "COALESCE" [(ISub (QSel CQuery [] false [(IT (TField "b" None (Some "bb")))] [(SrcT {| tname := "u"; tschema := []; talias := None |})] [] None None [] [] None None false None)); (IT (TValI (1)%Z None))] None)] [(SrcT {| tname := "t"; tschema := []; talias := None |})] [] None None [] [] None None false None).
Definition w_fn_alias_text : string := "SELECT COALESCE((SELECT b ""bb"" FROM u),1) FROM t".
Definition w_fn_as : query := (QSel CQuery [] false [(IFunc "COALESCE" [(ISub (QSel CClickHouse [] false [(IT (TField "b" None (Some "bb")))] [(SrcT {| tname := "u"; tschema := []; talias := None |})] [] None None [] [] None None false None)); (IT (TValI (1)%Z None))] None)] [(SrcT {| tname := "t"; tschema := []; talias := None |})] [] None None [] [] None None false None).
Definition w_fn_as_text : string := "SELECT COALESCE((SELECT ""b"" ""bb"" FROM ""u""),1) FROM ""t""".
Definition w_qalias : query := (QSel CMySQL [] false [(IT (TStar None))] [(SrcQ (QSel CPostgreSQL [] false [(IT (TField "b" None None))] [(SrcT {| tname := "u"; tschema := []; talias := None |})] [] None None [] [] None None false (Some "s")))] [] None None [] [] None None false None).
Definition w_qalias_text : string := "SELECT * FROM (SELECT `b` FROM `u`) `s`".
Definition w_setop_mixed : query := (QSet (QSel CMySQL [] false [(IT (TField "a" None (Some "x")))] [(SrcT {| tname := "t"; tschema := []; talias := None |})] [] None None [] [] None None false None) [(SUnion, (QSel CPostgreSQL [] false [(IT (TField "b" None (Some "y")))] [(SrcT {| tname := "u"; tschema := []; talias := None |})] [] None None [] [] None None false None))] [] None None None).
Definition w_setop_mixed_text : string := "(SELECT `a` `x` FROM `t`) UNION (SELECT `b` `y` FROM `u`)".
Definition w_cte : query := (QSel CMySQL [("cte", (QSel CMySQL [] false [(IT (TField "b" None None))] [(SrcT {| tname := "u"; tschema := []; talias := None |})] [] None None [] [] None None false None))] false [(IT (TStar None))] [(SrcA "cte")] [] None None [] [] None None false None).
Definition w_cte_text : string := "WITH cte AS (SELECT `b` FROM `u`) SELECT * FROM cte".
Definition w_crit_alias : query := (QSel CQuery [] false [(IT (TBasic CEq (TField "a" None None) (TField "b" None None) (Some "crit")))] [(SrcT {| tname := "t"; tschema := []; talias := None |})] [] None None [] [] None None false None).
Definition w_crit_alias_text : string := "SELECT ""a""=""b"" ""crit"" FROM ""t""".
Definition w_setop_order : query := (QSet (QSel CSnowflake [] false [(IT (TField "a" None (Some "x")))] [(SrcT {| tname := "t"; tschema := []; talias := None |})] [] None None [] [] None None false None) [(SUnion, (QSel CSnowflake [] false [(IT (TField "b" None (Some "x")))] [(SrcT {| tname := "u"; tschema := []; talias := None |})] [] None None [] [] None None false None))] [((TField "a" None (Some "x")), None)] None None None).
Definition w_setop_order_text : string := "(SELECT a ""x"" FROM t) UNION (SELECT b ""x"" FROM u) ORDER BY ""x""".
Definition w_fn_gba : query := (QSel COracle [] false [(IFunc "COALESCE" [(ISub (QSel CQuery [] false [(IT (TField "b" None (Some "bb")))] [(SrcT {| tname := "u"; tschema := []; talias := None |})] [] None None [(IT (TField "b" None (Some "bb")))] [] None None false None)); (IT (TValI (1)%Z None))] None)] [(SrcT {| tname := "t"; tschema := []; talias := None |})] [] None None [] [] None None false None).
Definition w_fn_gba_text : string := "SELECT COALESCE((SELECT b bb FROM u GROUP BY b),1) FROM t".
Definition w_fn_literal : query := (QSel CQuery [] false [(IT (TFunc "COALESCE" (TCons (TField "a" None None) (TCons (TValS "x" None) TNil)) None None)); (IT (TValS "y" None))] [(SrcT {| tname := "t"; tschema := []; talias := None |})] [] None None [] [] None None false None).
Definition w_fn_literal_text : string := "SELECT COALESCE(`a`,""x""),""y"" FROM `t`".
Definition w_fn_term_alias : query := (QSel CSnowflake [] false [(IT (TFunc "COALESCE" (TCons (TValS "x" (Some "y")) (TCons (TValI (1)%Z None) TNil)) None None)); (IT (TValS "x" (Some "y")))] [(SrcT {| tname := "t"; tschema := []; talias := None |})] [] None None [] [] None None false None).
Definition w_fn_term_alias_text : string := "SELECT COALESCE('x' ""y"",1),'x' ""y"" FROM t".
Definition w_qualifier : query := (QSel CSnowflake [] false [(IT (TField "a" (Some {| tname := "#0"; tschema := []; talias := None |}) None))] [(SrcT {| tname := "t"; tschema := []; talias := (Some "ta") |})] [] None None [] [] None None false None).
Definition w_qualifier_text : string := "SELECT ta.a FROM t ""ta""".
Definition w_setop_alias : query := (QSel CSnowflake [] false [(IT (TField "a" (Some {| tname := "#0"; tschema := []; talias := None |}) None))] [(SrcQ (QSet (QSel CSnowflake [] false [(IT (TField "a" None None))] [(SrcT {| tname := "t"; tschema := []; talias := None |})] [] None None [] [] None None false None) [(SUnion, (QSel CSnowflake [] false [(IT (TField "a" None None))] [(SrcT {| tname := "u"; tschema := []; talias := None |})] [] None None [] [] None None false None))] [] None None (Some "su")))] [] None None [] [] None None false None).
Definition w_setop_alias_text : string := "SELECT su.a FROM ((SELECT a FROM t) UNION (SELECT a FROM u)) su".
Definition p_nested : query := (QSel CMySQL [] false [(IT (TField "a" (Some {| tname := "#0"; tschema := []; talias := None |}) (Some "al"))); (IT (TCase (WCons (TBasic CGt (TField "a" (Some {| tname := "#0"; tschema := []; talias := None |}) None) (TValI (1)%Z None) None) (TValS "big" None) WNil) (OSome (TValS "small" None)) (Some "sz")))] [(SrcT {| tname := "t"; tschema := []; talias := None |}); (SrcQ (QSel CVertica [] false [(IT (TField "b" (Some {| tname := "#0"; tschema := []; talias := None |}) (Some "bb"))); (IT (TFunc "F" (TCons (TField "c" (Some {| tname := "#1"; tschema := []; talias := None |}) None) TNil) None None))] [(SrcT {| tname := "u"; tschema := []; talias := None |}); (SrcQ (QSel COracle [] false [(IT (TField "c" None (Some "cc")))] [(SrcT {| tname := "v"; tschema := []; talias := None |})] [] (Some (IT (TBasic CEq (TField "c" None None) (TValS "it's" None) None))) None [] [] None None false None))] [] None None [] [] None None false None))] [(JLeft, (SrcQ (QSel CSnowflake [] false [(IT (TField "d" None None))] [(SrcT {| tname := "w"; tschema := []; talias := None |})] [] None None [] [] None None false None)), (JOn (IT (TBasic CEq (TField "a" (Some {| tname := "#0"; tschema := []; talias := None |}) None) (TField "d" (Some {| tname := "#2"; tschema := []; talias := None |}) None) None))))] (Some (IIn (TField "a" (Some {| tname := "#0"; tschema := []; talias := None |}) None) (QSel CClickHouse [] false [(IT (TField "e" None None))] [(SrcT {| tname := "z"; tschema := []; talias := None |})] [] None None [] [] None None false None) false)) None [(IT (TField "a" (Some {| tname := "#0"; tschema := []; talias := None |}) (Some "al")))] [] (Some (3)%Z) None false None).
Definition p_nested_text : string := "SELECT `t`.`a` `al`,CASE WHEN `t`.`a`>1 THEN 'big' ELSE 'small' END `sz` FROM `t`,(SELECT `u`.`b` `bb`,F(`sq0`.`c`) FROM `u`,(SELECT `c` `cc` FROM `v` WHERE `c`='it''s') `sq0`) `sq1` LEFT JOIN (SELECT `d` FROM `w`) `sq2` ON `t`.`a`=`sq2`.`d` WHERE `t`.`a` IN (SELECT `e` FROM `z`) GROUP BY `al` LIMIT 3".
Definition w_fn_literal_kw : kwargs := {| kw_q := Some (Some "`"); kw_rest := Some (Some """", None, false) |}.
Definition rid : cls -> cls := fun c => c.
Definition toks_of (x : query) : list dtok := match str_toks rid FUEL x with Ok ts => ts | Err _ => [] end.
Definition strict_ok (x : query) : bool :=
  let c := top_cls_r rid x in
  forallb (strict_tokb {| v_q := cls_q c; v_sq := cls_sq c; v_aq := cls_aq c; v_as := cls_askw c; v_qa := qalias_quote c; v_abs := false |} (qalias_quote c)) (toks_of x).
