(* C20Corr.v — executable interpreter for the C20 correspondence cases. Definitions only. *)
From PV Require Import Base Interval Json.

Inductive c20case :=
(* Interval(years..microseconds, quarters, weeks, dialect=dc).get_sql(dialect=dr) = out *)
| CInterval (vals : list Z) (q w : Z) (dc dr : option dialect) (out : string)
(* Interval.trim_pattern.sub("", s) = out *)
| CTrim (s out : string)
(* the harness' independent reader of interval expressions agrees with read_interval *)
| CRead (u e : string) (rd : option (bool * list Z))
(* JSON(v) rendered under the keyword context c (directly or inside a statement) = out; json.dumps text (when comparable); independent decoding of the SQL literal *)
| CJson (c : qctx) (v : jvalue) (out : string) (dumps : option string) (dec : option string)
(* Tuple/Array term rendered under dialect d = out; independent tokenisation of out *)
| CSeq (d : option dialect) (t : sterm) (out : string) (toks : option (list string))
(* ONE term object rendered several times in a row under different contexts: the model is a pure
   function of (term, context), so every rendering must agree with the model for its own context *)
| CMany (l : list c20case).

Definition pair_eqb (a b : bool * list Z) : bool :=
  Bool.eqb (fst a) (fst b) && list_eqb Z.eqb (snd a) (snd b).

Fixpoint check_case (c : c20case) : bool :=
  match c with
  | CInterval vals q w dc dr out => String.eqb (render_interval dr (mk_interval vals q w dc)) out
  | CTrim s out => String.eqb (trim s) out
  | CRead u e rd => option_eqb pair_eqb (read_interval u e) rd
  | CJson c v out dumps dec =>
      String.eqb (json_sql_ctx c v) out
      && match dumps with Some t => String.eqb (json_spec v) t | None => true end
      && option_eqb String.eqb (sql_decode out) dec
  | CSeq d t out toks =>
      String.eqb (render_seq d t) out
      && option_eqb (list_eqb String.eqb) (elements out) toks
  | CMany l => forallb check_case l
  end.

Fixpoint show_case (c : c20case) : string :=
  match c with
  | CInterval vals q w dc dr _ => render_interval dr (mk_interval vals q w dc)
  | CTrim s _ => trim s
  | CRead u e _ => match read_interval u e with
                   | Some (n, vs) => (if n then "-" else "+") ++ join "," (map Z_to_string vs)
                   | None => "None"
                   end
  | CJson c v _ _ _ => json_sql_ctx c v ++ " | spec: " ++ json_spec v
  | CSeq d t out _ => render_seq d t ++ " | elements: " ++
                      match elements out with Some l => join " ; " l | None => "None" end
  | CMany l => join " || " (map show_case l)
  end.
