(* CritCorr.v — executable interpreter for the C19 correspondence cases. Definitions only. *)
From PV Require Import Base Crit.

(* criterion-building programs, exactly the operations the harness performs on pypika objects *)
Inductive cexpr :=
| XEmpty | XAtom (txt : string) | XAtomT (plain ns : string) (foreign : bool)
| XBin (op : bop) (a b : cexpr)      (* a & b, a | b, a ^ b *)
| XInv (a : cexpr)                   (* ~a *)
| XNeg (a : cexpr)                   (* a.negate() *)
| XAll (l : list cexpr)              (* Criterion.all([...]) *)
| XAny (l : list cexpr).

Fixpoint ev (e : cexpr) : crit :=
  match e with
  | XEmpty => Empty
  | XAtom s => Atom s
  | XAtomT p n f => AtomT p n f
  | XBin op a b => cbin op (ev a) (ev b)
  | XInv a => cinv (ev a)
  | XNeg a => cneg (ev a)
  | XAll l => call_all (map ev l)
  | XAny l => call_any (map ev l)
  end.

(* a statement program: a list of (is_having, criterion program) calls on Q.from_("t").select("*") *)
Definition run_calls (calls : list (bool * cexpr)) : option crit * bool * option crit :=
  fold_left (fun (st : option crit * bool * option crit) (c : bool * cexpr) =>
               let '(w, f, h) := st in
               if fst c then (w, f, add_filter h (ev (snd c)))
               else let (w', f') := add_where (w, f) (ev (snd c)) in (w', f', h))
            calls (None, false, None).

Definition model_text (head : string) (calls : list (bool * cexpr)) : string :=
  let '(w, f, h) := run_calls calls in
  match render_stmt_h f head w h with Some s => s | None => "!TypeError" end.

Definition check_case (c : string * list (bool * cexpr) * string) : bool :=
  let '(head, calls, expected) := c in String.eqb (model_text head calls) expected.
Definition show_case (c : string * list (bool * cexpr) * string) : string :=
  let '(head, calls, _) := c in model_text head calls.
