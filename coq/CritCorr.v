(* CritCorr.v — executable interpreter for the C19 correspondence cases. Definitions only. *)
From PV Require Import Base Crit.

(* criterion-building programs, exactly the operations the harness performs on pypika objects *)
Inductive cexpr :=
| XEmpty | XAtom (txt : string)
| XBin (op : bop) (a b : cexpr)      (* a & b, a | b, a ^ b *)
| XInv (a : cexpr)                   (* ~a *)
| XNeg (a : cexpr)                   (* a.negate() *)
| XAll (l : list cexpr)              (* Criterion.all([...]) *)
| XAny (l : list cexpr).

Fixpoint ev (e : cexpr) : crit :=
  match e with
  | XEmpty => Empty
  | XAtom s => Atom s
  | XBin op a b => cbin op (ev a) (ev b)
  | XInv a => cinv (ev a)
  | XNeg a => cneg (ev a)
  | XAll l => call_all (map ev l)
  | XAny l => call_any (map ev l)
  end.

(* a statement program: a list of (is_having, criterion program) calls on Query.from_("t").select("*") *)
Definition run_calls (calls : list (bool * cexpr)) : option crit * option crit :=
  fold_left (fun (st : option crit * option crit) (c : bool * cexpr) =>
               let (w, h) := st in
               if fst c then (w, add_filter h (ev (snd c))) else (add_filter w (ev (snd c)), h))
            calls (None, None).

Definition model_text (calls : list (bool * cexpr)) : string :=
  let (w, h) := run_calls calls in
  match render_stmt w h with Some s => s | None => "!TypeError" end.

Definition check_case (c : list (bool * cexpr) * string) : bool :=
  String.eqb (model_text (fst c)) (snd c).
Definition show_case (c : list (bool * cexpr) * string) : string := model_text (fst c).
