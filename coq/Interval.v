(* Interval.v — model of pypika.terms.Interval (terms.py: templates, units, labels, trim_pattern,
   __init__, get_sql).  Definitions only.
   The class-level tables (regex source text, templates, units, labels) are regenerated from the code
   on every run into gen/C20Table.v; lemmas/IntervalLemmas.v pins them to the values this model
   (in particular [trim], the hand-made implementation of the regular expression) was written for. *)
From PV Require Import Base gen.C20Table.

(* ---- dialects (pypika.enums.Dialects) ---- *)
Inductive dialect :=
| DVertica | DClickhouse | DOracle | DMssql | DMysql | DPostgresql | DRedshift | DSqlite | DSnowflake.

Definition dialect_name (d : dialect) : string :=
  match d with
  | DVertica => "VERTICA" | DClickhouse => "CLICKHOUSE" | DOracle => "ORACLE" | DMssql => "MSSQL"
  | DMysql => "MYSQL" | DPostgresql => "POSTGRESQL" | DRedshift => "REDSHIFT" | DSqlite => "SQLLITE"
  | DSnowflake => "SNOWFLAKE"
  end.

(* ---- character classes of the trim pattern ---- *)
Definition ch (c : ascii) (s : string) : bool :=
  match s with String a EmptyString => Ascii.eqb c a | _ => false end.

Definition is_zero (c : ascii) : bool := ch c "0".
(* [0\-.: ] *)
Definition in_cls (c : ascii) : bool := ch c "0" || ch c "-" || ch c "." || ch c ":" || ch c " ".
(* [\-: ] *)
Definition is_d3 (c : ascii) : bool := ch c "-" || ch c ":" || ch c " ".
(* [\-:. ] *)
Definition is_d4 (c : ascii) : bool := ch c "-" || ch c ":" || ch c "." || ch c " ".
Definition is_digit (c : ascii) : bool :=
  let n := nat_of_ascii c in Nat.leb 48 n && Nat.leb n 57.

Fixpoint all_chars (p : ascii -> bool) (s : string) : bool :=
  match s with EmptyString => true | String c r => p c && all_chars p r end.

(* ---- the four alternatives of
        (^0+\.)|(\.0+$)|(^[0\-.: ]+[\-: ])|([\-:. ][0\-.: ]+$)
     each tried at the beginning of the remaining text [s]; an anchored alternative is only tried
     by the caller when [s] is the whole string.  [Some r]: matched, [r] is the text after the match. *)

(* ^0+\.   greedy run of zeros (at least one), then a dot *)
Fixpoint skip_zeros (s : string) : string :=
  match s with String c r => if is_zero c then skip_zeros r else s | EmptyString => s end.
Definition alt1 (s : string) : option string :=
  match s with
  | String c r =>
      if is_zero c then
        match skip_zeros r with String d r' => if ch d "." then Some r' else None | EmptyString => None end
      else None
  | EmptyString => None
  end.

(* \.0+$   a dot, then only zeros (at least one) up to the end *)
Definition alt2 (s : string) : bool :=
  match s with
  | String c (String z r) => ch c "." && is_zero z && all_chars is_zero r
  | _ => false
  end.

(* ^[0\-.: ]+[\-: ]   greedy class run, backtracking to the LAST character of the run that is in
   [\-: ] and is not the first character of the run *)
Fixpoint alt3_go (s : string) (best : option string) : option string :=
  match s with
  | String c r => if in_cls c then alt3_go r (if is_d3 c then Some r else best) else best
  | EmptyString => best
  end.
Definition alt3 (s : string) : option string :=
  match s with
  | String c r => if in_cls c then alt3_go r None else None
  | EmptyString => None
  end.

(* [\-:. ][0\-.: ]+$   a delimiter, then class characters only (at least one) up to the end *)
Definition alt4 (s : string) : bool :=
  match s with
  | String c (String z r) => is_d4 c && in_cls z && all_chars in_cls r
  | _ => false
  end.

(* re.sub(pattern, "", s): scan left to right; at each position the alternatives are tried in
   order; a match is deleted and scanning resumes behind it; otherwise the character is kept.
   After position 0 only the unanchored-at-the-start alternatives 2 and 4 can match, and both
   consume the rest of the string. *)
Fixpoint trim_tail (s : string) : string :=
  match s with
  | EmptyString => EmptyString
  | String c r => if alt2 s || alt4 s then EmptyString else String c (trim_tail r)
  end.

Definition trim (s : string) : string :=
  match alt1 s with
  | Some r => trim_tail r
  | None =>
      if alt2 s then EmptyString else
      match alt3 s with
      | Some r => trim_tail r
      | None =>
          if alt4 s then EmptyString else
          match s with EmptyString => EmptyString | String c r => String c (trim_tail r) end
      end
  end.

(* ---- Interval.__init__ ---- *)
Record interval := mkInterval {
  iv_dialect : option dialect;
  iv_largest : option string;
  iv_smallest : option string;
  iv_negative : bool;
  iv_fields : list (option Z);   (* one slot per entry of [units]; None = attribute never set *)
  iv_quarters : option Z;        (* None = no attribute "quarters" *)
  iv_weeks : option Z }.

(* Python truthiness of an int:  if value: *)
Definition truthy (z : Z) : bool := negb (z =? 0)%Z.

(* the loop   for unit, label, value in zip(units, labels, values): if value: ...
   state: largest, smallest, is_negative *)
Fixpoint scan_fields (lv : list (string * Z)) (lg sm : option string) (neg : bool)
  : option string * option string * bool :=
  match lv with
  | [] => (lg, sm, neg)
  | (label, v) :: r =>
      if truthy v then
        match lg with
        | None => scan_fields r (Some label) (Some label) (v <? 0)%Z
        | Some _ => scan_fields r lg (Some label) neg
        end
      else scan_fields r lg sm neg
  end.

Definition field_attr (v : Z) : option Z := if truthy v then Some (Z.abs v) else None.

(* [vals] are the seven keyword arguments years..microseconds in the order of the signature
   (always seven: zip(units, labels, values) never truncates them as long as the tables have
   seven entries, which lemmas/IntervalLemmas.v checks) *)
Definition mk_interval (vals : list Z) (quarters weeks : Z) (d : option dialect) : interval :=
  if truthy quarters then mkInterval d None None false [] (Some quarters) None
  else if truthy weeks then mkInterval d None None false [] None (Some weeks)
  else
    match scan_fields (combine interval_labels vals) None None false with
    | (lg, sm, neg) => mkInterval d lg sm neg (map field_attr vals) None None
    end.

(* ---- Interval.get_sql ---- *)
(* getattr(self, <unit k>, 0) *)
Definition getf (i : interval) (k : nat) : Z :=
  match nth k (iv_fields i) None with Some v => v | None => 0%Z end.

(* "{years}-{months}-{days} {hours}:{minutes}:{seconds}.{microseconds}".format(...) *)
Definition raw_expr (i : interval) : string :=
  Z_to_string (getf i 0) ++ "-" ++ Z_to_string (getf i 1) ++ "-" ++ Z_to_string (getf i 2) ++ " " ++
  Z_to_string (getf i 3) ++ ":" ++ Z_to_string (getf i 4) ++ ":" ++ Z_to_string (getf i 5) ++ "." ++
  Z_to_string (getf i 6).

(* str(None) inside "{largest}_{smallest}".format *)
Definition py_str_opt (o : option string) : string := match o with Some s => s | None => "None" end.

Definition interval_expr_unit (i : interval) : string * string :=
  if option_eqb String.eqb (iv_largest i) (Some "MICROSECOND") then
    (* expr = self.microseconds; if self.is_negative: expr = "-{}".format(expr) *)
    ((if iv_negative i then "-" ++ Z_to_string (getf i 6) else Z_to_string (getf i 6)), "MICROSECOND")
  else match iv_quarters i with
  | Some q => (Z_to_string q, "QUARTER")
  | None =>
  match iv_weeks i with
  | Some w => (Z_to_string w, "WEEK")
  | None =>
      let e := trim (raw_expr i) in
      let e := if iv_negative i then "-" ++ e else e in
      let unit := if option_eqb String.eqb (iv_largest i) (iv_smallest i) then iv_largest i
                  else Some (py_str_opt (iv_largest i) ++ "_" ++ py_str_opt (iv_smallest i)) in
      (e, match unit with Some u => u | None => "DAY" end)
  end end.

(* template.format(expr=..., unit=...): replaces the fields {expr} and {unit} *)
Fixpoint starts_with (p s : string) : bool :=
  match p, s with
  | EmptyString, _ => true
  | String a p', String b s' => Ascii.eqb a b && starts_with p' s'
  | _, _ => false
  end.

Fixpoint fmt_template (skip : nat) (tpl expr unit : string) : string :=
  match tpl with
  | EmptyString => EmptyString
  | String c r =>
      match skip with
      | S k => fmt_template k r expr unit
      | O =>
          if starts_with "{expr}" tpl then expr ++ fmt_template 5 r expr unit
          else if starts_with "{unit}" tpl then unit ++ fmt_template 5 r expr unit
          else String c (fmt_template 0 r expr unit)
      end
  end.

Fixpoint assoc_str (k : string) (l : list (string * string)) : option string :=
  match l with
  | [] => None
  | (a, b) :: r => if String.eqb a k then Some b else assoc_str k r
  end.

(* self.templates.get(dialect, "INTERVAL '{expr} {unit}'") *)
Definition template_of (d : option dialect) : string :=
  match d with
  | None => "INTERVAL '{expr} {unit}'"
  | Some d' => match assoc_str (dialect_name d') interval_templates with
               | Some t => t
               | None => "INTERVAL '{expr} {unit}'"
               end
  end.

(* dialect = self.dialect or kwargs.get("dialect")   (enum members are truthy) *)
Definition eff_dialect (i : interval) (dr : option dialect) : option dialect :=
  match iv_dialect i with Some d => Some d | None => dr end.

Definition render_interval (dr : option dialect) (i : interval) : string :=
  let (e, u) := interval_expr_unit i in
  fmt_template 0 (template_of (eff_dialect i dr)) e u.

(* ================= specification side: reading an interval literal back ================= *)

(* the delimiter that follows field k in  Y-M-D H:M:S.U *)
Definition field_delims : list ascii := ["-"; "-"; " "; ":"; ":"; "."]%char.
Definition label_names : list string := ["YEAR"; "MONTH"; "DAY"; "HOUR"; "MINUTE"; "SECOND"; "MICROSECOND"].

Fixpoint index_of (x : string) (l : list string) : option nat :=
  match l with
  | [] => None
  | a :: r => if String.eqb a x then Some 0 else option_map S (index_of x r)
  end.

(* "A_B" -> ("A", Some "B");  "A" -> ("A", None)   (split at the first underscore) *)
Fixpoint split_us (s : string) : string * option string :=
  match s with
  | EmptyString => (EmptyString, None)
  | String c r =>
      if ch c "_" then (EmptyString, Some r)
      else let (a, b) := split_us r in (String c a, b)
  end.

Definition unit_span (u : string) : option (nat * nat) :=
  let (a, ob) := split_us u in
  match index_of a label_names, ob with
  | Some i, None => Some (i, i)
  | Some i, Some b => match index_of b label_names with
                      | Some j => if Nat.ltb i j then Some (i, j) else None
                      | None => None
                      end
  | None, _ => None
  end.

Fixpoint span_digits (s : string) : string * string :=
  match s with
  | String c r => if is_digit c then let (a, b) := span_digits r in (String c a, b) else (EmptyString, s)
  | EmptyString => (EmptyString, EmptyString)
  end.

(* read |ds|+1 unsigned decimal fields separated by exactly the delimiters ds, nothing else *)
Fixpoint read_fields (ds : list ascii) (s : string) : option (list Z) :=
  let (dg, rest) := span_digits s in
  match dg with
  | EmptyString => None
  | _ =>
    match Z_of_string dg with
    | None => None
    | Some v =>
        match ds with
        | [] => match rest with EmptyString => Some [v] | _ => None end
        | d :: ds' =>
            match rest with
            | String c r => if Ascii.eqb c d then option_map (cons v) (read_fields ds' r) else None
            | EmptyString => None
            end
        end
    end
  end.

(* sign and fields of the expression [e] of an interval literal whose unit is [u] *)
Definition read_interval (u e : string) : option (bool * list Z) :=
  let (neg, body) := match e with
                     | String c r => if ch c "-" then (true, r) else (false, e)
                     | EmptyString => (false, e)
                     end in
  let ods := if String.eqb u "QUARTER" || String.eqb u "WEEK" then Some []
             else match unit_span u with
                  | Some (a, b) => Some (firstn (b - a) (skipn a field_delims))
                  | None => None
                  end in
  match ods with
  | Some ds => option_map (fun vs => (neg, vs)) (read_fields ds body)
  | None => None
  end.

(* the literal the property asks for, per dialect group *)
Definition template_spec (d : option dialect) (e u : string) : string :=
  match d with
  | Some DOracle | Some DMysql => "INTERVAL '" ++ e ++ "' " ++ u
  | _ => "INTERVAL '" ++ e ++ " " ++ u ++ "'"
  end.

(* leading / trailing zero fields *)
Fixpoint strip0 (l : list Z) : list Z :=
  match l with v :: r => if (v =? 0)%Z then strip0 r else l | [] => [] end.
Fixpoint lead0 (l : list Z) : nat :=
  match l with v :: r => if (v =? 0)%Z then S (lead0 r) else O | [] => O end.
Definition kept (l : list Z) : list Z := rev (strip0 (rev (strip0 l))).

Definition unit_name (a b : nat) : string :=
  if Nat.eqb a b then nth a label_names "" else nth a label_names "" ++ "_" ++ nth b label_names "".

Definition uniform_sign (l : list Z) : bool := forallb (fun v => 0 <=? v)%Z l || forallb (fun v => v <=? 0)%Z l.
Definition has_neg (l : list Z) : bool := existsb (fun v => v <? 0)%Z l.
Definition not_all_zero (l : list Z) : bool := existsb truthy l.
