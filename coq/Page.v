(* Page.v — model of pypika's pagination (C12): the limit/offset/slice/top/fetch_next/limit_by
   builder steps (queries.py 579-585, 1066-1072, 1108-1116; dialects.py 351-361, 706-723, 867-873),
   every _apply_pagination override with its _limit_sql/_offset_sql templates (queries.py 1373-1380,
   1547-1551; dialects.py 351-357, 387-395, 725-734, 875-889), _SetOperation's pagination through a fresh
   builder of the base class (queries.py _SetOperation._apply_pagination, since 8f3d161), UPDATE ... LIMIT (queries.py 1286-1287), MSSQL TOP (dialects.py
   742-755), the tail assembly order of QueryBuilder.get_sql (orderby, pagination, for_update), and a
   reader for the three pagination grammars of the property.  Definitions only. *)
From PV Require Import Base.

(* ---- the ten query classes and the statement kinds ---- *)
Inductive cls := CQuery | CMySQL | CVertica | COracle | CPostgreSQL | CRedshift | CMSSQL
               | CClickHouse | CSQLLite | CSnowflake.
Definition all_cls : list cls :=
  [CQuery; CMySQL; CVertica; COracle; CPostgreSQL; CRedshift; CMSSQL; CClickHouse; CSQLLite; CSnowflake].
Definition cls_eqb (a b : cls) : bool :=
  match a, b with
  | CQuery, CQuery | CMySQL, CMySQL | CVertica, CVertica | COracle, COracle | CPostgreSQL, CPostgreSQL
  | CRedshift, CRedshift | CMSSQL, CMSSQL | CClickHouse, CClickHouse | CSQLLite, CSQLLite
  | CSnowflake, CSnowflake => true
  | _, _ => false
  end.

Inductive kind := KSelect | KSetOp | KUpdate.
Definition all_kind : list kind := [KSelect; KSetOp; KUpdate].
Definition kind_eqb (a b : kind) : bool :=
  match a, b with KSelect, KSelect | KSetOp, KSetOp | KUpdate, KUpdate => true | _, _ => false end.

(* ---- builder state: the pagination slots ---- *)
Record page := mkPage {
  lim : option Z;                          (* self._limit *)
  off : option Z;                          (* self._offset *)
  lby : option (Z * Z * list string);      (* ClickHouse self._limit_by = (n, offset, [rendered terms]) *)
  top : option (Z * bool * bool)           (* MSSQL self._top, _top_percent, _top_with_ties *)
}.
Definition page0 : page := mkPage None None None None.
Definition pg (n m : option Z) : page := mkPage n m None None.

Definition set_lim (v : option Z) (p : page) : page := mkPage v (off p) (lby p) (top p).
Definition set_off (v : option Z) (p : page) : page := mkPage (lim p) v (lby p) (top p).
Definition set_lby (v : option (Z * Z * list string)) (p : page) : page := mkPage (lim p) (off p) v (top p).
Definition set_top (v : option (Z * bool * bool)) (p : page) : page := mkPage (lim p) (off p) (lby p) v.

(* ---- builder steps ---- *)
Inductive call :=
| CLimit (n : option Z)                     (* .limit(n) *)
| COffset (m : option Z)                    (* .offset(m) *)
| CSlice (a b : option Z)                   (* q[a:b] = .slice(slice(a, b)) *)
| CFetchNext (n : option Z)                 (* Oracle / MSSQL .fetch_next(n) (deprecated alias of limit) *)
| CTop (v : Z) (percent ties : bool)        (* MSSQL .top(v, percent=, with_ties=) *)
| CLimitBy (n : Z) (by_ : list string)      (* ClickHouse .limit_by(n, *by) *)
| CLimitOffsetBy (n m : Z) (by_ : list string)
| COther.                                   (* any other @builder call made in between (where, select, orderby, groupby,
                                               distinct, for_update, replace_table, set, ...): a copy with the pagination
                                               slots untouched -- tabulated from the code as x_keep *)

Definition is_fetch (c : cls) : bool := match c with COracle | CMSSQL => true | _ => false end.

(* One @builder call on an object of class [c] (a QueryBuilder for KSelect/KUpdate, the _SetOperation
   built from it for KSetOp).  Methods a class does not define resolve through Selectable.__getattr__ to a
   Field, and calling a Field raises TypeError. *)
Definition step (c : cls) (k : kind) (cl : call) (p : page) : res page :=
  match cl with
  | CLimit n => Ok (set_lim n p)
  | COffset m => Ok (set_off m p)
  | COther => Ok p
  | _ =>
    match k with
    | KSetOp => Err "TypeError"
    | _ =>
      match cl with
      | CSlice a b => Ok (set_lim b (set_off a p))     (* self._offset = slice.start; self._limit = slice.stop *)
      | CFetchNext n => if is_fetch c then Ok (set_lim n p) else Err "TypeError"
      | CTop v pc ties =>
          match c with
          | CMSSQL =>
              if pc && negb ((0 <=? v)%Z && (v <=? 100)%Z) then Err "QueryException"
              else Ok (set_top (Some (v, pc, ties)) p)
          | _ => Err "TypeError"
          end
      | CLimitBy n b => match c with CClickHouse => Ok (set_lby (Some (n, 0%Z, b)) p) | _ => Err "TypeError" end
      | CLimitOffsetBy n m b => match c with CClickHouse => Ok (set_lby (Some (n, m, b)) p) | _ => Err "TypeError" end
      | _ => Ok p
      end
    end
  end.

Fixpoint run (c : cls) (k : kind) (cs : list call) (p : page) : res page :=
  match cs with
  | [] => Ok p
  | cl :: r => match step c k cl p with Ok p' => run c k r p' | Err e => Err e end
  end.
Definition page_of (c : cls) (k : kind) (cs : list call) : res page := run c k cs page0.

(* what a call writes into each slot (None = the call leaves the slot alone) *)
Definition w_lim (cl : call) : option (option Z) :=
  match cl with CLimit n => Some n | CSlice _ b => Some b | CFetchNext n => Some n | _ => None end.
Definition w_off (cl : call) : option (option Z) :=
  match cl with COffset m => Some m | CSlice a _ => Some a | _ => None end.
Definition w_lby (cl : call) : option (option (Z * Z * list string)) :=
  match cl with CLimitBy n b => Some (Some (n, 0%Z, b)) | CLimitOffsetBy n m b => Some (Some (n, m, b)) | _ => None end.
Definition w_top (cl : call) : option (option (Z * bool * bool)) :=
  match cl with CTop v pc t => Some (Some (v, pc, t)) | _ => None end.

(* the value written by the LAST call of the list that writes the slot at all *)
Fixpoint last_hit {V} (f : call -> option V) (cs : list call) : option V :=
  match cs with
  | [] => None
  | c :: r => match last_hit f r with Some v => Some v | None => f c end
  end.

(* ---- rendering ---- *)
(* Python truthiness of an Optional[int]: None and 0 are false *)
Definition truthyZ (o : option Z) : bool := match o with Some z => negb (z =? 0)%Z | None => false end.
(* "{x}".format(x=value) for an Optional[int] *)
Definition pyZ (o : option Z) : string := match o with Some z => Z_to_string z | None => "None" end.

(* A clause is kept as its list of space-separated words; the text is " w1 w2 ..." *)
Definition untok (l : list string) : string := sconcat (map (fun w => " " ++ w) l).
Definition guard (b : bool) (l : list string) : list string := if b then l else [].

(* _limit_sql: " LIMIT {limit}"  |  FetchNextAndOffsetRowsQueryBuilder: " FETCH NEXT {limit} ROWS ONLY" *)
Definition limit_toks (c : cls) (l : option Z) : list string :=
  if is_fetch c then ["FETCH"; "NEXT"; pyZ l; "ROWS"; "ONLY"] else ["LIMIT"; pyZ l].
(* _offset_sql: " OFFSET {offset}"  |  " OFFSET {offset} ROWS".format(offset=self._offset or 0) *)
Definition offset_toks (c : cls) (o : option Z) : list string :=
  if is_fetch c then ["OFFSET"; pyZ (if truthyZ o then o else Some 0%Z); "ROWS"] else ["OFFSET"; pyZ o].

(* ClickHouse _limit_by_sql *)
Definition by_text (b : list string) : string := "(" ++ join "," b ++ ")".
Definition limit_by_toks (x : Z * Z * list string) : list string :=
  let '(n, m, b) := x in
  if negb (m =? 0)%Z then ["LIMIT"; Z_to_string n; "OFFSET"; Z_to_string m; "BY"; by_text b]
  else ["LIMIT"; Z_to_string n; "BY"; by_text b].

(* which of the two pieces are emitted, in which order: the guards of each _apply_pagination, literally *)
Inductive piece := PLimit | POffset.
Definition piece_eqb (a b : piece) : bool := match a, b with PLimit, PLimit | POffset, POffset => true | _, _ => false end.
Definition gp (b : bool) (x : piece) : list piece := if b then [x] else [].

Definition page_pieces (c : cls) (k : kind) (p : page) : list piece :=
  match k with
  | KUpdate =>                              (* UPDATE branch of QueryBuilder.get_sql: only if self._limit is not None *)
      gp (is_some (lim p)) PLimit
  | KSelect | KSetOp =>
      (* KSetOp (8f3d161): _SetOperation._apply_pagination copies _limit/_offset into a fresh builder of the base
         query's class and calls that builder's _apply_pagination: the guards and order of the class's SELECT *)
      match c with
      | COracle =>                          (* offset first *)
          gp (truthyZ (off p)) POffset ++ gp (is_some (lim p)) PLimit
      | CMSSQL =>                           (* offset forced when a fetch is present *)
          gp (is_some (lim p) || truthyZ (off p)) POffset ++ gp (is_some (lim p)) PLimit
      | _ =>                                (* QueryBuilder._apply_pagination (ClickHouse: after LIMIT BY) *)
          gp (is_some (lim p)) PLimit ++ gp (truthyZ (off p)) POffset
      end
  end.

Definition piece_toks (c : cls) (k : kind) (p : page) (x : piece) : list string :=
  match x with
  | PLimit => limit_toks c (lim p)
  | POffset => offset_toks c (off p)
  end.

Definition lby_toks (c : cls) (k : kind) (p : page) : list string :=
  match c, k, lby p with
  | CClickHouse, KSelect, Some x => limit_by_toks x       (* if self._limit_by: ... ahead of super()._apply_pagination *)
  | _, _, _ => []
  end.

Definition page_toks (c : cls) (k : kind) (p : page) : list string :=
  lby_toks c k p ++ flat_map (piece_toks c k p) (page_pieces c k p).

(* the pagination text appended to the statement *)
Definition render_page (c : cls) (k : kind) (p : page) : string := untok (page_toks c k p).

(* MSSQL _top_sql (inside _select_sql, after DISTINCT) *)
Definition top_sql (c : cls) (p : page) : string :=
  match c, top p with
  | CMSSQL, Some (v, pc, ties) =>
      "TOP (" ++ Z_to_string v ++ ") " ++ (if pc then "PERCENT " else "") ++ (if ties then "WITH TIES " else "")
  | _, _ => ""
  end.

(* ---- statement assembly (the parts that are not pagination are opaque texts) ----
   SELECT: "SELECT " [DISTINCT ] [TOP ...] <rest up to HAVING> <ORDER BY ...> <pagination> <FOR UPDATE ...>
   set operation: <operands> <ORDER BY ...> <LIMIT> <OFFSET>
   UPDATE: <UPDATE ... SET ... WHERE ...> <LIMIT> *)
Definition select_head (c : cls) (distinct : bool) (p : page) (rest : string) : string :=
  "SELECT " ++ (if distinct then "DISTINCT " else "") ++ top_sql c p ++ rest.

Definition stmt_text (c : cls) (k : kind) (distinct : bool) (rest ob fu : string) (p : page) : string :=
  match k with
  | KSelect => select_head c distinct p rest ++ ob ++ render_page c k p ++ fu
  | KSetOp => rest ++ ob ++ render_page c k p
  | KUpdate => rest ++ render_page c k p
  end.

(* clause order of the statement tails, as data (compared with the order read off the source by ast) *)
Inductive clause := ClWhere | ClOrderBy | ClPagination | ClLimit | ClOffset | ClForUpdate | ClOther (name : string).
Definition clause_eqb (a b : clause) : bool :=
  match a, b with
  | ClWhere, ClWhere | ClOrderBy, ClOrderBy | ClPagination, ClPagination | ClLimit, ClLimit
  | ClOffset, ClOffset | ClForUpdate, ClForUpdate => true
  | ClOther x, ClOther y => String.eqb x y
  | _, _ => false
  end.
Definition select_tail_order : list clause := [ClOrderBy; ClPagination; ClForUpdate].
Definition setop_tail_order : list clause := [ClOrderBy; ClPagination].
Definition update_tail_order : list clause := [ClWhere; ClLimit].

(* ---- reading a pagination tail back: the three grammars of the property ---- *)
Definition is_space (a : ascii) : bool := Ascii.eqb a " "%char.

(* split at single spaces; the result is never empty, its head is the word in progress *)
Fixpoint words (s : string) : list string :=
  match s with
  | EmptyString => [EmptyString]
  | String a r =>
      if is_space a then EmptyString :: words r
      else match words r with
           | w :: ws => String a w :: ws
           | [] => [String a EmptyString]
           end
  end.
Definition nonempty (s : string) : bool := match s with EmptyString => false | _ => true end.
Definition tokens (s : string) : list string := filter nonempty (words s).

Fixpoint no_space (s : string) : bool :=
  match s with EmptyString => true | String a r => negb (is_space a) && no_space r end.
Definition tok_ok (s : string) : bool := nonempty s && no_space s.

(* a canonical non-negative decimal numeral *)
Definition numtok (s : string) : option Z :=
  match Z_of_string s with
  | Some z => if (0 <=? z)%Z && String.eqb (Z_to_string z) s then Some z else None
  | None => None
  end.

(* "(" x ")" -> x *)
Fixpoint drop_close (s : string) : option string :=
  match s with
  | EmptyString => None
  | String a r =>
      match r with
      | EmptyString => if Ascii.eqb a ")"%char then Some EmptyString else None
      | _ => option_map (String a) (drop_close r)
      end
  end.
Definition unparen (s : string) : option string :=
  match s with
  | String a r => if Ascii.eqb a "("%char then drop_close r else None
  | EmptyString => None
  end.

Definition kw (k s : string) : bool := String.eqb k s.

(* the row window a tail denotes: skip w_off rows, then at most w_lim rows (None = to the end);
   w_by = ClickHouse LIMIT n OFFSET m BY (text) *)
Record window := mkW { wn_off : Z; wn_lim : option Z; wn_by : option (Z * Z * string) }.

(* LIMIT family:  [LIMIT n [OFFSET m]] *)
Definition read_limit (ts : list string) : option (Z * option Z) :=
  match ts with
  | [] => Some (0%Z, None)
  | [k1; n] =>
      if kw "LIMIT" k1 then match numtok n with Some n' => Some (0%Z, Some n') | None => None end else None
  | [k1; n; k2; m] =>
      if kw "LIMIT" k1 && kw "OFFSET" k2 then
        match numtok n, numtok m with Some n', Some m' => Some (m', Some n') | _, _ => None end
      else None
  | _ => None
  end.

(* FETCH family:  [OFFSET m ROWS] [FETCH NEXT n ROWS ONLY], offset first;
   offset_required (MSSQL): a FETCH without a preceding OFFSET is not in the grammar *)
Definition read_fetch (offset_required : bool) (ts : list string) : option (Z * option Z) :=
  match ts with
  | [] => Some (0%Z, None)
  | [o; m; r] =>
      if kw "OFFSET" o && kw "ROWS" r then match numtok m with Some m' => Some (m', None) | None => None end else None
  | [f; nx; n; r; on] =>
      if offset_required then None
      else if kw "FETCH" f && kw "NEXT" nx && kw "ROWS" r && kw "ONLY" on then
        match numtok n with Some n' => Some (0%Z, Some n') | None => None end
      else None
  | [o; m; r; f; nx; n; r2; on] =>
      if kw "OFFSET" o && kw "ROWS" r && kw "FETCH" f && kw "NEXT" nx && kw "ROWS" r2 && kw "ONLY" on then
        match numtok m, numtok n with Some m', Some n' => Some (m', Some n') | _, _ => None end
      else None
  | _ => None
  end.

(* ClickHouse:  [LIMIT n [OFFSET m] BY (...)] ahead of the ordinary [LIMIT n [OFFSET m]] *)
Definition read_by (ts : list string) : option (option (Z * Z * string) * list string) :=
  match ts with
  | l :: n :: b :: x :: rest =>
      if kw "LIMIT" l && kw "BY" b then
        match numtok n, unparen x with
        | Some n', Some t => Some (Some (n', 0%Z, t), rest)
        | _, _ => None
        end
      else
        match rest with
        | b2 :: x2 :: rest2 =>
            if kw "LIMIT" l && kw "OFFSET" b && kw "BY" b2 then
              match numtok n, numtok x, unparen x2 with
              | Some n', Some m', Some t => Some (Some (n', m', t), rest2)
              | _, _, _ => None
              end
            else Some (None, ts)
        | _ => Some (None, ts)
        end
  | _ => Some (None, ts)
  end.

Inductive family := FLimit | FFetch (offset_required : bool) | FClickHouse.
(* the grammar the property assigns to each class *)
Definition family_of (c : cls) : family :=
  match c with COracle => FFetch false | CMSSQL => FFetch true | CClickHouse => FClickHouse | _ => FLimit end.

Definition denote_toks (f : family) (ts : list string) : option window :=
  match f with
  | FLimit => match read_limit ts with Some (o, l) => Some (mkW o l None) | None => None end
  | FFetch r => match read_fetch r ts with Some (o, l) => Some (mkW o l None) | None => None end
  | FClickHouse =>
      match read_by ts with
      | Some (b, rest) => match read_limit rest with Some (o, l) => Some (mkW o l b) | None => None end
      | None => None
      end
  end.
Definition denote_page (f : family) (s : string) : option window := denote_toks f (tokens s).

(* the window the builder calls asked for: rows off .. off+lim-1 (on UPDATE only a limit is in the property) *)
Definition requested (c : cls) (k : kind) (p : page) : window :=
  mkW (match k with KUpdate => 0%Z | _ => odefault 0%Z (off p) end)
      (lim p)
      (match c, k, lby p with
       | CClickHouse, KSelect, Some (n, m, b) => Some (n, m, join "," b)
       | _, _, _ => None
       end).

(* the quantifier of the property: n, m >= 0 (or absent); LIMIT BY numbers >= 0 and its terms free of blanks *)
Definition nonnegO (o : option Z) : bool := match o with Some z => (0 <=? z)%Z | None => true end.
Definition page_ok (p : page) : bool :=
  nonnegO (lim p) && nonnegO (off p) &&
  match lby p with Some (n, m, b) => (0 <=? n)%Z && (0 <=? m)%Z && no_space (join "," b) | None => true end.

(* the exact set of (class, statement kind, slots) on which the rendered tail is in the class's grammar
   and denotes the requested window *)
Definition frag (c : cls) (k : kind) (p : page) : bool :=
  match k with
  | KSelect => if is_fetch c then true else is_some (lim p) || negb (truthyZ (off p))
  | KSetOp => if is_fetch c then true else is_some (lim p) || negb (truthyZ (off p))
  | KUpdate => match c with CMSSQL => negb (is_some (lim p)) | _ => true end
  end.

(* ---- reading TOP back from the head of a MSSQL SELECT ---- *)
Definition read_top (ts : list string) : option (option (Z * bool * bool)) :=
  match ts with
  | s :: r =>
      if kw "SELECT" s then
        let r := match r with d :: r' => if kw "DISTINCT" d then r' else r | [] => r end in
        match r with
        | t :: v :: r2 =>
            if kw "TOP" t then
              match unparen v with
              | Some x =>
                  match numtok x with
                  | Some z =>
                      let '(pc, r3) := match r2 with a :: r' => if kw "PERCENT" a then (true, r') else (false, r2) | [] => (false, r2) end in
                      let ties := match r3 with a :: b :: _ => kw "WITH" a && kw "TIES" b | _ => false end in
                      Some (Some (z, pc, ties))
                  | None => None
                  end
              | None => None
              end
            else Some None
        | _ => Some None
        end
      else None
  | [] => None
  end.
(* the opaque remainder of the select list must not itself begin with one of the keywords read above *)
Definition rest_ok (rest : string) : bool :=
  match tokens rest with
  | a :: _ => negb (kw "DISTINCT" a || kw "TOP" a || kw "PERCENT" a || kw "WITH" a)
  | [] => true
  end.

(* ---- sentinel classes used by the extracted structure table ---- *)
Inductive vcls := VAbsent | VZero | VPos.
Definition vcls_eqb (a b : vcls) : bool :=
  match a, b with VAbsent, VAbsent | VZero, VZero | VPos, VPos => true | _, _ => false end.
Definition all_vcls : list vcls := [VAbsent; VZero; VPos].
Definition classify (o : option Z) : vcls :=
  match o with None => VAbsent | Some z => if (z =? 0)%Z then VZero else VPos end.
Definition sentinel (pos : Z) (v : vcls) : option Z :=
  match v with VAbsent => None | VZero => Some 0%Z | VPos => Some pos end.

(* effect of a setter on a slot, as observed on sentinel values *)
Inductive eff := EKeep | EArg1 | EArg2.
Definition eff_eqb (a b : eff) : bool :=
  match a, b with EKeep, EKeep | EArg1, EArg1 | EArg2, EArg2 => true | _, _ => false end.
Inductive ckind := QLimit | QOffset | QSlice | QFetchNext | QTop | QLimitBy | QLimitOffsetBy.
Definition all_ckind := [QLimit; QOffset; QSlice; QFetchNext; QTop; QLimitBy; QLimitOffsetBy].
Definition ckind_eqb (a b : ckind) : bool :=
  match a, b with
  | QLimit, QLimit | QOffset, QOffset | QSlice, QSlice | QFetchNext, QFetchNext | QTop, QTop
  | QLimitBy, QLimitBy | QLimitOffsetBy, QLimitOffsetBy => true
  | _, _ => false
  end.
(* the call of each kind with first argument a1 and second a2 (slice: q[a1:a2]) *)
Definition mk_call (q : ckind) (a1 a2 : option Z) : call :=
  match q with
  | QLimit => CLimit a1 | QOffset => COffset a1 | QSlice => CSlice a1 a2 | QFetchNext => CFetchNext a1
  | QTop => CTop 3 false false | QLimitBy => CLimitBy 3 ["x"] | QLimitOffsetBy => CLimitOffsetBy 3 2 ["x"]
  end.
Definition oZ_eqb := option_eqb Z.eqb.
Definition classify_eff (old a1 a2 v : option Z) : option eff :=
  if oZ_eqb v old then Some EKeep else if oZ_eqb v a1 then Some EArg1 else if oZ_eqb v a2 then Some EArg2 else None.
(* model-side observation: apply the call to slots (70, 50) with arguments (a1, a2) *)
Definition model_effect (c : cls) (k : kind) (q : ckind) (a1 a2 : option Z) : res (option eff * option eff) :=
  let old := mkPage (Some 70%Z) (Some 50%Z) None None in
  match step c k (mk_call q a1 a2) old with
  | Ok p => Ok (classify_eff (lim old) a1 a2 (lim p), classify_eff (off old) a1 a2 (off p))
  | Err e => Err e
  end.
