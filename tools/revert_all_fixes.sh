#!/bin/bash
# Dev tool: fault enumeration over the repairs — revert every `fix:` commit of /repo in turn (scratch worktrees) and run
# the quick checks of the properties that record it as a repair.  Output: audit/revert_fixes.jsonl (one line per commit).
cd /verif || exit 1
rm -f audit/revert_fixes.jsonl
git -C /repo log --format=%h --grep '^fix:' | xargs -P 4 -n 1 python3 tools/revert_fixes.py
