#!/usr/bin/env python3
"""Dev tool: confirm independently produced mutants and run the checks against them.
usage: eval_seed.py <out-dir produced by a seeding agent, containing m1/ m2/ …> [--props C02,C13] [--thorough]
For every m<i>/ (patch.diff, demo.py, meta.json):
  1. fresh scratch worktree of /repo HEAD; demo.py must PASS there;
  2. apply patch; full pypika suite must pass (1061); demo.py must FAIL;
  3. VERIF_REPO=<worktree> ./check <property> (quick; thorough too if quick misses and --thorough);
  4. when 1+2 hold, copy the mutant to /verif/seeded/<property>-<n>/ with meta.json extended by what was run and by
     which checks caught it.
The worktree and the driver's scratch copy are removed afterwards."""
import hashlib
import json
import os
import shutil
import subprocess
import sys

out = sys.argv[1].rstrip("/")
props_override = None
thorough = "--thorough" in sys.argv
if "--props" in sys.argv:
    props_override = sys.argv[sys.argv.index("--props") + 1].split(",")


def sh(cmd, env=None, cwd=None, timeout=3600):
    p = subprocess.run(cmd, shell=isinstance(cmd, str), env=env, cwd=cwd, capture_output=True, text=True, timeout=timeout)
    return p.returncode, "\n".join(l for l in (p.stdout + p.stderr).splitlines() if "conda" not in l)


def run_check(prop, wt, tier):
    env = dict(os.environ, VERIF_REPO=wt)
    rc, o = sh(["/verif/check", prop, "--tier", tier], env=env)
    viol = [l for l in o.splitlines() if l.startswith("VIOLATION")]
    last = o.splitlines()[-1] if o.splitlines() else ""
    return rc, viol, last


for m in sorted(d for d in os.listdir(out) if os.path.isdir(os.path.join(out, d))):
    d = os.path.join(out, m)
    try:
        meta = json.load(open(os.path.join(d, "meta.json")))
    except Exception as e:
        print(m, "no meta.json", e)
        continue
    prop = meta["property"]
    wt = "/tmp/wt-eval-%s-%s-%d" % (prop, m, os.getpid())
    sh(["git", "-C", "/repo", "worktree", "add", "-q", "--detach", wt, "HEAD"])
    res = {"mutant": m, "property": prop}
    try:
        env = dict(os.environ, PYTHONPATH=wt, PYTHONHASHSEED="0")
        rc0, o0 = sh(["/venv/bin/python", os.path.join(d, "demo.py")], env=env, cwd=wt)
        res["demo_clean_passes"] = (rc0 == 0)
        rca, oa = sh(["git", "-C", wt, "apply", os.path.join(d, "patch.diff")])
        if rca != 0:
            res["patch_applies"] = False
            print(json.dumps(res), oa[-300:])
            continue
        rct, ot = sh("cd %s && /venv/bin/python -m pytest -q -p no:cacheprovider 2>&1 | tail -1" % wt)
        res["suite"] = ot.strip().splitlines()[-1] if ot.strip() else ""
        res["suite_green"] = "1061 passed" in ot
        rc1, o1 = sh(["/venv/bin/python", os.path.join(d, "demo.py")], env=env, cwd=wt)
        res["demo_mutant_fails"] = (rc1 != 0)
        res["demo_failure"] = o1.strip().splitlines()[-1][:300] if o1.strip() else ""
        confirmed = res["demo_clean_passes"] and res["suite_green"] and res["demo_mutant_fails"]
        res["confirmed"] = confirmed
        checks = {}
        for p in (props_override or [prop]):
            rc, viol, last = run_check(p, wt, "quick")
            checks[p] = {"quick_exit": rc, "quick_violation_lines": viol[:3], "summary": last}
            if rc == 0 and thorough:
                rc, viol, last = run_check(p, wt, "thorough")
                checks[p].update({"thorough_exit": rc, "thorough_violation_lines": viol[:3], "thorough_summary": last})
        res["checks"] = checks
        res["caught"] = any(c.get("quick_exit") == 1 or c.get("thorough_exit") == 1 for c in checks.values())
        print(json.dumps(res, indent=1))
        if confirmed:
            n = 1
            while os.path.exists("/verif/seeded/%s-%d" % (prop, n)):
                n += 1
            dst = "/verif/seeded/%s-%d" % (prop, n)
            os.makedirs(dst)
            shutil.copy(os.path.join(d, "patch.diff"), dst)
            shutil.copy(os.path.join(d, "demo.py"), dst)
            meta.update({"breaks_property": prop, "needs_to_manifest": meta.get("needs"),
                         "confirmed_by": ["git apply on a scratch worktree of /repo HEAD",
                                          "pypika suite: " + res["suite"],
                                          "demo.py passes on the unchanged tree and fails with the patch: " + res["demo_failure"]],
                         "checks_run": checks, "caught": res["caught"], "repo_head": sh(["git", "-C", "/repo", "rev-parse", "--short", "HEAD"])[1].strip()})
            json.dump(meta, open(os.path.join(dst, "meta.json"), "w"), indent=1)
    finally:
        sh(["git", "-C", "/repo", "worktree", "remove", "--force", wt])
        h = hashlib.sha1(os.path.realpath(wt).encode()).hexdigest()[:10]
        shutil.rmtree("/tmp/verif-scratch-" + h, ignore_errors=True)
