#!/usr/bin/env python3
"""Dev tool: re-run the checks against every seeded mutant under /verif/seeded and record the current result in meta.json.
usage: retest_seeds.py [prefix]      e.g. retest_seeds.py C19"""
import glob, hashlib, json, os, shutil, subprocess, sys
pref = sys.argv[1] if len(sys.argv) > 1 else ""
for d in sorted(glob.glob("/verif/seeded/%s*" % pref)):
    mp = os.path.join(d, "meta.json")
    meta = json.load(open(mp))
    prop = meta["property"]
    wt = "/tmp/wt-retest-%s-%d" % (os.path.basename(d), os.getpid())
    subprocess.run(["git", "-C", "/repo", "worktree", "add", "-q", "--detach", wt, "HEAD"], check=True)
    try:
        r = subprocess.run(["git", "-C", wt, "apply", os.path.join(d, "patch.diff")], capture_output=True, text=True)
        if r.returncode:
            print(os.path.basename(d), "patch no longer applies:", r.stderr.strip()[:200]); continue
        env = dict(os.environ, VERIF_REPO=wt)
        r = subprocess.run(["/verif/check", prop], env=env, capture_output=True, text=True)
        lines = [l for l in r.stdout.splitlines() if "conda" not in l]
        viol = [l for l in lines if l.startswith("VIOLATION")]
        meta["caught"] = r.returncode == 1
        meta["last_retest"] = {"repo_head": subprocess.run(["git", "-C", "/repo", "rev-parse", "--short", "HEAD"], capture_output=True, text=True).stdout.strip(),
                               "quick_exit": r.returncode, "violation_lines": [v.split("replay=")[0] + ("no-failing-input-found" if "no-failing-input-found" in v else "replay=<file>") for v in viol[:3]],
                               "summary": lines[-1] if lines else ""}
        json.dump(meta, open(mp, "w"), indent=1)
        print(os.path.basename(d), "caught" if r.returncode == 1 else "MISSED", "|", lines[-1] if lines else "")
    finally:
        subprocess.run(["git", "-C", "/repo", "worktree", "remove", "--force", wt])
        shutil.rmtree("/tmp/verif-scratch-" + hashlib.sha1(os.path.realpath(wt).encode()).hexdigest()[:10], ignore_errors=True)
