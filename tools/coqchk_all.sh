#!/bin/bash
# Dev tool (not part of any registered check): independent re-check of every compiled props/Cnn.vo and everything it
# depends on with coqchk, printing the context summary (axioms, type-in-type, unsafe fixpoints, assumed positivity).
# Run after `./check --setup` (needs the .vo files of /verif/coq).  Output: audit/coqchk.txt
cd /verif/coq || exit 1
mkdir -p /verif/audit
out=/verif/audit/coqchk.txt
: > "$out"
echo "coqchk $(coqchk --version 2>&1 | head -1) over props/*.vo; /repo HEAD $(git -C /repo rev-parse --short HEAD); /verif HEAD $(git -C /verif rev-parse --short HEAD)" >> "$out"
for f in props/C*.vo; do
  m=PV.props.$(basename "$f" .vo)
  echo "=== $m" >> "$out"
  ( ulimit -v 12000000; timeout 1800 coqchk -silent -o -Q . PV "$m" 2>&1 | sed -n '/CONTEXT SUMMARY/,$p' ) >> "$out"
  echo "exit=$?" >> "$out"
done
grep -c "Axioms: <none>" "$out"
