#!/usr/bin/env python3
"""Dev tool (fault enumeration over the repairs): for one `fix:` commit of /repo, revert it on a scratch worktree of
HEAD and run the quick check of every property whose known-findings file records that commit as the repair of a
finding.  A `fixed:` entry suppresses nothing, so the defect coming back must be reported as a VIOLATION (exit 1).
usage: revert_fixes.py <sha> [<sha> ...]      (tools/revert_all_fixes.sh runs it over every fix commit)
Appends one JSON line per commit to /verif/audit/revert_fixes.jsonl."""
import collections
import hashlib
import json
import os
import shutil
import subprocess
import sys

k = json.load(open("/verif/known_findings.json"))
items = k if isinstance(k, list) else (k.get("findings") or k.get("entries"))
props_of = collections.defaultdict(set)
for x in items:
    if x.get("status") == "fixed" and x.get("commit"):
        props_of[x["commit"][:7]].add(x["property"])


def sh(cmd, **kw):
    p = subprocess.run(cmd, capture_output=True, text=True, **kw)
    return p.returncode, "\n".join(l for l in (p.stdout + p.stderr).splitlines() if "conda" not in l)


for sha in sys.argv[1:]:
    sha = sha[:7]
    wt = "/tmp/wt-revert-%s-%d" % (sha, os.getpid())
    res = {"commit": sha, "subject": sh(["git", "-C", "/repo", "log", "-1", "--format=%s", sha])[1][:160],
           "properties": sorted(props_of.get(sha, []))}
    sh(["git", "-C", "/repo", "worktree", "add", "-q", "--detach", wt, "HEAD"])
    try:
        rc, out = sh(["git", "-C", wt, "revert", "--no-commit", sha])
        if rc != 0:
            res["reverts_cleanly"] = False
            res["note"] = "later commits touch the same lines: " + out.strip().splitlines()[-1][:200] if out.strip() else "conflict"
        else:
            res["reverts_cleanly"] = True
            rc, out = sh("cd %s && /venv/bin/python -m pytest -q -p no:cacheprovider 2>&1 | tail -1" % wt, shell=True)
            res["suite"] = out.strip().splitlines()[-1] if out.strip() else ""
            res["checks"] = {}
            for p in res["properties"]:
                rc, out = sh(["/verif/check", p], env=dict(os.environ, VERIF_REPO=wt))
                lines = out.splitlines()
                viol = [l for l in lines if l.startswith("VIOLATION")]
                res["checks"][p] = {"exit": rc, "violations": len(viol),
                                    "with_failing_input": len([v for v in viol if "no-failing-input-found" not in v]),
                                    "summary": lines[-1] if lines else ""}
            res["reported"] = bool(res["checks"]) and all(c["exit"] == 1 for c in res["checks"].values())
    finally:
        sh(["git", "-C", "/repo", "worktree", "remove", "--force", wt])
        shutil.rmtree("/tmp/verif-scratch-" + hashlib.sha1(os.path.realpath(wt).encode()).hexdigest()[:10], ignore_errors=True)
    with open("/verif/audit/revert_fixes.jsonl", "a") as f:
        f.write(json.dumps(res) + "\n")
    print(sha, "clean" if res.get("reverts_cleanly") else "CONFLICT", res.get("reported"), res["properties"],
          {p: (c["exit"], c["with_failing_input"]) for p, c in res.get("checks", {}).items()})
