#!/usr/bin/env python3
"""Dev tool: apply a textual mutation to a scratch worktree of /repo, run pypika's suite and one or more checks.
usage: try_mutant.py <props comma-separated> <file> <old> <new> [<file> <old> <new> ...]   (old/new may use \\n)
       try_mutant.py <props> --patch <file.diff>"""
import os, subprocess, sys, shutil, hashlib
props = sys.argv[1].split(",")
args = sys.argv[2:]
wt = "/tmp/wt-lead-%d" % os.getpid()
subprocess.run(["git", "-C", "/repo", "worktree", "add", "-q", "--detach", wt, "HEAD"], check=True)
try:
    if args[0] == "--patch":
        subprocess.run(["git", "-C", wt, "apply", args[1]], check=True)
    else:
        for i in range(0, len(args), 3):
            f, old, new = args[i], args[i + 1].replace("\\n", "\n"), args[i + 2].replace("\\n", "\n")
            p = os.path.join(wt, f)
            s = open(p).read()
            if s.count(old) < 1:
                print("PATTERN NOT FOUND in", f, ":", old[:80]); sys.exit(2)
            open(p, "w").write(s.replace(old, new))
    r = subprocess.run("cd %s && /venv/bin/python -m pytest -q -p no:cacheprovider -x 2>&1 | tail -1" % wt, shell=True, capture_output=True, text=True)
    print("pytest:", r.stdout.strip())
    for p in props:
        env = dict(os.environ, VERIF_REPO=wt)
        r = subprocess.run(["/verif/check", p] + (["--tier", os.environ["TIER"]] if os.environ.get("TIER") else []), env=env, capture_output=True, text=True)
        lines = [l for l in r.stdout.splitlines() if "conda" not in l]
        viol = [l for l in lines if l.startswith("VIOLATION")]
        print("%s: exit=%d  %s" % (p, r.returncode, lines[-1] if lines else ""))
        for l in viol[:3]:
            print("   ", l)
finally:
    subprocess.run(["git", "-C", "/repo", "worktree", "remove", "--force", wt])
    h = hashlib.sha1(os.path.realpath(wt).encode()).hexdigest()[:10]
    shutil.rmtree("/tmp/verif-scratch-" + h, ignore_errors=True)
