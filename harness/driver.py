#!/venv/bin/python
"""./check driver: extraction -> Coq build (theorems) -> correspondence -> oracle/search -> decision -> evidence.

Usage:
  ./check --setup                       regenerate gen files, _CoqProject, Makefile; full build
  ./check Cnn [--tier quick|thorough]   run one property's check
  ./check Cnn --replay <file>           replay a recorded violation
  ./check --gen-manifest                rebuild MANIFEST.json / known_findings.json from fragments (dev time only)
  ./check --all [--tier T]              run every claimed property sequentially (dev convenience)
"""
import argparse
import fcntl
import glob
import importlib
import json
import os
import random
import re
import shutil
import sys
import time
import traceback

HERE = os.path.dirname(os.path.abspath(__file__))
sys.path.insert(0, os.path.dirname(HERE))
from harness import lib  # noqa: E402
from harness import purity  # noqa: E402
from harness.lib import VERIF, COQ, REPO  # noqa: E402

FORBIDDEN = re.compile(
    r"\b(Admitted|admit|Axiom|Axioms|Parameter|Parameters|Conjecture|Admit Obligations|bypass_check)\b|Unset Guard Checking"
    r"|Unset Positivity Checking|Unset Universe Checking|type-in-type|impredicative-set")
STMT = re.compile(r"^\s*(?:Local\s+|Global\s+|#\[[^\]]*\]\s*)*(Theorem|Lemma|Corollary|Example|Fact|Proposition|Remark)\s+([A-Za-z_][A-Za-z0-9_']*)", re.M)
REQ = re.compile(r"From\s+PV\s+Require\s+(?:Import|Export)\s+((?:[A-Za-z_][\w']*(?:\.[A-Za-z_][\w']*)*\s*)+)\.(?=\s|$)")


def prop_ids():
    return sorted(os.path.basename(p)[:-3] for p in glob.glob(os.path.join(HERE, "props", "C[0-9][0-9].py")))


def load_plugin(pid):
    return importlib.import_module("harness.props." + pid)


# ----------------------------------------------------------------------------------------------
# extraction (T1): every plugin may regenerate Coq files from /repo
# ----------------------------------------------------------------------------------------------
def run_shared_extracts(names, log):
    """Shared extractors (harness/shared_extract.py) named by a plugin's SHARED_EXTRACT; returns {name: error or None}."""
    from harness import shared_extract
    status = {}
    for nme in names:
        fn, gen_files = shared_extract.SHARED[nme]
        try:
            for rel, content in fn().items():
                lib.write_if_changed(os.path.join(COQ, rel), content)
            status["shared:" + nme] = None
        except Exception as e:
            status["shared:" + nme] = "extraction failed: %s: %s" % (type(e).__name__, e)
            log.append("shared extract %s failed:\n%s" % (nme, traceback.format_exc()))
            for rel in gen_files:
                lib.write_if_changed(os.path.join(COQ, rel),
                                     "(* extraction failed: %s *)\nDefinition extraction_failed : unit := tt.\n"
                                     % str(e).replace("*)", "* )"))
    return status


def run_extracts(log, only=None):
    """Run plugins' extract() (all of them, or those in `only`); returns {pid: error or None}."""
    status = {}
    for pid in (prop_ids() if only is None else only):
        try:
            pl = load_plugin(pid)
        except Exception as e:  # plugin itself broken: report for that property only
            status[pid] = "plugin import failed: %r" % (e,)
            log.append("plugin %s import failed:\n%s" % (pid, traceback.format_exc()))
            continue
        ext = getattr(pl, "extract", None)
        gen_files = getattr(pl, "GEN_FILES", [])
        if ext is None:
            status[pid] = None
            continue
        try:
            files = ext()
            for rel, content in files.items():
                lib.write_if_changed(os.path.join(COQ, rel), content)
            status[pid] = None
        except Exception as e:
            status[pid] = "extraction failed: %s: %s" % (type(e).__name__, e)
            log.append("extract %s failed:\n%s" % (pid, traceback.format_exc()))
            for rel in gen_files:  # poison: dependants must not build against stale tables
                lib.write_if_changed(os.path.join(COQ, rel),
                                     "(* extraction failed: %s *)\nDefinition extraction_failed : unit := tt.\n"
                                     % str(e).replace("*)", "* )"))
    return status


# ----------------------------------------------------------------------------------------------
# Coq project
# ----------------------------------------------------------------------------------------------
def project_files():
    out = []
    for root, dirs, files in os.walk(COQ):
        rel = os.path.relpath(root, COQ)
        if rel.split(os.sep)[0] in ("corr", "ocaml"):
            continue
        for f in files:
            if f.endswith(".v") and not f.startswith("."):
                out.append(os.path.normpath(os.path.join(rel, f)))
    return sorted(out)


def ensure_makefile():
    files = project_files()
    content = "-Q . PV\n" + "\n".join(files) + "\n"
    changed = lib.write_if_changed(os.path.join(COQ, "_CoqProject"), content)
    if changed or not os.path.exists(os.path.join(COQ, "Makefile")):
        rc, out, _ = lib.run(["coq_makefile", "-f", "_CoqProject", "-o", "Makefile"], cwd=COQ, timeout=120)
        if rc != 0:
            raise RuntimeError("coq_makefile failed: " + out)


class BuildLock:
    def __enter__(self):
        self.f = open(os.path.join(COQ, ".lock"), "w")
        fcntl.flock(self.f, fcntl.LOCK_EX)
        return self

    def __exit__(self, *a):
        fcntl.flock(self.f, fcntl.LOCK_UN)
        self.f.close()


def deps_of(rel, seen=None):
    """Transitive project-file dependencies of coq/<rel> (by parsing `From PV Require Import`)."""
    seen = seen if seen is not None else []
    if rel in seen:
        return seen
    seen.append(rel)
    try:
        src = open(os.path.join(COQ, rel)).read()
    except FileNotFoundError:
        return seen
    src_nc = re.sub(r"\(\*.*?\*\)", " ", src, flags=re.S)
    for m in REQ.finditer(src_nc + " "):
        for mod in m.group(1).split():
            p = mod.replace(".", "/") + ".v"
            if os.path.exists(os.path.join(COQ, p)):
                deps_of(p, seen)
    return seen


def strip_comments(src):
    # remove (possibly nested) Coq comments
    out, depth, i = [], 0, 0
    while i < len(src):
        if src.startswith("(*", i):
            depth += 1
            i += 2
        elif src.startswith("*)", i) and depth:
            depth -= 1
            i += 2
        else:
            if not depth:
                out.append(src[i])
            i += 1
    return "".join(out)


def scan_sources(files):
    """Count proof obligations (named statements) and look for forbidden constructs."""
    n, bad, names = 0, [], {}
    for rel in files:
        src = strip_comments(open(os.path.join(COQ, rel)).read())
        src = re.sub(r'"(?:[^"]|"")*"', '""', src)
        st = STMT.findall(src)
        n += len(st)
        names[rel] = [x[1] for x in st]
        for m in FORBIDDEN.finditer(src):
            bad.append("%s: %s" % (rel, m.group(0)))
    return n, bad, names


def _needs_build(rel, deps_direct):
    v = os.path.join(COQ, rel)
    vo = v[:-2] + ".vo"
    if not os.path.exists(vo):
        return True
    t = os.path.getmtime(vo)
    if os.path.getmtime(v) > t:
        return True
    for d in deps_direct:
        dvo = os.path.join(COQ, d[:-2] + ".vo")
        if not os.path.exists(dvo) or os.path.getmtime(dvo) > t:
            return True
    return False


def direct_deps(rel):
    try:
        src = strip_comments(open(os.path.join(COQ, rel)).read())
    except FileNotFoundError:
        return []
    out = []
    for m in REQ.finditer(src + " "):
        for mod in m.group(1).split():
            p = mod.replace(".", "/") + ".v"
            if os.path.exists(os.path.join(COQ, p)) and p not in out and p != rel:
                out.append(p)
    return out


def build_targets(rels, timeout=1500):
    """Incremental full-.vo build of the given files and everything they depend on (coqc, never -vos).
    Files are compiled level by level (dependencies first), each level in parallel."""
    import concurrent.futures as cf
    t0 = time.time()
    closure = []
    for r in rels:
        deps_of(r, closure)
    dd = {r: direct_deps(r) for r in closure}
    level = {}

    def lv(r, stack=()):
        if r in level:
            return level[r]
        if r in stack:
            raise RuntimeError("dependency cycle at " + r)
        level[r] = 1 + max([lv(d, stack + (r,)) for d in dd[r]] + [-1])
        return level[r]
    for r in closure:
        lv(r)
    out_all, rc_all = [], 0
    with BuildLock():
        for L_ in sorted(set(level.values())):
            todo = [r for r in closure if level[r] == L_ and _needs_build(r, dd[r])]
            if not todo:
                continue

            def one(r):
                return r, lib.run(["coqc"] + lib.COQFLAGS + [os.path.join(COQ, r)], timeout=timeout, cwd=COQ)
            with cf.ThreadPoolExecutor(max_workers=lib.NPROC) as ex:
                for r, (rc, out, dt) in ex.map(one, todo):
                    out_all.append("coqc %s rc=%d %.1fs" % (r, rc, dt))
                    if rc != 0:
                        rc_all = rc
                        out_all.append(out)
                        try:
                            os.remove(os.path.join(COQ, r[:-2] + ".vo"))
                        except OSError:
                            pass
            if rc_all:
                break
    return rc_all, "\n".join(out_all), time.time() - t0


def build_target(rel_v, timeout=1500):
    return build_targets([rel_v], timeout)


def print_assumptions(pid, prop_rel, names, workdir):
    """Compile a tiny file printing the assumptions of every named statement of props/Cnn.v."""
    mod = prop_rel[:-2].replace("/", ".")
    src = "From PV Require Import %s.\n" % mod
    for nme in names:
        src += 'Print Assumptions %s.\n' % nme
    path = os.path.join(workdir, "assum_%s.v" % pid)
    with open(path, "w") as f:
        f.write(src)
    rc, out, _ = lib.run(["coqc"] + lib.COQFLAGS + [path], timeout=600, cwd=workdir)
    res = {}
    if rc != 0:
        return rc, out, res
    # split output per theorem: each Print Assumptions prints either "Closed under the global context" or "Axioms:\n..."
    chunks = re.split(r"(?=Closed under the global context|Axioms:)", out)
    chunks = [c for c in chunks if c.startswith("Closed") or c.startswith("Axioms:")]
    for nme, c in zip(names, chunks):
        if c.startswith("Closed"):
            res[nme] = []
        else:
            ax = [ln.split(":")[0].strip() for ln in c.splitlines()[1:] if re.match(r"^[A-Za-z_]", ln)]
            res[nme] = ax
    return rc, out, res


# ----------------------------------------------------------------------------------------------
# correspondence (T2)
# ----------------------------------------------------------------------------------------------
def compile_shards(pl, coq_cases, workdir, shard_size=None):
    """coq_cases: list of Gallina texts. Returns (mismatching indices, errors[list of str])."""
    shard_size = shard_size or getattr(pl, "SHARD", 300)
    mods = " ".join(pl.CORR_REQUIRE)
    shards = []
    for k in range(0, len(coq_cases), shard_size):
        chunk = coq_cases[k:k + shard_size]
        path = os.path.join(workdir, "cases_%s_%d.v" % (pl.ID, k // shard_size))
        with open(path, "w") as f:
            f.write("From PV Require Import Base %s.\n" % mods)
            for line in getattr(pl, "CORR_PREAMBLE", []):
                f.write(line + "\n")
            f.write("Definition cases := [\n " + ";\n ".join(chunk) + "\n].\n")
            f.write("Eval vm_compute in (mismatches %s cases).\n" % pl.CORR_CHECK)
        shards.append((k, path))
    import concurrent.futures as cf
    bad, errors = [], []

    def one(kp):
        k, path = kp
        rc, out, dt = lib.run(["coqc"] + lib.COQFLAGS + [path], timeout=getattr(pl, "SHARD_TIMEOUT", 600), cwd=workdir)
        return k, path, rc, out

    with cf.ThreadPoolExecutor(max_workers=lib.NPROC) as ex:
        for k, path, rc, out in ex.map(one, shards):
            if rc != 0:
                errors.append("%s: rc=%d %s" % (os.path.basename(path), rc, out[-1500:]))
                continue
            idx = lib.parse_nat_list(out)
            if idx is None:
                errors.append("%s: cannot parse coqc output: %s" % (os.path.basename(path), out[-800:]))
                continue
            bad.extend(k + i for i in idx)
    return sorted(bad), errors


def show_model(pl, coq_case, workdir, tag):
    show = getattr(pl, "CORR_SHOW", None)
    if not show:
        return None
    path = os.path.join(workdir, "show_%s_%s.v" % (pl.ID, tag))
    with open(path, "w") as f:
        f.write("From PV Require Import Base %s.\n" % " ".join(pl.CORR_REQUIRE))
        for line in getattr(pl, "CORR_PREAMBLE", []):
            f.write(line + "\n")
        f.write("Eval vm_compute in (%s (%s)).\n" % (show, coq_case))
    rc, out, _ = lib.run(["coqc"] + lib.COQFLAGS + [path], timeout=300, cwd=workdir)
    return out[-4000:]


# ----------------------------------------------------------------------------------------------
# known findings
# ----------------------------------------------------------------------------------------------
def load_known(pid):
    path = os.path.join(VERIF, "known_findings.json")
    try:
        data = json.load(open(path))
    except FileNotFoundError:
        return []
    return [e for e in data.get("findings", []) if e.get("property") == pid]


def sig_key(sig):
    return json.dumps(sig, sort_keys=True)


# ----------------------------------------------------------------------------------------------
# one check
# ----------------------------------------------------------------------------------------------
PURITY_SHARE = float(os.environ.get("VERIF_PURITY_SHARE", "0.25"))
PURITY_CLONE_SHARE = float(os.environ.get("VERIF_PURITY_CLONE_SHARE", "0.4"))   # of the perturbed cases


def mark_perturbed(pl, pid, seed, gen):
    """a fixed share of the generated cases is run under the history perturbation of harness/purity.py (own PRNG, so the
    plug-in's random stream is not shifted); the key travels with the case into the replay file"""
    if not getattr(pl, "PURITY_SHIM", True) or pid in purity.OPT_OUT or PURITY_SHARE <= 0:
        return 0
    r = random.Random("purity-%s-%d" % (pid, seed))
    n = 0
    for c in gen:
        if isinstance(c, dict) and "_pre" not in c and r.random() < PURITY_SHARE:
            c["_pre"] = 2 if r.random() < PURITY_CLONE_SHARE else 1
            n += 1
    return n


def safe_impl(pl, case):
    try:
        with purity.perturbed(isinstance(case, dict) and case.get("_pre")):
            return pl.run_impl(case)
    except Exception as e:  # plugin run_impl is expected to catch pypika's own exceptions; this is the safety net
        return {"harness_exc": "%s: %s" % (type(e).__name__, e)}


def write_replay(pid, payload):
    d = os.path.join(lib.OUT, "replay")
    os.makedirs(d, exist_ok=True)
    path = os.path.join(d, "%s-%s.json" % (pid, lib.sha(payload)))
    with open(path, "w") as f:
        json.dump(payload, f, indent=1, default=str)
    return path


def check(pid, tier, seed):
    t0 = time.time()
    log = []
    pl = load_plugin(pid)
    rng = random.Random("%s-%d" % (pid, seed))
    workdir = os.path.join(COQ, "corr", "%s-%d" % (pid, os.getpid()))
    shutil.rmtree(workdir, ignore_errors=True)
    os.makedirs(workdir)
    broken = []          # broken proof obligations / correspondence (strings)
    assumptions = {}
    obligations = discharged = 0
    make_cmd = "coqc -Q coq PV <every file %s depends on, dependencies first> (full .vo, Coq 8.16.1; harness/driver.py build_targets) + coqc Print Assumptions" % pl.COQ_PROP
    try:
        # 1. extraction
        ext_status = run_shared_extracts(getattr(pl, 'SHARED_EXTRACT', []), log)
        ext_status.update(run_extracts(log, [pid] + list(getattr(pl, 'DEPENDS_ON_EXTRACT', []))))
        for p_, st in ext_status.items():
            if st and (p_ == pid or p_.startswith("shared:") or p_ in getattr(pl, "DEPENDS_ON_EXTRACT", [])):
                broken.append("extract:%s: %s" % (p_, st))
        # 2. prove
        files = deps_of(pl.COQ_PROP)
        obligations, forbidden, names = scan_sources(files)
        if forbidden:
            broken.append("forbidden constructs in development: " + "; ".join(forbidden[:5]))
        rc, out, dt = build_targets([pl.COQ_PROP] + [m.replace('.', '/') + '.v' for m in pl.CORR_REQUIRE])
        log.append("build rc=%d in %.1fs" % (rc, dt))
        if rc != 0:
            m = re.search(r'File "([^"]+)", line (\d+).*?\n(Error:.*?)(?:\n\n|\Z)', out, re.S)
            where = ("%s:%s %s" % (m.group(1), m.group(2), " ".join(m.group(3).split())[:400])) if m else out[-600:]
            broken.append("proof:%s: build failed: %s" % (pl.COQ_PROP, where))
            log.append(out[-3000:])
        else:
            discharged = obligations
            prop_names = names.get(pl.COQ_PROP, [])
            rc2, out2, assumptions = print_assumptions(pid, pl.COQ_PROP, prop_names, workdir)
            if rc2 != 0:
                broken.append("proof:%s: Print Assumptions failed: %s" % (pl.COQ_PROP, out2[-400:]))
            allowed = set(getattr(pl, "ALLOWED_AXIOMS", []))
            for nme, ax in assumptions.items():
                extra = [a for a in ax if a not in allowed]
                if extra:
                    broken.append("proof:%s depends on undeclared axioms %s" % (nme, extra))
        # 3. correspondence + 4. oracle
        corpus = list(getattr(pl, "corpus", lambda: [])())
        gen = list(pl.gen_cases(rng, tier))
        n_perturbed = mark_perturbed(pl, pid, seed, gen)
        cases = corpus + gen
        outcomes = [safe_impl(pl, c) for c in cases]
        coq_cases, coq_idx = [], []
        for i, (c, o) in enumerate(zip(cases, outcomes)):
            try:
                t = pl.to_coq(c, o)
            except Exception as e:
                broken.append("corr:%s: to_coq failed on case %d: %s: %s" % (pid, i, type(e).__name__, e))
                continue
            if t is not None:
                coq_cases.append(t)
                coq_idx.append(i)
        mism = []
        if coq_cases and rc == 0:
            bad, errs = compile_shards(pl, coq_cases, workdir)
            mism = [coq_idx[b] for b in bad]
            for e in errs:
                broken.append("corr:%s: %s" % (pid, e))
            if mism:
                broken.append("corr:%s: model and implementation disagree on %d of %d cases (first: #%d)"
                              % (pid, len(mism), len(coq_cases), mism[0]))
        elif not coq_cases:
            broken.append("corr:%s: no correspondence cases were produced" % pid)
        viols = []   # (case index, violation)
        for i, (c, o) in enumerate(zip(cases, outcomes)):
            try:
                for v in pl.oracle(c, o) or []:
                    viols.append((i, v))
            except Exception as e:
                broken.append("oracle:%s: crashed on case %d: %s: %s" % (pid, i, type(e).__name__, e))
        # targeted search when something broke
        searched = 0
        if broken and hasattr(pl, "targeted_search"):
            try:
                extra = list(pl.targeted_search(rng, broken, [cases[i] for i in mism[:20]]))
            except Exception as e:
                extra = []
                log.append("targeted_search crashed: %r" % (e,))
            for c in extra:
                o = safe_impl(pl, c)
                searched += 1
                cases.append(c)
                outcomes.append(o)
                try:
                    for v in pl.oracle(c, o) or []:
                        viols.append((len(cases) - 1, v))
                except Exception:
                    pass
        # 5. decide
        known = load_known(pid)
        open_sigs = {sig_key(e["signature"]): e for e in known if e.get("status") == "open"}
        new_viols, seen_known = [], {}
        for i, v in viols:
            k = sig_key(v["signature"])
            if k in open_sigs:
                seen_known.setdefault(k, (i, v))
            else:
                new_viols.append((i, v))
        exit_code = 0
        lines = []
        if new_viols:
            # one replay per distinct signature (first 5)
            done = set()
            for i, v in new_viols:
                k = sig_key(v["signature"])
                if k in done:
                    continue
                done.add(k)
                if len(done) > 5:
                    break
                path = write_replay(pid, {"property": pid, "kind": "violation", "case": cases[i], "impl_outcome": outcomes[i],
                                          "violation": v, "seed": seed, "tier": tier, "broken": broken})
                lines.append("VIOLATION property=%s replay=%s" % (pid, path))
            exit_code = 1
        elif broken:
            detail = {"property": pid, "kind": "no-failing-input-found", "broken": broken, "seed": seed, "tier": tier,
                      "searched_cases": len(cases), "log": log[-5:]}
            if mism:
                i = mism[0]
                detail["first_disagreement"] = {"case": cases[i], "impl_outcome": outcomes[i]}
                try:
                    detail["first_disagreement"]["model"] = show_model(pl, pl.to_coq(cases[i], outcomes[i]), workdir, "m0")
                except Exception:
                    pass
            path = write_replay(pid, detail)
            lines.append("VIOLATION property=%s replay=%s no-failing-input-found" % (pid, path))
            exit_code = 1
        for k, (i, v) in sorted(seen_known.items()):
            e = open_sigs[k]
            print("KNOWN-FINDING: property=%s %s [%s]" % (pid, e.get("what", v.get("what", "")), e.get("id", "")))
        for ln in lines:
            print(ln)
        # 6. evidence
        nontriv = set()
        for c in cases:
            try:
                k = pl.nontrivial_key(c)
            except Exception:
                k = None
            if k is not None:
                nontriv.add(k if isinstance(k, (str, int, tuple)) else json.dumps(k, sort_keys=True, default=str))
        samples = []
        for i in list(range(min(2, len(corpus)))) + list(range(len(corpus), min(len(corpus) + 3, len(cases)))):
            samples.append({"case": cases[i], "impl_outcome": outcomes[i]})
        tb = ["Coq 8.16.1 kernel (coqc, full .vo build; vm_compute used inside proofs; native_compute not used)"]
        axs = sorted({a for ax in assumptions.values() for a in ax})
        tb.append("Print Assumptions over %d statements of %s: %s" % (
            len(assumptions), pl.COQ_PROP, "all closed under the global context" if not axs else "axioms: " + ", ".join(axs)))
        tb += list(getattr(pl, "TRUSTED", []))
        ev = {
            "property_id": pid, "tier": tier, "seed": seed, "level": "proof",
            "coverage": {
                "obligations": obligations, "discharged": discharged if not any(b.startswith("proof:") for b in broken) else 0,
                "checker_cmd": make_cmd, "trusted_base": tb,
                "theorems": {k: (v or "closed") for k, v in assumptions.items()},
                "model_files": files,
                "evaluations": len(cases), "distinct_nontrivial": len(nontriv),
                "rule": getattr(pl, "RULE", ""),
                "samples": samples,
                "traces_validated_against_impl": len(coq_cases) - len(mism) if rc == 0 else 0,
                "correspondence_cases": len(coq_cases), "correspondence_mismatches": len(mism),
                "corpus_cases": len(corpus), "targeted_search_cases": searched,
                "history_perturbed_cases": dict(purity.counters(), cases=n_perturbed),
                "oracle_violations_total": len(viols), "known_findings_reconfirmed": len(seen_known),
                "broken_obligations": broken,
                "histogram": getattr(pl, "histogram", lambda cs: {})(cases),
                "exhaustive": False,
            },
            "assumptions": list(getattr(pl, "ASSUMPTIONS", [])),
            "wall_s": round(time.time() - t0, 2),
            "violations": len({sig_key(v["signature"]) for _, v in new_viols}) + (1 if (broken and not new_viols) else 0),
        }
        os.makedirs(os.path.join(lib.OUT, "evidence"), exist_ok=True)
        with open(os.path.join(lib.OUT, "evidence", pid + ".json"), "w") as f:
            json.dump(ev, f, indent=1, default=str)
        if os.environ.get("VERIF_VERBOSE"):
            print("\n".join(log))
            print("broken:", broken)
        print("%s: %s  obligations=%d cases=%d corr=%d mism=%d oracle_viol=%d known=%d wall=%.1fs" % (
            pid, "OK" if exit_code == 0 else "FAIL", obligations, len(cases), len(coq_cases), len(mism), len(viols),
            len(seen_known), time.time() - t0))
        return exit_code
    finally:
        if not os.environ.get("VERIF_KEEP"):
            shutil.rmtree(workdir, ignore_errors=True)


def replay(pid, path):
    pl = load_plugin(pid)
    data = json.load(open(path))
    print("replay %s kind=%s" % (pid, data.get("kind")))
    if data.get("kind") == "violation":
        c = data["case"]
        o = safe_impl(pl, c)
        print("case:", json.dumps(c, default=str))
        print("implementation outcome now:", json.dumps(o, default=str)[:2000])
        vs = pl.oracle(c, o) or []
        for v in vs:
            print("VIOLATES:", json.dumps(v, default=str)[:2000])
        if not vs:
            print("no violation on the current tree")
        return 1 if vs else 0
    print("broken obligations recorded:")
    for b in data.get("broken", []):
        print("  -", b)
    if "first_disagreement" in data:
        fd = data["first_disagreement"]
        print("first disagreeing case:", json.dumps(fd.get("case"), default=str)[:2000])
        print("implementation then:", json.dumps(fd.get("impl_outcome"), default=str)[:1500])
        print("implementation now :", json.dumps(safe_impl(pl, fd["case"]), default=str)[:1500])
        print("model:", fd.get("model"))
    print("re-running the check to see whether the obligations hold now:")
    return check(pid, data.get("tier", "quick"), int(data.get("seed", 0)))


def setup():
    log = []
    from harness import shared_extract
    st = run_shared_extracts(list(shared_extract.SHARED), log)
    st.update(run_extracts(log))
    for k, v in st.items():
        if v:
            print("extract", k, v)
    try:
        ensure_makefile()   # _CoqProject / Makefile for humans; the checks use the built-in incremental builder
    except Exception as e:
        print("note: coq_makefile:", e)
    try:
        claimed = {c["property_id"] for c in json.load(open(os.path.join(VERIF, "MANIFEST.json")))["checks"]}
    except Exception:
        claimed = set()
    failed, t0 = [], time.time()
    for pid in prop_ids():
        try:
            pl = load_plugin(pid)
            targets = [pl.COQ_PROP] + [m.replace('.', '/') + '.v' for m in pl.CORR_REQUIRE]
        except Exception as e:
            print("plugin %s not loadable: %s" % (pid, e))
            if pid in claimed:
                failed.append(pid)
            continue
        missing = [t for t in targets if not os.path.exists(os.path.join(COQ, t))]
        if missing:
            print("plugin %s: missing %s" % (pid, missing))
            if pid in claimed:
                failed.append(pid)
            continue
        rc, out, dt = build_targets(targets, timeout=3000)
        print("%s: coq build %s in %.0fs" % (pid, "ok" if rc == 0 else "FAILED", dt))
        if rc:
            print(out[-3000:])
            if pid in claimed:
                failed.append(pid)
    print("setup done in %.0fs; failed claimed properties: %s" % (time.time() - t0, failed or "none"))
    return 1 if failed else 0


def gen_manifest():
    frags = []
    for p in sorted(glob.glob(os.path.join(VERIF, "manifest.d", "C*.json"))):
        frags.append(json.load(open(p)))
    base = json.load(open(os.path.join(VERIF, "manifest.d", "_base.json")))
    claimed = {f["property_id"] for f in frags}
    base["checks"] = frags
    allp = [json.loads(l)["id"] for l in open(os.path.join(VERIF, "properties.jsonl"))]
    na = {e["property_id"]: e for e in base.get("not_applicable", [])}
    base["not_applicable"] = [na.get(p, {"property_id": p, "reason": "check not built yet in this round (no technique switch; see DESIGN.md §9)"})
                              for p in allp if p not in claimed]
    with open(os.path.join(VERIF, "MANIFEST.json"), "w") as f:
        json.dump(base, f, indent=1)
    findings = []
    for p in sorted(glob.glob(os.path.join(VERIF, "findings.d", "C*.json"))):
        findings += json.load(open(p))
    with open(os.path.join(VERIF, "known_findings.json"), "w") as f:
        json.dump({"comment": "committed list of known findings; never written at run time. status=open suppresses exactly "
                              "the violations with the same signature; status=fixed suppresses nothing.",
                   "findings": findings}, f, indent=1)
    # DESIGN.md section 10: index of the per-property as-built notes
    dpath = os.path.join(VERIF, "DESIGN.md")
    try:
        d = open(dpath).read()
        a = d.index("## 10. As built: index")
        b = d.index("## Appendix A")
        b = d.rfind("-" * 99, a, b)
        lines = ["## 10. As built: index (filled by `./check --gen-manifest` from design.d/)", "",
                 "Per-property as-built notes (model, theorem list with `Print Assumptions`, trusted base, findings, mutations tried):", ""]
        claimed_by = {f["property_id"]: f for f in frags}
        for pth in sorted(glob.glob(os.path.join(VERIF, "design.d", "C*.md"))):
            pid = os.path.basename(pth)[:-3]
            first = next((ln.strip("# ").strip() for ln in open(pth) if ln.strip()), pid)
            tech = claimed_by.get(pid, {}).get("technique", "")
            nopen = len([e for e in findings if e.get("property") == pid and e.get("status") == "open"])
            nfix = len([e for e in findings if e.get("property") == pid and e.get("status") == "fixed"])
            lines.append("* `design.d/%s.md` — %s  (open findings: %d, fixed: %d)%s" % (pid, first, nopen, nfix, ("; technique: " + tech) if tech else ""))
        lines += ["", "Seeded mutants used to test the checks (independent red-team agents, see `seeded/*/meta.json`):", ""]
        for mp in sorted(glob.glob(os.path.join(VERIF, "seeded", "*", "meta.json"))):
            m = json.load(open(mp))
            lines.append("* `%s` — %s: %s — caught: %s" % (os.path.basename(os.path.dirname(mp)), m.get("property"), m.get("what", "")[:160], m.get("caught")))
        d = d[:a] + "\n".join(lines) + "\n\n" + d[b:]
        open(dpath, "w").write(d)
    except Exception as e:
        print("note: DESIGN.md index not updated:", e)
    print("MANIFEST.json: %d checks, %d not_applicable; known_findings.json: %d entries" % (
        len(frags), len(base["not_applicable"]), len(findings)))


def main():
    ap = argparse.ArgumentParser()
    ap.add_argument("prop", nargs="?")
    ap.add_argument("--tier", default=os.environ.get("VERIF_TIER", "quick"), choices=["quick", "thorough"])
    ap.add_argument("--replay")
    ap.add_argument("--setup", action="store_true")
    ap.add_argument("--gen-manifest", action="store_true")
    ap.add_argument("--all", action="store_true")
    a = ap.parse_args()
    os.chdir(VERIF)
    seed = int(os.environ.get("VERIF_SEED", "0") or 0)
    if a.setup:
        sys.exit(setup())
    if a.gen_manifest:
        gen_manifest()
        return
    if a.all:
        rc = 0
        for pid in prop_ids():
            rc |= check(pid, a.tier, seed)
        sys.exit(rc)
    if not a.prop:
        ap.error("property id required")
    if a.replay:
        sys.exit(replay(a.prop, a.replay))
    sys.exit(check(a.prop, a.tier, seed))


if __name__ == "__main__":
    main()
