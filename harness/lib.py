"""Shared helpers for the pypika verification harness (Coq text emission, shard compilation, hashing)."""
import hashlib
import json
import os
import re
import subprocess
import sys
import time

VERIF = os.path.dirname(os.path.dirname(os.path.abspath(__file__)))
REPO = os.environ.get("VERIF_REPO", "/repo")
SCRATCH = os.path.realpath(REPO) != "/repo"
# Scratch mode (VERIF_REPO points at a worktree, e.g. a mutant under /tmp): the Coq tree is copied to a private
# directory so that regenerated tables and build output never touch /verif/coq; evidence and replays go there too.
if SCRATCH:
    OUT = os.path.join("/tmp", "verif-scratch-" + hashlib.sha1(os.path.realpath(REPO).encode()).hexdigest()[:10])
    COQ = os.path.join(OUT, "coq")
    os.makedirs(OUT, exist_ok=True)
    _r = subprocess.run(["rsync", "-a", "--delete", "--exclude", "corr/", "--exclude", ".lock",
                         os.path.join(VERIF, "coq") + "/", COQ + "/"])
    if _r.returncode not in (0, 24):     # 24 = a source file vanished while copying (someone else is compiling): harmless
        raise RuntimeError("rsync of the Coq tree failed with status %d" % _r.returncode)
else:
    OUT = VERIF
    COQ = os.path.join(VERIF, "coq")
COQFLAGS = ["-Q", COQ, "PV"]
NPROC = int(os.environ.get("VERIF_JOBS", "12"))


# ----------------------------------------------------------------------------------------------
# Gallina literal emission
# ----------------------------------------------------------------------------------------------
def S(s):
    """Python str (or bytes) -> Gallina string expression (UTF-8 bytes)."""
    if s is None:
        raise ValueError("S(None)")
    b = s.encode("utf-8") if isinstance(s, str) else bytes(s)
    if all(32 <= c < 127 for c in b):
        return '"' + b.decode("ascii").replace('"', '""') + '"'
    return "(codes [" + ";".join(str(c) for c in b) + "])"


def OS(s):
    """Optional[str] -> Gallina option string"""
    return "None" if s is None else "(Some " + S(s) + ")"


def Zc(z):
    z = int(z)
    return "(%d)%%Z" % z


def OZ(z):
    return "None" if z is None else "(Some " + Zc(z) + ")"


def B(b):
    return "true" if b else "false"


def OB(b):
    return "None" if b is None else "(Some " + B(b) + ")"


def N(n):
    return "%d%%nat" % int(n)


def L(items):
    return "[" + "; ".join(items) + "]"


def O(x):
    return "None" if x is None else "(Some " + x + ")"


def P(*xs):
    return "(" + ", ".join(xs) + ")"


# ----------------------------------------------------------------------------------------------
# misc
# ----------------------------------------------------------------------------------------------
def sha(obj):
    return hashlib.sha1(json.dumps(obj, sort_keys=True, default=str).encode()).hexdigest()[:16]


def write_if_changed(path, content):
    os.makedirs(os.path.dirname(path), exist_ok=True)
    try:
        with open(path) as f:
            if f.read() == content:
                return False
    except FileNotFoundError:
        pass
    tmp = path + ".tmp.%d" % os.getpid()
    with open(tmp, "w") as f:
        f.write(content)
    os.replace(tmp, path)
    return True


MEM_LIMIT = int(os.environ.get("VERIF_MEM_LIMIT_GB", "12")) << 30   # address-space cap for every child (coqc, ocaml ...)


def _limit_child():
    import resource
    try:
        resource.setrlimit(resource.RLIMIT_AS, (MEM_LIMIT, MEM_LIMIT))
    except (ValueError, OSError):
        pass


def run(cmd, timeout=900, cwd=None, env=None):
    """run a child under a wall-clock timeout and an address-space cap (a runaway coqc must not take the machine)"""
    t0 = time.time()
    try:
        p = subprocess.run(cmd, cwd=cwd, env=env, stdout=subprocess.PIPE, stderr=subprocess.STDOUT,
                           timeout=timeout, text=True, errors="replace", preexec_fn=_limit_child)
        return p.returncode, p.stdout, time.time() - t0
    except subprocess.TimeoutExpired as e:
        out = e.stdout if isinstance(e.stdout, str) else (e.stdout or b"").decode("utf-8", "replace")
        return 124, (out or "") + "\nTIMEOUT after %ss" % timeout, time.time() - t0


def exc_name(e):
    return type(e).__name__


_EVAL_RE = re.compile(r"=\s*(\[.*?\])\s*:\s*list nat", re.S)


def parse_nat_list(out):
    """Parse the `= [..] : list nat` answer printed by Eval vm_compute."""
    m = _EVAL_RE.search(out)
    if not m:
        return None
    body = m.group(1).strip()[1:-1].strip()
    if not body:
        return []
    return [int(x) for x in re.split(r"[;\s]+", body) if x]


def coq_string_unescape(s):
    return s.replace('""', '"')
