"""The `queries` case family: statement specs, their construction on pypika (all ten query classes), their Gallina
form (coq/Query.v) and generators.  Shared by the statement-level property plugins."""
from harness import terms_family as tf
from harness.lib import S, OS, OZ, B, L, O, P
from harness.query_extract import CLASSES, qclass

CLS_CTOR = {name: ctor for ctor, name in CLASSES}
CLS_NAMES = [name for _, name in CLASSES]
JHOW = {"inner": "JInner", "left": "JLeft", "right": "JRight", "outer": "JOuter", "left_outer": "JLeftOuter",
        "right_outer": "JRightOuter", "full_outer": "JFullOuter", "cross": "JCross", "hash": "JHash"}
SETOP = {"union": "SUnion", "union_all": "SUnionAll", "intersect": "SIntersect", "except_of": "SExcept", "minus": "SMinus"}


# ----------------------------------------------------------------------------------------------
# spec -> pypika
# ----------------------------------------------------------------------------------------------
def build_source(s):
    from pypika import AliasedQuery
    if s[0] == "t":
        return tf.mk_table(s[1])
    if s[0] == "q":
        return build_query(s[1])
    if s[0] == "a":
        return AliasedQuery(s[1])
    raise ValueError(s)


def build_item(it):
    import pypika.terms as T
    import pypika.enums as E
    k = it[0]
    if k == "t":
        return tf.build(it[1])
    if k == "sub":
        return build_query(it[1])
    if k == "in":
        c = T.ContainsCriterion(tf.build(it[1]), build_query(it[2]))
        return c.negate() if it[3] else c
    if k == "exists":
        c = T.ExistsCriterion(build_query(it[1]))
        return c.negate() if it[2] else c
    if k == "cmp":
        cls = E.Equality if it[1] in tf.EQUALITY else E.Matching
        return T.BasicCriterion(getattr(cls, it[1]), tf.build(it[2]), build_query(it[3]))
    if k == "func":
        return T.Function(it[1], *[build_item(a) for a in it[2]], alias=it[3])
    if k == "cplx":
        return T.ComplexCriterion(getattr(E.Boolean, it[1] + "_"), build_item(it[2]), build_item(it[3]))
    if k == "not":
        return T.Not(build_item(it[1]))
    raise ValueError(k)


def _with_sources(srcs, fn):
    """run fn with "#i" resolving to srcs[i]; nested statements save/restore"""
    saved = dict(tf.RESOLVER)
    tf.RESOLVER.clear()
    tf.RESOLVER.update({i: o for i, o in enumerate(srcs)})
    try:
        return fn()
    finally:
        tf.RESOLVER.clear()
        tf.RESOLVER.update(saved)


def build_query(s):
    import pypika.enums as E
    from pypika import Order
    k = s["k"]
    if k == "set":
        q = build_query(s["base"])
        for i, (op, other) in enumerate(s["ops"]):
            q = getattr(q, op)(build_query(other))
        for t, d in s.get("orderby", []):
            q = q.orderby(tf.build(t), **({"order": getattr(Order, d)} if d else {}))
        if s.get("limit") is not None:
            q = q.limit(s["limit"])
        if s.get("offset") is not None:
            q = q.offset(s["offset"])
        if s.get("alias") is not None:
            q = q.as_(s["alias"])
        return q
    Q = qclass(s["cls"])
    if k == "sel":
        fobjs = [build_source(x) for x in s.get("from", [])]
        jobjs = [build_source(j[1]) for j in s.get("joins", [])]
        srcs = fobjs + jobjs
        q = Q._builder()
        for name, sub in s.get("with", []):
            q = q.with_(build_query(sub), name)
        for o in fobjs:
            q = q.from_(o)

        def rest(q=q):
            for (how, _, cond), o in zip(s.get("joins", []), jobjs):
                j = q.join(o, getattr(E.JoinType, how))
                if cond[0] == "on":
                    q = j.on(build_item(cond[1]))
                elif cond[0] == "using":
                    q = j.using(*cond[1])
                else:
                    q = j.cross()
            if s.get("distinct"):
                q = q.distinct()
            if s.get("selects"):
                q = q.select(*[build_item(i) for i in s["selects"]])
            if s.get("where") is not None:
                q = q.where(build_item(s["where"]))
            for g in s.get("groupby", []):
                q = q.groupby(build_item(g))
            if s.get("having") is not None:
                q = q.having(build_item(s["having"]))
            for it, d in s.get("orderby", []):
                q = q.orderby(build_item(it), **({"order": getattr(Order, d)} if d else {}))
            if s.get("limit") is not None:
                q = q.limit(s["limit"])
            if s.get("offset") is not None:
                q = q.offset(s["offset"])
            if s.get("for_update"):
                q = q.for_update()
            if s.get("alias") is not None:
                q = q.as_(s["alias"])
            return q
        return _with_sources(srcs, rest)
    if k == "ins":
        into = tf.mk_table(s["into"])
        q = Q.into(into)
        if s.get("columns"):
            q = q.columns(*s["columns"])
        for row in s.get("rows", []):
            vals = _with_sources([], lambda: [build_item(i) for i in row])
            q = q.replace(*vals) if s.get("replace") else q.insert(*vals)
        if s.get("select") is not None:
            sel = s["select"]
            fobjs = [build_source(x) for x in sel.get("from", [])]
            for o in fobjs:
                q = q.from_(o)
            q = _with_sources(fobjs, lambda: q.select(*[build_item(i) for i in sel["selects"]]))
            if sel.get("where") is not None:
                q = _with_sources(fobjs, lambda: q.where(build_item(sel["where"])))
            if s.get("replace"):
                q = q.replace()
        return q
    if k == "upd":
        tbl = tf.mk_table(s["table"])
        fobjs = [build_source(x) for x in s.get("from", [])]
        jobjs = [build_source(j[1]) for j in s.get("joins", [])]
        srcs = fobjs + jobjs
        q = Q.update(tbl)
        for o in fobjs:
            q = q.from_(o)

        def rest(q=q):
            for (how, _, cond), o in zip(s.get("joins", []), jobjs):
                j = q.join(o, getattr(E.JoinType, how))
                if cond[0] == "on":
                    q = j.on(build_item(cond[1]))
                elif cond[0] == "using":
                    q = j.using(*cond[1])
                else:
                    q = j.cross()
            for name, v in s.get("sets", []):
                q = q.set(name, build_item(v))
            if s.get("where") is not None:
                q = q.where(build_item(s["where"]))
            if s.get("limit") is not None:
                q = q.limit(s["limit"])
            return q
        return _with_sources(srcs, rest)
    if k == "del":
        fobjs = [build_source(x) for x in s.get("from", [])]
        q = Q._builder()
        for o in fobjs:
            q = q.from_(o)
        q = q.delete()
        if s.get("where") is not None:
            q = _with_sources(fobjs, lambda: q.where(build_item(s["where"])))
        return q
    raise ValueError(k)


def render_impl(s):
    try:
        return str(build_query(s))
    except Exception as e:  # noqa
        return "!" + type(e).__name__


# ----------------------------------------------------------------------------------------------
# spec -> Gallina
# ----------------------------------------------------------------------------------------------
def tref_plain(t):
    name, schema, alias = t
    return "{| tname := %s; tschema := %s; talias := %s |}" % (S(name), L([S(x) for x in (schema or [])]), OS(alias))


def coq_source(s):
    if s[0] == "t":
        return "(SrcT %s)" % tref_plain(s[1])
    if s[0] == "q":
        return "(SrcQ %s)" % coq_query(s[1])
    return "(SrcA %s)" % S(s[1])


def coq_item(it):
    k = it[0]
    if k == "t":
        return "(IT %s)" % tf.coq(it[1])
    if k == "sub":
        return "(ISub %s)" % coq_query(it[1])
    if k == "in":
        return "(IIn %s %s %s)" % (tf.coq(it[1]), coq_query(it[2]), B(it[3]))
    if k == "exists":
        return "(IExists %s %s)" % (coq_query(it[1]), B(it[2]))
    if k == "cmp":
        return "(ICmp %s %s %s)" % (tf.CMP[it[1]], tf.coq(it[2]), coq_query(it[3]))
    if k == "func":
        return "(IFunc %s %s %s)" % (S(it[1]), L([coq_item(a) for a in it[2]]), OS(it[3]))
    if k == "cplx":
        return "(ICplx %s %s %s)" % (tf.BOP[it[1]], coq_item(it[2]), coq_item(it[3]))
    if k == "not":
        return "(INot %s)" % coq_item(it[1])
    raise ValueError(k)


def coq_cond(c):
    if c[0] == "on":
        return "(JOn %s)" % coq_item(c[1])
    if c[0] == "using":
        return "(JUsing %s)" % L([S(x) for x in c[1]])
    return "JCrossCond"


def coq_joins(js):
    return L(["(%s, %s, %s)" % (JHOW[h], coq_source(s), coq_cond(c)) for h, s, c in js])


def coq_ord(d):
    return "None" if not d else "(Some %s)" % ("Asc" if d == "asc" else "Desc")


def coq_query(s):
    k = s["k"]
    if k == "set":
        return "(QSet %s %s %s %s %s %s)" % (
            coq_query(s["base"]), L(["(%s, %s)" % (SETOP[o], coq_query(q)) for o, q in s["ops"]]),
            L(["(%s, %s)" % (tf.coq(t), coq_ord(d)) for t, d in s.get("orderby", [])]),
            OZ(s.get("limit")), OZ(s.get("offset")), OS(s.get("alias")))
    c = CLS_CTOR[s["cls"]]
    if k == "sel":
        return "(QSel %s %s %s %s %s %s %s %s %s %s %s %s %s %s)" % (
            c, L(["(%s, %s)" % (S(n), coq_query(q)) for n, q in s.get("with", [])]), B(s.get("distinct", False)),
            L([coq_item(i) for i in s.get("selects", [])]), L([coq_source(x) for x in s.get("from", [])]),
            coq_joins(s.get("joins", [])), O(None if s.get("where") is None else coq_item(s["where"])),
            O(None if s.get("having") is None else coq_item(s["having"])), L([coq_item(g) for g in s.get("groupby", [])]),
            L(["(%s, %s)" % (coq_item(i), coq_ord(d)) for i, d in s.get("orderby", [])]),
            OZ(s.get("limit")), OZ(s.get("offset")), B(s.get("for_update", False)), OS(s.get("alias")))
    if k == "ins":
        cols = L(["(TField %s (Some %s) None)" % (S(n), tref_plain(s["into"])) for n in s.get("columns", [])])
        rows = L([L([coq_item(i) for i in row]) for row in s.get("rows", [])])
        sel = s.get("select")
        selq = None
        if sel is not None:
            selq = coq_query(dict(sel, k="sel", cls=s["cls"]))
        return "(QIns %s %s %s %s %s %s None)" % (c, tref_plain(s["into"]), cols, rows, O(selq), B(s.get("replace", False)))
    if k == "upd":
        sets = L(["(TField %s None None, %s)" % (S(n), coq_item(v)) for n, v in s.get("sets", [])])
        return "(QUpd %s %s %s %s %s %s %s)" % (
            c, tref_plain(s["table"]), sets, L([coq_source(x) for x in s.get("from", [])]), coq_joins(s.get("joins", [])),
            O(None if s.get("where") is None else coq_item(s["where"])), OZ(s.get("limit")))
    if k == "del":
        return "(QDel %s %s %s)" % (c, L([coq_source(x) for x in s.get("from", [])]),
                                    O(None if s.get("where") is None else coq_item(s["where"])))
    raise ValueError(k)


# ----------------------------------------------------------------------------------------------
# generators
# ----------------------------------------------------------------------------------------------
TNAMES = ["t", "u", "v", "orders", "cust"]
COLS = ["a", "b", "c", "id", "x1"]


class QGen:
    """Grammar-based generator of statement specs. Fields are bound to the statement's sources through "#i"."""

    def __init__(self, rng, classes=None, p_alias=0.3, p_subq=0.3, max_depth=2, hostile=0.2, inner_same_cls=0.6, p_corr=0.0):
        self.r = rng
        self.p_corr = p_corr   # share of item-position sub-queries whose WHERE refers to a table of the enclosing statement
        self.p_csub = 0.0      # opt-in: share of statements with a sub-query inside HAVING / GROUP BY / ORDER BY / a SET value
        self.p_nested_setop = 0.0   # opt-in: share of set-operation operands that are themselves set operations
        self.classes = classes or CLS_NAMES
        self.p_alias = p_alias
        self.p_subq = p_subq
        self.max_depth = max_depth
        self.hostile = hostile
        self.inner_same_cls = inner_same_cls

    def cls(self, outer=None):
        if outer is not None and self.r.random() < self.inner_same_cls:
            return outer
        return self.r.choice(self.classes)

    def tref(self, alias_p=None):
        p = self.p_alias if alias_p is None else alias_p
        schema = self.r.choice([[], [], [], ["s"], ["d", "s"]])
        return [self.r.choice(TNAMES), schema, self.r.choice(["ta", "tb", "x"]) if self.r.random() < p else None]

    def source(self, cls, depth):
        if depth < self.max_depth and self.r.random() < self.p_subq:
            q = self.select(self.cls(cls), depth + 1, small=True)
            if self.r.random() < 0.4:
                q["alias"] = self.r.choice(["sub1", "sq", "z"])
            return ["q", q]
        return ["t", self.tref()]

    def field(self, nsrc, bound_p=0.75):
        if nsrc and self.r.random() < bound_p:
            return ["field", self.r.choice(COLS), ["#%d" % self.r.randrange(nsrc), [], None], None]
        return ["field", self.r.choice(COLS), None, None]

    def value(self):
        r = self.r.random()
        if r < 0.5:
            return ["vali", self.r.choice([0, 1, 2, 7, 10, -1, 42]), None]
        if r < 0.85:
            s = self.r.choice(tf.HOSTILE) if self.r.random() < self.hostile else self.r.choice(["abc", "x", "2020-01-01"])
            return ["vals", s, None]
        if r < 0.92:
            return ["valb", self.r.random() < 0.5, False, None]
        return ["null", None]

    def num(self, nsrc, d):
        r = self.r.random()
        if d <= 0 or r < 0.45:
            return self.field(nsrc) if self.r.random() < 0.7 else ["vali", self.r.choice([0, 1, 2, 7, 10]), None]
        if r < 0.8:
            return ["arith", self.r.choice(["add", "sub", "mul", "div"]), self.num(nsrc, d - 1), self.num(nsrc, d - 1), None]
        if r < 0.92:
            return ["func", self.r.choice(["ABS", "COALESCE", "F"]), [self.num(nsrc, d - 1) for _ in range(self.r.choice([1, 2]))], None]
        return ["case", [[self.crit(nsrc, d - 1), self.num(nsrc, d - 1)]], self.num(nsrc, d - 1) if self.r.random() < 0.5 else None, None]

    def crit(self, nsrc, d):
        r = self.r.random()
        if d <= 0 or r < 0.5:
            rhs = self.value() if self.r.random() < 0.5 else self.num(nsrc, max(d - 1, 0))
            return ["basic", self.r.choice(tf.EQUALITY), self.num(nsrc, max(d - 1, 0)), rhs, None]
        if r < 0.7:
            return ["cplx", self.r.choice(["and", "or"]), self.crit(nsrc, d - 1), self.crit(nsrc, d - 1), None]
        if r < 0.78:
            return ["not", self.crit(nsrc, d - 1), None]
        if r < 0.86:
            return ["in", self.field(nsrc), ["tuple", [self.value() for _ in range(self.r.choice([1, 2, 3]))], None], self.r.random() < 0.3, None]
        if r < 0.93:
            return ["between", self.field(nsrc), self.value(), self.value(), None]
        return [self.r.choice(["isnull", "notnull"]), self.field(nsrc), None]

    def alias_of(self, t):
        if self.r.random() < self.p_alias and t[0] in ("field", "arith", "func", "case"):
            t = list(t)
            t[-1] = self.r.choice(["al", "n", "total"])
        return t

    def citem(self, cls, nsrc, depth, d=2):
        """a criterion item, possibly involving a sub-query"""
        r = self.r.random()
        if depth < self.max_depth and r < self.p_subq * 0.6:
            sub = self.select(self.cls(cls), depth + 1, small=True, nsel=1)
            k = self.r.choice(["in", "exists", "cmp"])
            if k == "in":
                return ["in", self.field(nsrc), sub, self.r.random() < 0.3]
            if k == "exists":
                return ["exists", sub, self.r.random() < 0.3]
            return ["cmp", self.r.choice(["eq", "gt", "lte"]), self.field(nsrc), sub]
        if r < 0.25 and d > 0:
            return ["cplx", self.r.choice(["and", "or"]), self.citem(cls, nsrc, depth, d - 1), self.citem(cls, nsrc, depth, d - 1)]
        if r < 0.3 and d > 0:
            return ["not", self.citem(cls, nsrc, depth, d - 1)]
        return ["t", self.crit(nsrc, d)]

    def sitem(self, cls, nsrc, depth):
        """a select item"""
        r = self.r.random()
        if depth < self.max_depth and r < self.p_subq * 0.4:
            sub = self.select(self.cls(cls), depth + 1, small=True, nsel=1)
            if self.r.random() < 0.5:
                sub["alias"] = self.r.choice(["sa", "n"])
            if self.r.random() < 0.5:
                return ["func", self.r.choice(["COALESCE", "F"]), [["sub", sub], ["t", self.value()]],
                        self.r.choice([None, "fa"])]
            return ["sub", sub]
        return ["t", self.alias_of(self.num(nsrc, 2))]

    @staticmethod
    def _item_subs(it):
        """the statements in item position of an item spec"""
        k = it[0]
        if k == "sub":
            return [it[1]]
        if k == "in":
            return [it[2]]
        if k == "exists":
            return [it[1]]
        if k == "cmp":
            return [it[3]]
        if k == "func":
            return [q for a in it[2] for q in QGen._item_subs(a)]
        if k == "cplx":
            return QGen._item_subs(it[2]) + QGen._item_subs(it[3])
        if k == "not":
            return QGen._item_subs(it[1])
        return []

    def correlate_where(self, q):
        """some sub-queries in item position get a WHERE criterion that names a table of this statement (whatever the
        shape of their WHERE item: the flag _validate_table computes looks at the fields of the whole criterion)"""
        outer = [s[1] for s in q.get("from", []) if s[0] == "t"]
        if q.get("k") == "upd":
            outer = outer + [q["table"]]
        if not outer or not self.p_corr:
            return
        items = list(q.get("selects", [])) + ([q["where"]] if q.get("where") is not None else [])
        for it in items:
            for sub in self._item_subs(it):
                if sub.get("k") != "sel" or not sub.get("from") or self.r.random() > self.p_corr:
                    continue
                # (explicit table references are resolved by name: leave out outer tables whose name a source of the
                #  sub-query carries too, the two encodings of such a reference would not denote the same object)
                inner_names = {x[1][0] for x in sub.get("from", []) + [j[1] for j in sub.get("joins", [])] if x[0] == "t"}
                cands = [x for x in outer if x[0] not in inner_names]
                if not cands:
                    continue
                t = self.r.choice(cands)
                oref = ["field", self.r.choice(COLS), [t[0], list(t[1]), t[2]], None]
                iref = ["field", self.r.choice(COLS), ["#0", [], None], None]
                crit = ["basic", self.r.choice(["eq", "gt", "lte"]), iref, oref, None]
                w = sub.get("where")
                if w is None:
                    sub["where"] = ["t", crit]
                elif w[0] == "t" and self.r.random() < 0.5:
                    sub["where"] = ["t", ["cplx", "and", w[1], crit, None]]
                else:
                    sub["where"] = ["cplx", "and", w, ["t", crit]] if self.r.random() < 0.7 else ["cplx", "and", ["t", crit], w]

    def select(self, cls, depth=0, small=False, nsel=None):
        nfrom = self.r.choice([1, 1, 1, 2] if not small else [1, 1, 1, 1, 2])
        srcs = [self.source(cls, depth) for _ in range(nfrom)]
        njoin = self.r.choice([0, 0, 1, 2] if not small else [0, 0, 0, 1])
        joins = []
        n = nfrom
        for _ in range(njoin):
            src = self.source(cls, depth)
            n += 1
            r = self.r.random()
            if r < 0.75:
                left = ["field", self.r.choice(COLS), ["#%d" % self.r.randrange(n - 1), [], None], None]
                right = ["field", self.r.choice(COLS), ["#%d" % (n - 1), [], None], None]
                cond = ["on", ["t", ["basic", "eq", left, right, None]]]
            elif r < 0.9:
                cond = ["using", [self.r.choice(COLS)]]
            else:
                cond = ["cross"]
            joins.append([self.r.choice(["inner", "left", "right", "outer", "left_outer", "full_outer", "cross", "hash"]
                                        if cond[0] == "on" else ["inner", "left"]), src, cond])
        k = nsel if nsel is not None else self.r.choice([1, 2, 3])
        q = {"k": "sel", "cls": cls, "from": srcs, "joins": joins, "selects": [self.sitem(cls, n, depth) for _ in range(k)]}
        if nsel is None and self.r.random() < 0.08:   # a star is the sole select item (select-star bookkeeping is C08's business)
            q["selects"] = [["t", ["star", ["#%d" % self.r.randrange(n), [], None] if self.r.random() < 0.5 else None]]]
        if self.r.random() < 0.2:
            q["distinct"] = True
        if self.r.random() < 0.6:
            q["where"] = self.citem(cls, n, depth)
        if self.r.random() < (0.3 if not small else 0.1):
            cands = [i for i in q["selects"] if i[0] == "t" and i[1][0] != "star"]
            gs = []
            for _ in range(self.r.choice([1, 2])):
                gs.append(self.r.choice(cands) if cands and self.r.random() < 0.6 else ["t", self.field(n)])
            q["groupby"] = gs
            if self.r.random() < 0.5:
                q["having"] = ["t", self.crit(n, 1)]
        if self.r.random() < (0.4 if not small else 0.15):
            cands = [i for i in q["selects"] if i[0] == "t" and i[1][0] != "star"]
            q["orderby"] = [[self.r.choice(cands) if cands and self.r.random() < 0.5 else ["t", self.field(n)],
                             self.r.choice([None, "asc", "desc"])] for _ in range(self.r.choice([1, 2]))]
        if self.r.random() < 0.3:
            q["limit"] = self.r.choice([0, 1, 10])
            if self.r.random() < 0.5:
                q["offset"] = self.r.choice([0, 5])
        if not small and self.r.random() < 0.1:
            q["for_update"] = True
        if depth == 0 and self.r.random() < 0.15:
            w = self.select(self.cls(cls), depth + 1, small=True)
            q["with"] = [["cte", w]]
            if self.r.random() < 0.6:
                q["from"] = q["from"] + [["a", "cte"]]
        if self.p_csub and depth < self.max_depth and self.r.random() < self.p_csub:
            sub = self.select(self.cls(cls), depth + 1, small=True, nsel=1)
            where = self.r.choice(["having", "groupby", "orderby"])
            if where == "having":
                q["having"] = ["cmp", self.r.choice(["eq", "gt", "lte"]), self.field(n), sub]
            elif where == "groupby":
                q["groupby"] = q.get("groupby", []) + [["sub", sub]]
            else:
                q["orderby"] = q.get("orderby", []) + [[["sub", sub], self.r.choice([None, "asc", "desc"])]]
        self.correlate_where(q)
        return q

    def setop(self, cls):
        k = self.r.choice([1, 2])
        base = self.select(cls, 1, small=True, nsel=k)
        ops = []
        for _ in range(self.r.choice([1, 1, 2, 3])):
            operand = self.select(self.cls(cls), 1, small=True, nsel=k if self.r.random() < 0.9 else k + 1)
            if self.p_nested_setop and self.r.random() < self.p_nested_setop:
                operand = {"k": "set", "base": operand,
                           "ops": [[self.r.choice(list(SETOP)), self.select(self.cls(cls), 1, small=True, nsel=k)]]}
            ops.append([self.r.choice(list(SETOP)), operand])
        q = {"k": "set", "base": base, "ops": ops}
        if self.r.random() < 0.3:
            q["orderby"] = [[["field", self.r.choice(COLS), None, None], self.r.choice([None, "asc", "desc"])]]
        if self.r.random() < 0.3:
            q["limit"] = self.r.choice([0, 3])
        if self.r.random() < 0.2:
            q["offset"] = self.r.choice([0, 2])
        return q

    def insert(self, cls):
        into = self.tref(alias_p=0.1)
        ncol = self.r.choice([0, 1, 2, 3])
        width = ncol or self.r.choice([1, 2, 3])
        q = {"k": "ins", "cls": cls, "into": into, "columns": self.r.sample(COLS, ncol), "replace": self.r.random() < 0.15}
        if self.r.random() < 0.8:
            q["rows"] = [[["t", self.value()] for _ in range(width)] for _ in range(self.r.choice([1, 1, 2, 3]))]
        else:
            src = ["t", self.tref()]
            q["select"] = {"from": [src], "selects": [["t", self.field(1)] for _ in range(width)]}
            if self.r.random() < 0.5:
                q["select"]["where"] = ["t", self.crit(1, 1)]
        return q

    def update(self, cls):
        q = {"k": "upd", "cls": cls, "table": self.tref(alias_p=0.1),
             "sets": [[c, ["t", self.value() if self.r.random() < 0.6 else self.num(0, 1)]] for c in self.r.sample(COLS, self.r.choice([1, 2, 3]))]}
        if self.r.random() < 0.7:
            q["where"] = ["t", self.crit(0, 2)]
        if self.r.random() < 0.15:
            q["limit"] = self.r.choice([0, 5])
        if self.p_csub and self.r.random() < self.p_csub:
            q["sets"] = q["sets"] + [["zz", ["sub", self.select(self.cls(cls), 1, small=True, nsel=1)]]]
        return q

    def delete(self, cls):
        q = {"k": "del", "cls": cls, "from": [["t", self.tref(alias_p=0.1)]]}
        if self.r.random() < 0.8:
            q["where"] = ["t", self.crit(1, 2)]
        return q

    def any(self):
        cls = self.cls()
        r = self.r.random()
        if r < 0.6:
            return self.select(cls)
        if r < 0.72:
            return self.setop(cls)
        if r < 0.84:
            return self.insert(cls)
        if r < 0.94:
            return self.update(cls)
        return self.delete(cls)


def shape(s, acc=None):
    acc = acc if acc is not None else {}
    k = s["k"]
    acc[k] = acc.get(k, 0) + 1
    if k != "set":
        acc["cls=" + s["cls"]] = acc.get("cls=" + s["cls"], 0) + 1
    for src in s.get("from", []) + [j[1] for j in s.get("joins", [])]:
        if src[0] == "q":
            acc["subquery-source"] = acc.get("subquery-source", 0) + 1
            shape(src[1], acc)
    if s.get("joins"):
        acc["joins"] = acc.get("joins", 0) + len(s["joins"])
    if k == "set":
        shape(s["base"], acc)
        for _, q in s["ops"]:
            shape(q, acc)
    return acc
