"""C15 spec language: JSON specs of terms / sub-queries / statements, their construction on pypika by the public
builder calls, the substitution of a table in a spec ("the same calls with B in place of A"), and the Gallina form
(coq/Replace.v: term via harness.terms_family, wterm, squery, source, qjoin, stmt)."""
from harness import terms_family as tf
from harness.lib import S, OS, B as Bc, L, P

EXTRA = ("agg", "analytic", "extract", "period", "nested", "subq", "insub", "cmpsub", "exists", "vwterm", "attz", "union",
         "values", "bitand_t", "ch_hasany", "ch_tofixed", "ch_length", "interval")
PY_ONLY = ("union", "values", "bitand_t", "ch_hasany", "ch_tofixed", "ch_length", "interval")      # no constructor in the model (oracle only)          # no constructor in the model (oracle only)


# ----------------------------------------------------------------------------------------------
# spec -> pypika   (own recursion so that the extra kinds may appear at any depth)
# ----------------------------------------------------------------------------------------------
def mk_table(t):
    return tf.mk_table(t)


def build_q(qs):
    from pypika import Query
    q = Query
    for t in qs["from"]:
        q = q.from_(mk_table(t))
    q = q.select(*[build(x) for x in qs["selects"]])
    if qs.get("where") is not None:
        q = q.where(build(qs["where"]))
    return q


def build(t):
    import pypika.terms as T
    import pypika.enums as E
    from pypika import functions as fn
    k = t[0]
    if k not in EXTRA and not children(t):
        return tf.build(t)
    al = tf._al
    if k == "neg":
        return T.Negative(build(t[1]))
    if k == "arith":
        return T.ArithmeticExpression(getattr(E.Arithmetic, t[1]), build(t[2]), build(t[3]), alias=t[4])
    if k == "basic":
        cls = E.Equality if t[1] in tf.EQUALITY else E.Matching
        return T.BasicCriterion(getattr(cls, t[1]), build(t[2]), build(t[3]), alias=t[4])
    if k == "cplx":
        return T.ComplexCriterion(getattr(E.Boolean, t[1] + "_"), build(t[2]), build(t[3]), alias=t[4])
    if k == "in":
        c = T.ContainsCriterion(build(t[1]), build(t[2]), alias=t[4])
        return c.negate() if t[3] else c
    if k == "between":
        return T.BetweenCriterion(build(t[1]), build(t[2]), build(t[3]), alias=t[4])
    if k == "bitand":
        return T.BitwiseAndCriterion(build(t[1]), T.Term.wrap_constant(int(t[2])), alias=t[3])
    if k == "isnull":
        return T.NullCriterion(build(t[1]), alias=t[2])
    if k == "notnull":
        return T.NotNullCriterion(build(t[1]), alias=t[2])
    if k == "not":
        return T.Not(build(t[1]), alias=t[2])
    if k == "all":
        return T.All(build(t[1]), alias=t[2])
    if k == "case":
        c = T.Case(alias=t[3])
        for cr, v in t[1]:
            c = c.when(build(cr), build(v))
        if t[2] is not None:
            c = c.else_(build(t[2]))
        return c
    if k == "func":
        return T.Function(t[1], *[build(a) for a in t[2]], alias=t[3])
    if k == "cast":
        return fn.Cast(build(t[1]), t[2], alias=t[3])
    if k == "tuple":
        return al(T.Tuple(*[build(a) for a in t[1]]), t[2])
    if k == "array":
        return al(T.Array(*[build(a) for a in t[1]]), t[2])
    # ---- extra kinds ----
    if k == "agg":          # ["agg", name, args, filters, alias]
        x = T.AggregateFunction(t[1], *[build(a) for a in t[2]], alias=t[4])
        return x.filter(*[build(f) for f in t[3]]) if t[3] else x
    if k == "analytic":     # ["analytic", name, args, filters, partition, [[term, "ASC"|"DESC"|None]], alias]
        x = T.AnalyticFunction(t[1], *[build(a) for a in t[2]], alias=t[6])
        if t[3]:
            x = x.filter(*[build(f) for f in t[3]])
        x = x.over(*[build(p) for p in t[4]])
        for o, d in t[5]:
            x = x.orderby(build(o), order=(None if d is None else getattr(E.Order, d.lower())))
        return x
    if k == "extract":      # ["extract", part, field, alias]
        return fn.Extract(t[1], build(t[2]), alias=t[3])
    if k == "period":       # ["period", t, lo, hi, alias]
        return T.PeriodCriterion(build(t[1]), build(t[2]), build(t[3]), alias=t[4])
    if k == "nested":       # ["nested", cmp, bop, l, r, n, alias]
        return T.NestedCriterion(getattr(E.Equality, t[1]), getattr(E.Boolean, t[2] + "_"), build(t[3]), build(t[4]),
                                 build(t[5]), alias=t[6])
    if k == "subq":         # ["subq", qspec, alias]
        return al(build_q(t[1]), t[2])
    if k == "insub":        # ["insub", t, qspec, negated, alias]
        c = T.ContainsCriterion(build(t[1]), build_q(t[2]), alias=t[4])
        return c.negate() if t[3] else c
    if k == "cmpsub":       # ["cmpsub", cmp, l, qspec, alias]
        cls = E.Equality if t[1] in tf.EQUALITY else E.Matching
        return T.BasicCriterion(getattr(cls, t[1]), build(t[2]), build_q(t[3]), alias=t[4])
    if k == "exists":       # ["exists", qspec]
        return T.ExistsCriterion(build_q(t[1]))
    if k == "vwterm":       # ["vwterm", t]   ValueWrapper around a term (what QueryBuilder.set() does to its value)
        return T.ValueWrapper(build(t[1]))
    if k == "attz":         # ["attz", field-spec, zone]
        return T.AtTimezone(build(t[1]), t[2])
    if k == "union":        # ["union", qspec, qspec]   a set operation (a Term and a Selectable)
        return build_q(t[1]).union(build_q(t[2]))
    if k == "values":       # ["values", field]   MySQL VALUES(col)
        return T.Values(build(t[1]))
    if k == "bitand_t":     # ["bitand_t", t, v]  bitwiseand with a term as right operand
        return build(t[1]).bitwiseand(build(t[2]))
    if k == "ch_hasany":    # ["ch_hasany", f1, f2]
        from pypika.clickhouse.array import HasAny
        return HasAny(build(t[1]), build(t[2]))
    if k == "interval":     # ["interval", {"days": 1}]   a Node that is not a Term and holds no table
        return T.Interval(**t[1])
    if k == "ch_length":    # ["ch_length", f]
        from pypika.clickhouse.array import Length
        return Length(build(t[1]))
    if k == "ch_tofixed":   # ["ch_tofixed", f, n]
        from pypika.clickhouse.type_conversion import ToFixedString
        return ToFixedString(build(t[1]), int(t[2]))
    raise ValueError("unknown term kind %r" % (k,))


def children(t):
    """child term specs of a term spec, each with the (python class, attribute) of the slot it sits in"""
    k = t[0]
    if k == "neg":
        return [("Negative", "term", t[1])]
    if k == "arith":
        return [("ArithmeticExpression", "left", t[2]), ("ArithmeticExpression", "right", t[3])]
    if k == "basic":
        return [("BasicCriterion", "left", t[2]), ("BasicCriterion", "right", t[3])]
    if k == "cplx":
        return [("ComplexCriterion", "left", t[2]), ("ComplexCriterion", "right", t[3])]
    if k == "in":
        return [("ContainsCriterion", "term", t[1]), ("ContainsCriterion", "container", t[2])]
    if k == "between":
        return [("BetweenCriterion", "term", t[1]), ("BetweenCriterion", "start", t[2]), ("BetweenCriterion", "end", t[3])]
    if k in ("bitand", "isnull", "notnull", "not", "all"):
        return [({"bitand": "BitwiseAndCriterion", "isnull": "NullCriterion", "notnull": "NotNullCriterion", "not": "Not",
                  "all": "All"}[k], "term", t[1])]
    if k == "case":
        out = []
        for c, v in t[1]:
            out += [("Case", "_cases_crit", c), ("Case", "_cases_term", v)]
        if t[2] is not None:
            out.append(("Case", "_else", t[2]))
        return out
    if k == "func":
        return [("Function", "args", a) for a in t[2]]
    if k == "cast":
        return [("Function", "args", t[1])]
    if k in ("tuple", "array"):
        return [(k.capitalize(), "values", a) for a in t[1]]
    if k == "agg":
        return [("AggregateFunction", "args", a) for a in t[2]] + [("AggregateFunction", "_filters", f) for f in t[3]]
    if k == "analytic":
        return ([("AnalyticFunction", "args", a) for a in t[2]] + [("AnalyticFunction", "_filters", f) for f in t[3]]
                + [("AnalyticFunction", "_partition", p) for p in t[4]] + [("AnalyticFunction", "_orderbys", o) for o, _ in t[5]])
    if k == "extract":
        return [("Extract", "field", t[2])]
    if k == "period":
        return [("PeriodCriterion", "term", t[1]), ("PeriodCriterion", "start", t[2]), ("PeriodCriterion", "end", t[3])]
    if k == "nested":
        return [("NestedCriterion", "left", t[3]), ("NestedCriterion", "right", t[4]), ("NestedCriterion", "nested", t[5])]
    if k == "insub":
        return [("ContainsCriterion", "term", t[1])]
    if k == "cmpsub":
        return [("BasicCriterion", "left", t[2])]
    if k == "vwterm":
        return [("ValueWrapper", "value", t[1])]
    if k == "attz":
        return [("AtTimezone", "field", t[1])]
    if k == "values":
        return [("Values", "field", t[1])]
    if k == "bitand_t":
        return [("BitwiseAndCriterion", "term", t[1]), ("BitwiseAndCriterion", "value", t[2])]
    if k == "ch_hasany":
        return [("HasAny", "_left_array", t[1]), ("HasAny", "_right_array", t[2])]
    if k == "ch_tofixed":
        return [("ToFixedString", "_field", t[1])]
    if k == "ch_length":
        return [("Length", "_array", t[1])]
    return []


def sub_queries(t):
    k = t[0]
    if k == "subq":
        return [t[1]]
    if k == "insub":
        return [t[2]]
    if k == "cmpsub":
        return [t[3]]
    if k == "exists":
        return [t[1]]
    if k == "union":
        return [t[1], t[2]]
    return []


def tables_of(t, acc=None):
    """all table triples mentioned in a term spec"""
    acc = acc if acc is not None else []
    k = t[0]
    if k == "field" and t[2] is not None:
        acc.append(t[2])
    if k == "star" and t[1] is not None:
        acc.append(t[1])
    if k == "sub":
        acc.append(["u", [], None])
    for _, _, c in children(t):
        tables_of(c, acc)
    for qs in sub_queries(t):
        tables_of_q(qs, acc)
    return acc


def tables_of_q(qs, acc=None):
    acc = acc if acc is not None else []
    acc.extend(qs["from"])
    for x in qs["selects"]:
        tables_of(x, acc)
    if qs.get("where") is not None:
        tables_of(qs["where"], acc)
    return acc


def teq(a, b):
    """Table.__eq__ on triples: name, schema, alias"""
    return a is not None and b is not None and a[0] == b[0] and list(a[1] or []) == list(b[1] or []) and a[2] == b[2]


# ----------------------------------------------------------------------------------------------
# "the same calls with B in place of A"
# ----------------------------------------------------------------------------------------------
def subst_tbl(A, B, t):
    return list(B) if teq(t, A) else t


def subst(A, B, t):
    k = t[0]
    if k == "field":
        return ["field", t[1], None if t[2] is None else subst_tbl(A, B, t[2]), t[3]]
    if k == "star":
        return ["star", None if t[1] is None else subst_tbl(A, B, t[1])]
    r = lambda x: subst(A, B, x)      # noqa: E731
    rq = lambda x: subst_q(A, B, x)   # noqa: E731
    if k == "neg":
        return ["neg", r(t[1])]
    if k in ("arith", "basic", "cplx"):
        return [k, t[1], r(t[2]), r(t[3]), t[4]]
    if k == "in":
        return ["in", r(t[1]), r(t[2]), t[3], t[4]]
    if k in ("between", "period"):
        return [k, r(t[1]), r(t[2]), r(t[3]), t[4]]
    if k == "bitand":
        return ["bitand", r(t[1]), t[2], t[3]]
    if k in ("isnull", "notnull", "not", "all"):
        return [k, r(t[1]), t[2]]
    if k == "case":
        return ["case", [[r(c), r(v)] for c, v in t[1]], None if t[2] is None else r(t[2]), t[3]]
    if k == "func":
        return ["func", t[1], [r(a) for a in t[2]], t[3]]
    if k == "cast":
        return ["cast", r(t[1]), t[2], t[3]]
    if k in ("tuple", "array"):
        return [k, [r(a) for a in t[1]], t[2]]
    if k == "agg":
        return ["agg", t[1], [r(a) for a in t[2]], [r(f) for f in t[3]], t[4]]
    if k == "analytic":
        return ["analytic", t[1], [r(a) for a in t[2]], [r(f) for f in t[3]], [r(p) for p in t[4]],
                [[r(o), d] for o, d in t[5]], t[6]]
    if k == "extract":
        return ["extract", t[1], r(t[2]), t[3]]
    if k == "nested":
        return ["nested", t[1], t[2], r(t[3]), r(t[4]), r(t[5]), t[6]]
    if k == "subq":
        return ["subq", rq(t[1]), t[2]]
    if k == "insub":
        return ["insub", r(t[1]), rq(t[2]), t[3], t[4]]
    if k == "cmpsub":
        return ["cmpsub", t[1], r(t[2]), rq(t[3]), t[4]]
    if k == "exists":
        return ["exists", rq(t[1])]
    if k == "vwterm":
        return ["vwterm", r(t[1])]
    if k == "attz":
        return ["attz", r(t[1]), t[2]]
    if k == "union":
        return ["union", rq(t[1]), rq(t[2])]
    if k == "values":
        return ["values", r(t[1])]
    if k == "bitand_t":
        return ["bitand_t", r(t[1]), r(t[2])]
    if k == "ch_hasany":
        return ["ch_hasany", r(t[1]), r(t[2])]
    if k == "ch_tofixed":
        return ["ch_tofixed", r(t[1]), t[2]]
    if k == "ch_length":
        return ["ch_length", r(t[1])]
    return t


def subst_q(A, B, qs):
    return {"from": [subst_tbl(A, B, t) for t in qs["from"]], "selects": [subst(A, B, x) for x in qs["selects"]],
            "where": None if qs.get("where") is None else subst(A, B, qs["where"])}


def subst_src(A, B, s):
    if s[0] == "table":
        return ["table", subst_tbl(A, B, s[1])]
    if s[0] == "sub":
        return ["sub", subst_q(A, B, s[1]), s[2]]
    return s


def subst_stmt(A, B, st):
    r = lambda x: subst(A, B, x)      # noqa: E731
    o = dict(st)
    o["from"] = [subst_src(A, B, s) for s in st.get("from", [])]
    o["with"] = [[n, subst_q(A, B, q)] for n, q in st.get("with", [])]
    for k in ("into", "update", "star"):
        if st.get(k) is not None:
            o[k] = subst_tbl(A, B, st[k])
    for k in ("selects", "columns", "groupby"):
        o[k] = [r(x) for x in st.get(k, [])]
    o["values"] = [[r(x) for x in row] for row in st.get("values", [])]
    for k in ("where", "prewhere", "having"):
        o[k] = None if st.get(k) is None else r(st[k])
    o["orderby"] = [[r(x), d] for x, d in st.get("orderby", [])]
    js = []
    for j in st.get("joins", []):
        if j[0] == "on":
            js.append(["on", j[1], subst_src(A, B, j[2]), r(j[3])])
        elif j[0] == "using":
            js.append(["using", j[1], subst_src(A, B, j[2]), j[3]])
        elif j[0] == "using_fields":
            js.append(["using_fields", j[1], subst_src(A, B, j[2]), [r(x) for x in j[3]]])
        else:
            js.append(["cross", subst_src(A, B, j[1])])
    o["joins"] = js
    o["sets"] = [[r(f), r(v)] for f, v in st.get("sets", [])]
    if st.get("limit_by") is not None:
        o["limit_by"] = [st["limit_by"][0], [r(x) for x in st["limit_by"][1]]]
    ex = dict(st.get("extras") or {})
    for k in ("returning", "distinct_on"):
        if k in ex:
            ex[k] = [r(x) for x in ex[k]]
    if "on_duplicate" in ex:
        ex["on_duplicate"] = [[r(f), r(v)] for f, v in ex["on_duplicate"]]
    if "using" in ex:
        ex["using"] = [subst_tbl(A, B, t) for t in ex["using"]]
    if "on_conflict" in ex:
        oc = dict(ex["on_conflict"])
        oc["fields"] = [r(x) for x in oc.get("fields", [])]
        oc["updates"] = [[r(f), r(v)] for f, v in oc.get("updates", [])]
        for k in ("where", "update_where"):
            if oc.get(k) is not None:
                oc[k] = r(oc[k])
        ex["on_conflict"] = oc
    o["extras"] = ex
    return o


# ----------------------------------------------------------------------------------------------
# statements on pypika, by the public builder calls
# ----------------------------------------------------------------------------------------------
HOW = {"": "inner", "LEFT": "left", "RIGHT": "right", "FULL OUTER": "full_outer", "CROSS": "cross"}


def build_src(s):
    from pypika import AliasedQuery
    if s[0] == "table":
        return mk_table(s[1])
    if s[0] == "sub":
        q = build_q(s[1])
        q.alias = s[2]          # always an explicit alias: from_/join would otherwise tag the sub-query themselves
        return q
    return AliasedQuery(s[1])


def build_stmt(st):
    import pypika.enums as E
    from pypika import Query, ClickHouseQuery, PostgreSQLQuery, MySQLQuery
    from pypika.queries import JoinUsing
    Q = {"generic": Query, "clickhouse": ClickHouseQuery, "postgresql": PostgreSQLQuery, "mysql": MySQLQuery}[st.get("dialect", "generic")]
    mode = st.get("mode", "select")
    ex = st.get("extras") or {}
    q = Q
    for n, qs in st.get("with", []):
        q = q.with_(build_q(qs), n)
    if mode in ("insert", "insert_select"):
        q = q.into(mk_table(st["into"]))
    if mode == "update":
        q = q.update(mk_table(st["update"]))
    for s in st.get("from", []):
        q = q.from_(build_src(s))
    if mode == "delete":
        q = q.delete()
        for t in ex.get("using", []):
            q = q.using(mk_table(t))
    for j in st.get("joins", []):
        if j[0] == "on":
            q = q.join(build_src(j[2]), getattr(E.JoinType, HOW[j[1]])).on(build(j[3]))
        elif j[0] == "using":
            q = q.join(build_src(j[2]), getattr(E.JoinType, HOW[j[1]])).using(*j[3])
        elif j[0] == "using_fields":
            # JoinUsing built directly: Joiner.using() always makes table-less fields
            q = q.join(build_src(j[2]), getattr(E.JoinType, HOW[j[1]])).using("k")
            q._joins[-1] = JoinUsing(q._joins[-1].item, q._joins[-1].how, [build(x) for x in j[3]])
        else:
            q = q.join(build_src(j[1])).cross()
    if mode == "insert":
        if st.get("columns"):
            q = q.columns(*[build(x) for x in st["columns"]])
        for row in st.get("values", []):
            q = q.insert(*[build(x) for x in row])
    if st.get("star") is not None:
        q = q.select(mk_table(st["star"]).star)
    if st.get("selects"):
        q = q.select(*[build(x) for x in st["selects"]])
    for f, v in st.get("sets", []):
        q = q.set(build(f), build(v))
    if st.get("where") is not None:
        q = q.where(build(st["where"]))
    if st.get("prewhere") is not None:
        q = q.prewhere(build(st["prewhere"]))
    if st.get("groupby"):
        q = q.groupby(*[build(x) for x in st["groupby"]])
    if st.get("having") is not None:
        q = q.having(build(st["having"]))
    for x, d in st.get("orderby", []):
        q = q.orderby(build(x), order=(None if d is None else getattr(E.Order, d.lower())))
    if st.get("limit_by") is not None:
        q = q.limit_by(int(st["limit_by"][0]), *[build(x) for x in st["limit_by"][1]])
    if "returning" in ex:
        q = q.returning(*[build(x) for x in ex["returning"]])
    if "distinct_on" in ex:
        q = q.distinct_on(*[build(x) for x in ex["distinct_on"]])
    for f, v in ex.get("on_duplicate", []):
        q = q.on_duplicate_key_update(build(f), build(v))
    if "on_conflict" in ex:     # {"fields": [..], "updates": [[f, v]], "where": crit|None, "update_where": crit|None}
        oc = ex["on_conflict"]
        q = q.on_conflict(*[build(x) for x in oc.get("fields", [])])
        if oc.get("where") is not None:
            q = q.where(build(oc["where"]))
        for f, v in oc.get("updates", []):
            q = q.do_update(build(f), build(v))
        if oc.get("update_where") is not None:
            q = q.where(build(oc["update_where"]))
    return q


# ----------------------------------------------------------------------------------------------
# spec -> Gallina
# ----------------------------------------------------------------------------------------------
class NotModelled(Exception):
    pass


def tref_coq(t):
    name, schema, alias = t
    return "{| tname := %s; tschema := %s; talias := %s |}" % (S(name), L([S(x) for x in (schema or [])]), OS(alias))


def pure_tf(t):
    """the spec uses only kinds of the shared AST (recursively)"""
    if t[0] in EXTRA:
        return False
    return all(pure_tf(c) for _, _, c in children(t))


def term_coq(t):
    if not pure_tf(t):
        raise NotModelled("extra kind %s below the root of a slot" % t[0])
    return tf.coq(t)


def terms_coq(ts):
    return L([term_coq(x) for x in ts])


def q_coq(qs):
    q = build_q(qs)            # only to read the flag the builder computed (checked by the before-dump)
    return "{| sq_from := %s; sq_selects := %s; sq_where := %s; sq_ns := %s |}" % (
        L([tref_coq(t) for t in qs["from"]]), terms_coq(qs["selects"]),
        "None" if qs.get("where") is None else "(Some %s)" % term_coq(qs["where"]), Bc(bool(q._foreign_table)))


def wt_coq(t):
    k = t[0]
    if k in PY_ONLY:
        raise NotModelled(k)
    if k == "agg":
        return "(WAgg %s %s %s %s)" % (S(t[1]), terms_coq(t[2]), terms_coq(t[3]), OS(t[4]))
    if k == "analytic":
        obs = L([P(term_coq(o), OS(d)) for o, d in t[5]])
        return "(WAnalytic %s %s %s %s %s %s)" % (S(t[1]), terms_coq(t[2]), terms_coq(t[3]), terms_coq(t[4]), obs, OS(t[6]))
    if k == "extract":
        return "(WExtract %s %s %s)" % (S(t[1]), term_coq(t[2]), OS(t[3]))
    if k == "period":
        return "(WPeriod %s %s %s %s)" % (term_coq(t[1]), term_coq(t[2]), term_coq(t[3]), OS(t[4]))
    if k == "nested":
        return "(WNested %s %s %s %s %s %s)" % (tf.CMP[t[1]], tf.BOP[t[2]], term_coq(t[3]), term_coq(t[4]), term_coq(t[5]), OS(t[6]))
    if k == "subq":
        return "(WSubq %s %s)" % (q_coq(t[1]), OS(t[2]))
    if k == "insub":
        return "(WInSub %s %s %s %s)" % (term_coq(t[1]), q_coq(t[2]), Bc(t[3]), OS(t[4]))
    if k == "cmpsub":
        return "(WCmpSub %s %s %s %s)" % (tf.CMP[t[1]], term_coq(t[2]), q_coq(t[3]), OS(t[4]))
    if k == "exists":
        return "(WExists %s)" % q_coq(t[1])
    if k == "vwterm":
        return "(WValue %s None)" % term_coq(t[1])
    if k == "attz":
        return "(WAtTz %s %s None)" % (term_coq(t[1]), S(t[2]))
    return "(WT %s)" % term_coq(t)


def src_coq(s):
    if s[0] == "table":
        return "(SrcTable %s)" % tref_coq(s[1])
    if s[0] == "sub":
        return "(SrcSub %s %s)" % (q_coq(s[1]), OS(s[2]))
    return "(SrcNamed %s)" % S(s[1])


def stmt_coq(st):
    ex = st.get("extras") or {}
    if any(k_ not in ("returning", "distinct_on", "on_duplicate", "using") for k_ in ex):
        raise NotModelled("dialect extras %s" % sorted(ex))
    kind = {"generic": "QGeneric", "clickhouse": "QClickHouse", "postgresql": "QPostgres", "mysql": "QMySQL"}[st.get("dialect", "generic")]
    ow = lambda x: "None" if x is None else "(Some %s)" % wt_coq(x)    # noqa: E731
    sel = [wt_coq(x) for x in st.get("selects", [])]
    if st.get("star") is not None:
        sel = ["(WT (TStar (Some %s)))" % tref_coq(st["star"])] + sel
    joins = []
    for j in st.get("joins", []):
        if j[0] == "on":
            joins.append("(JOn %s %s %s)" % (S(j[1]), src_coq(j[2]), wt_coq(j[3])))
        elif j[0] == "using":
            joins.append("(JUsing %s %s %s)" % (S(j[1]), src_coq(j[2]), L(["(TField %s None None)" % S(n) for n in j[3]])))
        elif j[0] == "using_fields":
            joins.append("(JUsing %s %s %s)" % (S(j[1]), src_coq(j[2]), terms_coq(j[3])))
        else:
            joins.append("(JCross %s)" % src_coq(j[1]))
    lby = st.get("limit_by")
    fields = [
        ("s_kind", kind),
        ("s_from", L([src_coq(s) for s in st.get("from", [])])),
        ("s_insert", "None" if st.get("into") is None else "(Some %s)" % tref_coq(st["into"])),
        ("s_update", "None" if st.get("update") is None else "(Some %s)" % tref_coq(st["update"])),
        ("s_with", L([P(S(n), q_coq(q)) for n, q in st.get("with", [])])),
        ("s_selects", L(sel)),
        ("s_columns", terms_coq(st.get("columns", []))),
        ("s_values", L([L([wt_coq(x) for x in row]) for row in st.get("values", [])])),
        ("s_wheres", ow(st.get("where"))), ("s_prewheres", ow(st.get("prewhere"))),
        ("s_groupbys", L([wt_coq(x) for x in st.get("groupby", [])])),
        ("s_havings", ow(st.get("having"))),
        ("s_orderbys", L([P(wt_coq(x), OS(d)) for x, d in st.get("orderby", [])])),
        ("s_joins", L(joins)),
        ("s_updates", L([P(term_coq(f), wt_coq(v)) for f, v in st.get("sets", [])])),
        ("s_star", L([tref_coq(st["star"])] if st.get("star") is not None else [])),
        ("s_limit_by", L([wt_coq(x) for x in (lby[1] if lby else [])])),
        ("s_distinct_on", L([wt_coq(x) for x in ex.get("distinct_on", [])])),
        ("s_returns", L([wt_coq(x) for x in ex.get("returning", [])])),
        ("s_using", L([tref_coq(x) for x in ex.get("using", [])])),
        ("s_dup_updates", L([P(term_coq(f), wt_coq(v)) for f, v in ex.get("on_duplicate", [])])),
    ]
    return "{| " + "; ".join("%s := %s" % kv for kv in fields) + " |}"
