"""C15 case generation: tables with schema/alias variants, typed random terms with A at random positions, the systematic
constructor x slot family (singles and pairs), statements, and the python-only dialect family."""
from harness import terms_family as tf
from harness.c15 import spec as sp

A_POOL = [["a", [], None], ["a", ["s"], None], ["a", [], "x"], ["a", ["d", "s"], "ax"]]
B_POOL = [["b", [], None], ["b", ["s2"], None], ["b", [], "bb"], ["a", [], "fresh"], ["b", ["d", "s"], "bx"]]
C_TBL = ["c", [], None]
D_TBL = ["d", [], "dd"]
E_TBL = ["e", ["s"], None]


def near_misses(A):
    """tables that differ from A in exactly one attribute Table.__eq__ looks at"""
    name, schema, alias = A
    out = [[name, (["s9"] if not schema else []), alias], [name, list(schema), ("nm" if alias is None else None)]]
    return out


class G(tf.Gen):
    """typed generator whose fields sit on A (often), on near-misses of A, on other tables, or on no table"""

    def __init__(self, rng, A, p_alias=0.1, p_table=0.75, p_a=0.5, tables=None, **kw):
        super().__init__(rng, p_alias=p_alias, p_table=p_table, **kw)
        self.A = A
        self.p_a = p_a
        self.tables = tables if tables is not None else near_misses(A) + [C_TBL, D_TBL]

    def table(self):
        if self.r.random() >= self.p_table:
            return None
        if self.r.random() < self.p_a:
            return list(self.A)
        return list(self.r.choice(self.tables))


def fresh_B(rng, A, used):
    cands = [b for b in B_POOL if not sp.teq(b, A) and not any(sp.teq(b, u) for u in used)]
    return list(rng.choice(cands))


# ----------------------------------------------------------------------------------------------
# systematic family: every constructor x every child slot
# ----------------------------------------------------------------------------------------------
def N():
    return ["field", "n", list(C_TBL), None]


def one():
    return ["vali", 1, None]


def IV():
    return ["interval", {"days": 1}]


def crit(x):
    return ["basic", "eq", x, one(), None]


def qs(frm, sel, where=None):
    return {"from": frm, "selects": sel, "where": where}


# (label, needs: 't' a term child | 'c' a criterion child | 'T' a table, builder)
SHAPES = [
    ("Negative.term", "t", lambda x: ["neg", x]),
    ("ArithmeticExpression.left", "t", lambda x: ["arith", "add", x, N(), None]),
    ("ArithmeticExpression.right", "t", lambda x: ["arith", "mul", N(), x, None]),
    ("BasicCriterion.left", "t", lambda x: ["basic", "gt", x, N(), None]),
    ("BasicCriterion.right", "t", lambda x: ["basic", "eq", N(), x, None]),
    ("ComplexCriterion.left", "c", lambda x: ["cplx", "and", x, crit(N()), None]),
    ("ComplexCriterion.right", "c", lambda x: ["cplx", "or", crit(N()), x, None]),
    ("ContainsCriterion.term", "t", lambda x: ["in", x, ["tuple", [N(), one()], None], False, None]),
    ("ContainsCriterion.container", "t", lambda x: ["in", N(), ["tuple", [x, one()], None], False, None]),
    ("BetweenCriterion.term", "t", lambda x: ["between", x, N(), one(), None]),
    ("BetweenCriterion.start", "t", lambda x: ["between", N(), x, one(), None]),
    ("BetweenCriterion.end", "t", lambda x: ["between", N(), one(), x, None]),
    ("BitwiseAndCriterion.term", "t", lambda x: ["bitand", x, 3, None]),
    ("NullCriterion.term", "t", lambda x: ["isnull", x, None]),
    ("NotNullCriterion.term", "t", lambda x: ["notnull", x, None]),
    ("Not.term", "c", lambda x: ["not", x, None]),
    ("All.term", "t", lambda x: ["all", x, None]),
    ("Case._cases_crit", "c", lambda x: ["case", [[x, N()]], N(), None]),
    ("Case._cases_term", "t", lambda x: ["case", [[crit(N()), x]], N(), None]),
    ("Case._else", "t", lambda x: ["case", [[crit(N()), N()]], x, None]),
    ("Function.args", "t", lambda x: ["func", "F", [N(), x], None]),
    ("Cast.args", "t", lambda x: ["cast", x, "SIGNED", None]),
    ("Tuple.values", "t", lambda x: ["tuple", [one(), x], None]),
    ("Array.values", "t", lambda x: ["array", [x, one()], None]),
    ("AggregateFunction.args", "t", lambda x: ["agg", "SUM", [x], [], None]),
    ("AggregateFunction._filters", "c", lambda x: ["agg", "SUM", [N()], [crit(N()), x], None]),
    ("AnalyticFunction.args", "t", lambda x: ["analytic", "SUM", [x], [], [N()], [], None]),
    ("AnalyticFunction._filters", "c", lambda x: ["analytic", "SUM", [N()], [x], [N()], [], None]),
    ("AnalyticFunction._partition", "t", lambda x: ["analytic", "RANK", [], [], [N(), x], [], None]),
    ("AnalyticFunction._orderbys", "t", lambda x: ["analytic", "RANK", [], [], [], [[x, "DESC"], [N(), None]], None]),
    ("Extract.field", "t", lambda x: ["extract", "YEAR", x, None]),
    ("PeriodCriterion.term", "t", lambda x: ["period", x, N(), N(), None]),
    ("PeriodCriterion.start", "t", lambda x: ["period", N(), x, N(), None]),
    ("PeriodCriterion.end", "t", lambda x: ["period", N(), N(), x, None]),
    ("NestedCriterion.left", "t", lambda x: ["nested", "eq", "and", x, N(), N(), None]),
    ("NestedCriterion.right", "t", lambda x: ["nested", "eq", "and", N(), x, N(), None]),
    ("NestedCriterion.nested", "t", lambda x: ["nested", "eq", "and", N(), N(), x, None]),
    ("QueryBuilder(term)._selects", "t", lambda x: ["subq", qs([list(C_TBL)], [x]), None]),
    ("QueryBuilder(term)._wheres", "c", lambda x: ["subq", qs([list(C_TBL)], [N()], x), None]),
    ("QueryBuilder(term)._from", "T", lambda tb: ["subq", qs([tb], [["field", "k", None, None]]), None]),
    ("ContainsCriterion.container(subquery)", "T", lambda tb: ["insub", N(), qs([tb], [["field", "k", None, None]]), False, None]),
    ("BasicCriterion.right(subquery)", "T", lambda tb: ["cmpsub", "eq", N(), qs([tb], [["field", "k", None, None]]), None]),
    ("ExistsCriterion.container", "T", lambda tb: ["exists", qs([tb], [["field", "k", None, None]])]),
    ("ValueWrapper.value", "t", lambda x: ["vwterm", x]),
    ("AtTimezone.field", "f", lambda x: ["attz", x, "UTC"]),
    # a table-free Node that is not a Term (Interval) next to A: every parent calls .replace_table on it
    ("Interval@ArithmeticExpression.right", "t", lambda x: ["arith", "add", x, IV(), None]),
    ("Interval@ArithmeticExpression.left", "t", lambda x: ["arith", "sub", IV(), x, None]),
    ("Interval@Function.args", "t", lambda x: ["func", "DATE_ADD", [x, IV()], None]),
    ("Interval@BasicCriterion.right", "t", lambda x: ["basic", "gt", x, ["arith", "sub", ["func", "NOW", [], None], IV(), None], None]),
    ("Interval@BetweenCriterion.bounds", "t", lambda x: ["between", x, ["arith", "sub", N(), IV(), None], ["arith", "add", N(), IV(), None], None]),
    ("Values.field", "f", lambda x: ["values", x]),
    ("BitwiseAndCriterion.value", "t", lambda x: ["bitand_t", N(), x]),
    ("HasAny._left_array", "f", lambda x: ["ch_hasany", x, N()]),
    ("HasAny._right_array", "f", lambda x: ["ch_hasany", N(), x]),
    ("ToFixedString._field", "f", lambda x: ["ch_tofixed", x, 3]),
    ("Length._array", "f", lambda x: ["ch_length", x]),
    ("_SetOperation.base_query", "T", lambda tb: ["union", qs([tb], [["field", "k", None, None]]), qs([list(C_TBL)], [["field", "k", None, None]])]),
    ("_SetOperation._set_operation", "T", lambda tb: ["union", qs([list(C_TBL)], [["field", "k", None, None]]), qs([tb], [["field", "k", None, None]])]),
]
CRIT_KINDS = ("basic", "cplx", "in", "between", "bitand", "isnull", "notnull", "not", "all", "period", "nested", "insub",
              "cmpsub", "exists")


def as_kind(need, x):
    if need == "c":
        return x if x[0] in CRIT_KINDS else crit(x)
    return x


def leaf(A, star=False):
    return ["star", list(A)] if star else ["field", "x", list(A), None]


def systematic(rng, tier):
    """singles: A in each slot of each constructor; pairs: slot inside slot (all pairs in the thorough tier)"""
    out = []
    for i, (lab, need, mk) in enumerate(SHAPES):
        A = list(A_POOL[i % len(A_POOL)])
        B = fresh_B(rng, A, [C_TBL])
        if need == "T":
            t = mk(list(A))
        elif need == "f":
            t = mk(leaf(A))
        else:
            t = mk(as_kind(need, leaf(A)))
        out.append({"kind": "term", "A": A, "B": B, "t": t, "fam": "single:" + lab})
    pairs = [(s1, s2) for s1 in SHAPES for s2 in SHAPES if s1[1] in ("t", "c")]
    if tier == "quick":
        pairs = rng.sample(pairs, 400)
    for (l1, n1, m1), (l2, n2, m2) in pairs:
        A = list(rng.choice(A_POOL))
        B = fresh_B(rng, A, [C_TBL])
        inner = m2(list(A)) if n2 == "T" else (m2(leaf(A)) if n2 == "f" else m2(as_kind(n2, leaf(A))))
        if inner[0] in ("attz", "values", "ch_hasany", "ch_tofixed", "ch_length") and n1 != "t":
            continue
        t = m1(as_kind(n1, inner))
        out.append({"kind": "term", "A": A, "B": B, "t": t, "fam": "pair:%s>%s" % (l1, l2)})
    return out


# ----------------------------------------------------------------------------------------------
# random terms
# ----------------------------------------------------------------------------------------------
def rand_q(g, rng, A, depth):
    frm = [list(A)] if rng.random() < 0.5 else [list(rng.choice([C_TBL, D_TBL] + near_misses(A)))]
    if rng.random() < 0.2:
        frm.append(list(E_TBL))
    gq = G(rng, A, p_alias=0.0, p_table=0.8, p_a=0.6, tables=[t for t in frm if not sp.teq(t, A)] or [list(C_TBL)])
    sel = [gq.num(max(depth - 1, 0)) for _ in range(rng.choice([1, 1, 2]))]
    where = gq.boolean(max(depth - 1, 0)) if rng.random() < 0.5 else None
    return qs(frm, sel, where)


def rand_wrapper(g, rng, A, depth):
    d = max(depth - 1, 0)
    k = rng.choice(["agg", "agg", "analytic", "analytic", "extract", "period", "nested", "subq", "insub", "cmpsub", "exists"])
    al = g.alias()
    if k == "agg":
        # FILTER criteria are folded with & (Criterion.all): they must be Criterion instances
        return ["agg", rng.choice(["SUM", "COUNT", "MAX"]), [g.num(d)],
                [as_kind("c", g.boolean(d)) for _ in range(rng.choice([0, 1, 2]))], al]
    if k == "analytic":
        return ["analytic", rng.choice(["SUM", "RANK", "LAG"]), [g.num(d) for _ in range(rng.choice([0, 1]))],
                [as_kind("c", g.boolean(d)) for _ in range(rng.choice([0, 0, 1]))], [g.num(d) for _ in range(rng.choice([0, 1, 2]))],
                [[g.num(d), rng.choice(["ASC", "DESC", None])] for _ in range(rng.choice([0, 1, 2]))], al]
    if k == "extract":
        return ["extract", rng.choice(["YEAR", "DAY"]), g.num(d), al]
    if k == "period":
        return ["period", g.num(d), g.num(d), g.num(d), al]
    if k == "nested":
        return ["nested", rng.choice(["eq", "gt"]), rng.choice(["and", "or"]), g.num(d), g.num(d), g.num(d), al]
    if k == "subq":
        return ["subq", rand_q(g, rng, A, d), al]
    if k == "insub":
        return ["insub", g.num(d), rand_q(g, rng, A, d), rng.random() < 0.3, al]
    if k == "cmpsub":
        return ["cmpsub", rng.choice(["eq", "lt"]), g.num(d), rand_q(g, rng, A, d), al]
    return ["exists", rand_q(g, rng, A, d)]


def rand_term(rng, A, depth, p_wrapper=0.3, p_nested_extra=0.08):
    g = G(rng, A, with_sub=(rng.random() < 0.3), hostile=0.1)
    r = rng.random()
    if r < p_wrapper:
        return rand_wrapper(g, rng, A, depth)
    if r < p_wrapper + p_nested_extra:       # an extra kind below the root: python-only (oracle) case
        inner = rand_wrapper(g, rng, A, depth - 1)
        if inner[0] in sp.EXTRA and rng.random() < 0.2:
            inner = ["vwterm", g.num(1)]
        return rng.choice([lambda x: ["arith", "add", x, g.num(1), None], lambda x: ["func", "COALESCE", [x, one()], None],
                           lambda x: ["case", [[g.boolean(1), x]], None, None], lambda x: ["neg", x]])(inner)
    return g.any(depth)


def term_cases(rng, n, depths):
    out = []
    for _ in range(n):
        A = list(rng.choice(A_POOL))
        t = rand_term(rng, A, rng.choice(depths))
        used = sp.tables_of(t)
        B = fresh_B(rng, A, used)
        out.append({"kind": "term", "A": A, "B": B, "t": t, "fam": "random"})
    return out


# ----------------------------------------------------------------------------------------------
# statements
# ----------------------------------------------------------------------------------------------
def on_crit(rng, A, item, avail, depth):
    """an ON criterion whose every field sits on an available table (JoinOn.validate rejects anything else)"""
    base = ["basic", "eq", ["field", "k", list(item), None], ["field", "k", list(avail[0]), None], None]
    if rng.random() < 0.5:
        return base
    g = G(rng, A, p_alias=0.0, p_table=1.0, p_a=(0.6 if any(sp.teq(A, t) for t in avail + [item]) else 0.0),
          tables=[t for t in avail + [item] if not sp.teq(t, A)] or avail, hostile=0.0)
    extra = g.boolean(depth)
    if any(f is None for f in _field_tables(extra)):
        return base
    return ["cplx", "and", base, extra, None]


def _field_tables(t, acc=None):
    acc = acc if acc is not None else []
    if t[0] == "field":
        acc.append(t[2])
    if t[0] == "star":
        acc.append(t[1])
    for _, _, c in sp.children(t):
        _field_tables(c, acc)
    return acc


def wt_any(g, rng, A, depth, p_wrapper=0.25):
    if rng.random() < p_wrapper:
        return rand_wrapper(g, rng, A, depth)
    return g.any(depth)


def rand_stmt(rng, A, depth, allow_extras=True):
    nm = near_misses(A)
    r = rng.random()
    st = {"dialect": "clickhouse" if rng.random() < 0.25 else "generic", "mode": "select"}
    g = G(rng, A, p_alias=0.1, hostile=0.05)
    gb = G(rng, A, p_alias=0.0, hostile=0.05)
    if r < 0.72:
        pool = [list(A), list(A), list(C_TBL), list(nm[1])]
        f0 = list(rng.choice(pool))
        st["from"] = [["table", f0]]
        if rng.random() < 0.12:
            st["from"] = [["sub", rand_q(g, rng, A, 1), rng.choice(["sq", "t0"])]]
            f0 = None
        elif rng.random() < 0.15:
            st["from"].append(["table", list(E_TBL)])
        avail = [s[1] for s in st["from"] if s[0] == "table"]
        joins = []
        cands = [t for t in [list(A), list(D_TBL), list(nm[0]), list(C_TBL)] if not any(sp.teq(t, u) for u in avail)]
        rng.shuffle(cands)
        for item in cands[:rng.choice([0, 0, 1, 1, 2])]:
            if not avail:
                break
            jr = rng.random()
            how = rng.choice(["", "", "LEFT", "RIGHT", "FULL OUTER"])
            if jr < 0.6:
                joins.append(["on", how, ["table", item], on_crit(rng, A, item, avail, 1)])
            elif jr < 0.72:
                joins.append(["using", how, ["table", item], [rng.choice(["k", "id"])]])
            elif jr < 0.8:
                joins.append(["using_fields", how, ["table", item], [["field", "k", list(rng.choice([A, item])), None]]])
            elif jr < 0.88:
                subq = rand_q(g, rng, A, 1)
                joins.append(["on", how, ["sub", subq, "j0"],
                              ["basic", "eq", ["field", "k", list(avail[0]), None], ["field", "k", list(avail[0]), None], None]])
                continue
            elif jr < 0.94:
                joins.append(["cross", ["sub", rand_q(g, rng, A, 1), "cj"]])
                continue
            else:
                joins.append(["cross", ["table", item]])
            avail.append(item)
        st["joins"] = joins
        star = None
        if rng.random() < 0.15 and avail:
            star = list(rng.choice(avail))
            st["star"] = star
        sels = [wt_any(g, rng, A, depth) for _ in range(rng.choice([1, 1, 2, 3]))]
        sels = [s for s in sels if s[0] != "star"]        # a top-level Star goes through the star bookkeeping: only via st["star"]
        if star is not None:
            sels = [s for s in sels if not (s[0] in ("field", "not"))]
        if not sels and star is None:
            sels = [["field", "x", list(A), None]]
        st["selects"] = sels
        if rng.random() < 0.6:
            st["where"] = wt_any(gb, rng, A, depth, 0.2) if rng.random() < 0.3 else gb.boolean(depth)
        if st["dialect"] == "clickhouse" and rng.random() < 0.4:
            st["prewhere"] = gb.boolean(max(depth - 1, 0))
        if rng.random() < 0.3:
            st["groupby"] = [wt_any(g, rng, A, max(depth - 1, 0), 0.1) for _ in range(rng.choice([1, 2]))]
        if rng.random() < 0.3:
            st["having"] = gb.boolean(max(depth - 1, 0))
        if rng.random() < 0.4:
            st["orderby"] = [[wt_any(g, rng, A, max(depth - 1, 0), 0.15), rng.choice(["ASC", "DESC", None])]
                             for _ in range(rng.choice([1, 2]))]
        if st["dialect"] == "clickhouse" and rng.random() < 0.5:
            st["limit_by"] = [rng.choice([1, 3]), [g.num(max(depth - 1, 0)) for _ in range(rng.choice([1, 2]))]]
        if rng.random() < 0.06:
            st["with"] = [["w", rand_q(g, rng, A, 1)]]
        if st["dialect"] == "generic" and rng.random() < 0.15 and avail:
            st["dialect"] = "postgresql"
            st["extras"] = {"distinct_on": [g.num(1) for _ in range(rng.choice([1, 2]))]}
        elif st["dialect"] == "clickhouse" and rng.random() < 0.3:
            st["extras"] = {"distinct_on": [g.num(1)]}
    elif r < 0.82:
        st["mode"] = "insert"
        st["into"] = list(rng.choice([A, A, C_TBL]))
        n = rng.choice([1, 2, 3])
        st["columns"] = [["field", "c%d" % i, rng.choice([list(A), None, list(st["into"])]), None] for i in range(n)]
        st["values"] = [[rng.choice([one(), g.num(1), ["vals", "v", None]]) for _ in range(n)] for _ in range(rng.choice([1, 2]))]
        if rng.random() < 0.3:
            st["dialect"] = "mysql"
            st["extras"] = {"on_duplicate": [[["field", "c0", rng.choice([list(A), None]), None], rng.choice([one(), g.num(1)])]]}
    elif r < 0.88:
        st["mode"] = "insert_select"
        st["into"] = list(rng.choice([A, C_TBL]))
        st["from"] = [["table", list(rng.choice([A, D_TBL]))]]
        st["selects"] = [g.num(1) for _ in range(rng.choice([1, 2]))]
        if rng.random() < 0.5:
            st["where"] = gb.boolean(1)
    else:
        st["mode"] = "update"
        st["update"] = list(rng.choice([A, A, C_TBL]))
        st["sets"] = [[["field", "c%d" % i, rng.choice([list(A), None]), None], rng.choice([one(), g.num(1)])]
                      for i in range(rng.choice([1, 2]))]
        if rng.random() < 0.4:
            item = list(D_TBL)
            st["joins"] = [["on", "", ["table", item], ["basic", "eq", ["field", "k", item, None], ["field", "k", list(st["update"]), None], None]]]
        if rng.random() < 0.6:
            st["where"] = gb.boolean(1)
        if rng.random() < 0.3:
            st["dialect"] = "postgresql"
            st["extras"] = {"returning": [["field", "r%d" % i, list(st["update"]), None] for i in range(rng.choice([1, 2]))]}
    if st["dialect"] not in ("generic", "clickhouse"):
        st.pop("prewhere", None)
        st.pop("limit_by", None)
    return st


def stmt_tables(st):
    acc = []
    for s in st.get("from", []):
        if s[0] == "table":
            acc.append(s[1])
        elif s[0] == "sub":
            sp.tables_of_q(s[1], acc)
    for _, q in st.get("with", []):
        sp.tables_of_q(q, acc)
    for k in ("into", "update", "star"):
        if st.get(k) is not None:
            acc.append(st[k])
    for k in ("selects", "columns", "groupby"):
        for x in st.get(k, []):
            sp.tables_of(x, acc)
    for row in st.get("values", []):
        for x in row:
            sp.tables_of(x, acc)
    for k in ("where", "prewhere", "having"):
        if st.get(k) is not None:
            sp.tables_of(st[k], acc)
    for x, _ in st.get("orderby", []):
        sp.tables_of(x, acc)
    for j in st.get("joins", []):
        src = j[1] if j[0] == "cross" else j[2]
        if src[0] == "table":
            acc.append(src[1])
        elif src[0] == "sub":
            sp.tables_of_q(src[1], acc)
        if j[0] == "on":
            sp.tables_of(j[3], acc)
        if j[0] == "using_fields":
            for x in j[3]:
                sp.tables_of(x, acc)
    for f, v in st.get("sets", []):
        sp.tables_of(f, acc)
        sp.tables_of(v, acc)
    if st.get("limit_by"):
        for x in st["limit_by"][1]:
            sp.tables_of(x, acc)
    ex = st.get("extras") or {}
    for k in ("returning", "distinct_on"):
        for x in ex.get(k, []):
            sp.tables_of(x, acc)
    for f, v in ex.get("on_duplicate", []):
        sp.tables_of(f, acc)
        sp.tables_of(v, acc)
    acc.extend(ex.get("using", []))
    return acc


def stmt_cases(rng, n, depths):
    out = []
    for _ in range(n):
        A = list(rng.choice(A_POOL))
        st = rand_stmt(rng, A, rng.choice(depths))
        B = fresh_B(rng, A, stmt_tables(st))
        out.append({"kind": "stmt", "A": A, "B": B, "s": st, "fam": "random"})
    return out


def stmt_slot_cases(rng):
    """A in exactly one slot of a statement that has a join (so that namespaces are rendered)"""
    out = []
    for i, A in enumerate(A_POOL):
        A = list(A)
        fa = ["field", "x", list(A), None]
        fc = ["field", "y", list(C_TBL), None]
        jn = [["on", "", ["table", list(D_TBL)], ["basic", "eq", ["field", "k", list(D_TBL), None], ["field", "k", list(C_TBL), None], None]]]
        base = {"dialect": "generic", "mode": "select", "from": [["table", list(C_TBL)]], "joins": jn, "selects": [fc]}
        variants = {
            "_from": dict(base, **{"from": [["table", A]], "joins": [["on", "", ["table", list(D_TBL)], ["basic", "eq", ["field", "k", list(D_TBL), None], ["field", "k", A, None], None]]]}),
            "_selects": dict(base, selects=[fa, fc]),
            "_wheres": dict(base, where=crit(fa)),
            "_groupbys": dict(base, groupby=[fa]),
            "_havings": dict(base, having=crit(["func", "SUM", [fa], None])),
            "_orderbys": dict(base, orderby=[[fa, "DESC"]]),
            "_joins.item": dict(base, joins=[["on", "LEFT", ["table", A], ["basic", "eq", ["field", "k", A, None], ["field", "k", list(C_TBL), None], None]]]),
            "_joins.criterion": dict(base, **{"from": [["table", A]], "joins": [["on", "", ["table", list(D_TBL)], ["cplx", "and", ["basic", "eq", ["field", "k", list(D_TBL), None], ["field", "k", A, None], None], ["isnull", fa, None], None]]]}),
            "_joins.using": dict(base, joins=[["using", "", ["table", A], ["k"]]]),
            "_joins.using_fields": dict(base, joins=[["using_fields", "", ["table", list(D_TBL)], [fa]]]),
            "_joins.cross": dict(base, joins=[["cross", ["table", A]]]),
            "_joins.cross_sub": dict(base, joins=[["cross", ["sub", qs([A], [["field", "k", A, None]]), "cj"]]]),
            "_from.sub": dict(base, **{"from": [["sub", qs([A], [["field", "k", A, None]]), "sq"]], "joins": []}),
            "_joins.sub": dict(base, joins=[["on", "", ["sub", qs([A], [["field", "k", A, None]]), "j0"], crit(fc)]]),
            "_with": dict(base, **{"with": [["w", qs([A], [["field", "k", A, None]])]]}),
            "_select_star": dict(base, **{"from": [["table", A]], "star": A, "selects": [fc], "joins": [["on", "", ["table", list(D_TBL)], ["basic", "eq", ["field", "k", list(D_TBL), None], ["field", "k", A, None], None]]]}),
            "_insert_table": {"dialect": "generic", "mode": "insert", "into": A, "columns": [["field", "c0", A, None]], "values": [[one()]]},
            "_columns": {"dialect": "generic", "mode": "insert", "into": list(C_TBL), "columns": [["field", "c0", A, None]], "values": [[fa]]},
            "_values": {"dialect": "generic", "mode": "insert", "into": list(C_TBL), "columns": [], "values": [[fa, one()]]},
            "_update_table": {"dialect": "generic", "mode": "update", "update": A, "sets": [[["field", "c0", None, None], one()]], "joins": []},
            "_updates": {"dialect": "generic", "mode": "update", "update": list(C_TBL), "sets": [[["field", "c0", None, None], ["arith", "add", fa, one(), None]]],
                         "joins": [["on", "", ["table", list(D_TBL)], ["basic", "eq", ["field", "k", list(D_TBL), None], ["field", "k", list(C_TBL), None], None]]]},
            "_prewheres": dict(base, dialect="clickhouse", prewhere=crit(fa)),
            "_limit_by": dict(base, dialect="clickhouse", limit_by=[2, [fa]]),
            "insert_select": {"dialect": "generic", "mode": "insert_select", "into": A, "from": [["table", A]], "selects": [fa]},
        }
        for lab, st in variants.items():
            if i > 0 and rng.random() < 0.5:
                continue
            B = fresh_B(rng, A, stmt_tables(st))
            out.append({"kind": "stmt", "A": A, "B": B, "s": st, "fam": "slot:" + lab})
    return out


def extras_cases(rng):
    """dialect builders' own slots, each with A in exactly that slot"""
    out = []
    A = list(A_POOL[2])          # aliased, so that its columns are qualified even in single-table statements
    fa = ["field", "x", list(A), None]
    dj = [["on", "", ["table", list(D_TBL)], ["basic", "eq", ["field", "k", list(D_TBL), None], ["field", "k", list(A), None], None]]]
    specs = [
        {"dialect": "postgresql", "mode": "update", "update": A, "sets": [[["field", "c0", None, None], one()]], "extras": {"returning": [fa]}},
        {"dialect": "postgresql", "mode": "select", "from": [["table", A]], "joins": dj, "selects": [["field", "y", list(D_TBL), None]], "extras": {"distinct_on": [fa]}},
        {"dialect": "mysql", "mode": "insert", "into": A, "columns": [["field", "c0", None, None]], "values": [[one()]], "extras": {"on_duplicate": [[["field", "c0", None, None], ["func", "VALUES", [fa], None]]]}},
        {"dialect": "clickhouse", "mode": "select", "from": [["table", A]], "joins": dj, "selects": [["field", "y", list(D_TBL), None]], "extras": {"distinct_on": [fa]}},
        {"dialect": "postgresql", "mode": "delete", "from": [["table", list(C_TBL)]], "where": crit(fa), "extras": {"using": [A]}},
        {"dialect": "postgresql", "mode": "insert", "into": A, "columns": [["field", "c0", None, None]], "values": [[one()]],
         "extras": {"on_conflict": {"fields": [["field", "c0", A, None]], "updates": [[["field", "c0", None, None], ["arith", "add", fa, one(), None]]],
                                    "where": crit(["field", "w", A, None]), "update_where": crit(["field", "u", A, None])}}},
    ]
    for st in specs:
        out.append({"kind": "stmt", "A": A, "B": ["b", [], "bb"], "s": st, "fam": "extras"})
    return out
