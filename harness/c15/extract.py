"""C15 extraction: which child slots does each class's `replace_table` re-assign from a recursive call?

Static part  : a fail-closed `ast` walk over the effective `replace_table` method of every modelled class (found through
               the MRO of the real, imported class; sources are read below harness.lib.REPO).
Dynamic part : for every (class, child slot) an object is built with table A only in that slot, `replace_table(A, B)` is
               called and a generic object walk looks for a surviving A; the answer must agree with the static one.
               A second generic walk over fully populated sample objects checks that the hand-written list of child
               slots (SLOTS below = what `subst_table` must visit) still names every attribute that holds a node.
Output       : coq/gen/C15Table.v (`ctor`, `slot`, `visited : ctor -> list slot`, two booleans about missing methods).
Anything unrecognised raises, the driver then poisons the generated file and every proof depending on it fails."""
import ast
import inspect
import os

from harness import lib

# model constructor -> (module, class name); order fixes the Gallina enumeration
CLASSES = [
    ("KField", "pypika.terms", "Field"), ("KStar", "pypika.terms", "Star"),
    ("KValue", "pypika.terms", "ValueWrapper"), ("KLiteral", "pypika.terms", "LiteralValue"),
    ("KParam", "pypika.terms", "Parameter"), ("KNeg", "pypika.terms", "Negative"),
    ("KArith", "pypika.terms", "ArithmeticExpression"), ("KBasic", "pypika.terms", "BasicCriterion"),
    ("KCplx", "pypika.terms", "ComplexCriterion"), ("KIn", "pypika.terms", "ContainsCriterion"),
    ("KBetween", "pypika.terms", "BetweenCriterion"), ("KPeriod", "pypika.terms", "PeriodCriterion"),
    ("KBitAnd", "pypika.terms", "BitwiseAndCriterion"), ("KIsNull", "pypika.terms", "NullCriterion"),
    ("KNotNull", "pypika.terms", "NotNullCriterion"), ("KNot", "pypika.terms", "Not"), ("KAll", "pypika.terms", "All"),
    ("KEmpty", "pypika.terms", "EmptyCriterion"), ("KCase", "pypika.terms", "Case"), ("KFunc", "pypika.terms", "Function"),
    ("KTuple", "pypika.terms", "Tuple"), ("KArray", "pypika.terms", "Array"), ("KNested", "pypika.terms", "NestedCriterion"),
    ("KAgg", "pypika.terms", "AggregateFunction"), ("KAnalytic", "pypika.terms", "AnalyticFunction"),
    ("KExtract", "pypika.functions", "Extract"), ("KExists", "pypika.terms", "ExistsCriterion"),
    ("KAtTz", "pypika.terms", "AtTimezone"), ("KSetOp", "pypika.queries", "_SetOperation"),
    ("KChHasAny", "pypika.clickhouse.array", "HasAny"), ("KChArrayFn", "pypika.clickhouse.array", "Length"),
    ("KChToFixed", "pypika.clickhouse.type_conversion", "ToFixedString"),
    ("KQuery", "pypika.queries", "QueryBuilder"), ("KClickHouse", "pypika.dialects", "ClickHouseQueryBuilder"),
    ("KPostgres", "pypika.dialects", "PostgreSQLQueryBuilder"), ("KMySQL", "pypika.dialects", "MySQLQueryBuilder"),
    ("KJoin", "pypika.queries", "Join"), ("KJoinOn", "pypika.queries", "JoinOn"), ("KJoinUsing", "pypika.queries", "JoinUsing"),
]

# the child slots of each class that hold tables / terms: the SPECIFICATION side (subst_table visits all of them).
# `_cases` is split into its two components.
QSLOTS = ["_from", "_insert_table", "_update_table", "_with", "_selects", "_columns", "_values", "_wheres", "_prewheres",
          "_groupbys", "_havings", "_orderbys", "_joins", "_updates", "_select_star_tables"]
SLOTS = {
    "KField": ["table"], "KStar": ["table"], "KValue": ["value"], "KLiteral": [], "KParam": [], "KNeg": ["term"],
    "KArith": ["left", "right"], "KBasic": ["left", "right"], "KCplx": ["left", "right"], "KIn": ["term", "container"],
    "KBetween": ["term", "start", "end"], "KPeriod": ["term", "start", "end"], "KBitAnd": ["term"],
    "KIsNull": ["term"], "KNotNull": ["term"], "KNot": ["term"], "KAll": ["term"], "KEmpty": [],
    "KCase": ["_cases_crit", "_cases_term", "_else"], "KFunc": ["args"], "KTuple": ["values"], "KArray": ["values"],
    "KNested": ["left", "right", "nested"], "KAgg": ["args", "_filters"],
    "KAnalytic": ["args", "_filters", "_partition", "_orderbys"], "KExtract": ["field"], "KExists": ["container"],
    "KAtTz": ["field"], "KSetOp": ["base_query", "_set_operation", "_orderbys"],
    "KChHasAny": ["_left_array", "_right_array"], "KChArrayFn": ["_array"], "KChToFixed": ["_field"],
    "KQuery": list(QSLOTS), "KClickHouse": QSLOTS + ["_limit_by", "_distinct_on"],
    "KPostgres": QSLOTS + ["_distinct_on", "_returns", "_using", "_on_conflict_fields", "_on_conflict_do_updates",
                           "_on_conflict_wheres", "_on_conflict_do_update_wheres"],
    "KMySQL": QSLOTS + ["_duplicate_updates"],
    "KJoin": ["item"], "KJoinOn": ["item", "criterion"], "KJoinUsing": ["item", "fields"],
}
# attributes that hold nodes but are deliberately outside the model (with the reason)
IGNORED = {
    "KBitAnd": {"value": "a ValueWrapper around a number: no table below it"},
    "KExtract": {"args": "inherited from Function; the constructor only ever puts the date-part literal there"},
    "KQuery": {"_using": "only PostgreSQLQueryBuilder fills it (slot of KPostgres)", "_force_indexes": "Index terms: no table",
               "_use_indexes": "Index terms: no table", "_unions": "unused attribute"},
    "KClickHouse": {"_using": "see KQuery", "_force_indexes": "no table", "_use_indexes": "no table", "_unions": "unused"},
    "KPostgres": {"_force_indexes": "no table", "_use_indexes": "no table", "_unions": "unused"},
    "KMySQL": {"_using": "see KQuery", "_force_indexes": "no table", "_use_indexes": "no table", "_unions": "unused"},
}
ALL_SLOTS = []
for _k, _m, _c in CLASSES:
    for _s in SLOTS[_k]:
        if _s not in ALL_SLOTS:
            ALL_SLOTS.append(_s)


class ExtractError(Exception):
    pass


def load_class(mod, name):
    import importlib
    return getattr(importlib.import_module(mod), name)


# ----------------------------------------------------------------------------------------------
# static walk
# ----------------------------------------------------------------------------------------------
_AST_CACHE = {}


def _module_ast(path):
    real = os.path.realpath(path)
    root = os.path.realpath(lib.REPO)
    if not real.startswith(root + os.sep):
        raise ExtractError("source file %s is not below %s" % (real, root))
    if real not in _AST_CACHE:
        with open(real) as f:
            _AST_CACHE[real] = ast.parse(f.read(), real)
    return _AST_CACHE[real]


SHADOWED = []


def owner_of(cls):
    for k in cls.__mro__:
        if "replace_table" in k.__dict__:
            return k
    return None


def method_ast(owner):
    tree = _module_ast(inspect.getsourcefile(owner))
    for node in ast.walk(tree):
        if isinstance(node, ast.ClassDef) and node.name == owner.__name__:
            defs = [it for it in node.body if isinstance(it, ast.FunctionDef) and it.name == "replace_table"]
            if defs:
                if len(defs) > 1:
                    SHADOWED.append("%s defines replace_table %d times (lines %s); Python keeps the LAST one"
                                    % (owner.__name__, len(defs), ", ".join(str(d.lineno) for d in defs)))
                return defs[-1]          # a later definition in the same class body shadows the earlier ones
    raise ExtractError("no replace_table FunctionDef found in class %s" % owner.__name__)


def _self_attr(n):
    if isinstance(n, ast.Attribute) and isinstance(n.value, ast.Name) and n.value.id == "self":
        return n.attr
    return None


def _same(a, b):
    """structural equality of two expressions, ignoring Load/Store context"""
    return ast.dump(a).replace("Store()", "Load()") == ast.dump(b).replace("Store()", "Load()")


class _M:
    """pattern helpers bound to the parameter names of one method"""

    def __init__(self, fn, where):
        args = [a.arg for a in fn.args.args]
        if len(args) != 3 or args[0] != "self" or fn.args.vararg or fn.args.kwarg or fn.args.kwonlyargs:
            raise ExtractError("%s: unexpected signature %s" % (where, args))
        self.cur, self.new = args[1], args[2]
        self.where = where

    def rt_call(self, n):
        """n == <recv>.replace_table(cur, new) -> recv, else None"""
        if (isinstance(n, ast.Call) and isinstance(n.func, ast.Attribute) and n.func.attr == "replace_table"
                and not n.keywords and len(n.args) == 2
                and isinstance(n.args[0], ast.Name) and n.args[0].id == self.cur
                and isinstance(n.args[1], ast.Name) and n.args[1].id == self.new):
            return n.func.value
        return None

    def eq_cur(self, n):
        """n == (<x> == cur) or (cur == <x>) -> x"""
        if isinstance(n, ast.Compare) and len(n.ops) == 1 and isinstance(n.ops[0], ast.Eq) and len(n.comparators) == 1:
            l, r = n.left, n.comparators[0]
            if isinstance(r, ast.Name) and r.id == self.cur:
                return l
            if isinstance(l, ast.Name) and l.id == self.cur:
                return r
        return None

    def is_new(self, n):
        return isinstance(n, ast.Name) and n.id == self.new

    def enter_if_term(self, n, subject):
        """n == (subject.replace_table(cur, new) if isinstance(subject, Term) else subject)"""
        if not isinstance(n, ast.IfExp):
            return False
        return self.is_term_test(n.test, subject) and self.rt_call(n.body) is not None and _same(self.rt_call(n.body), subject) \
            and _same(n.orelse, subject)

    @staticmethod
    def is_term_test(t, subject):
        return (isinstance(t, ast.Call) and isinstance(t.func, ast.Name) and t.func.id == "isinstance" and len(t.args) == 2
                and not t.keywords and _same(t.args[0], subject) and isinstance(t.args[1], ast.Name) and t.args[1].id == "Term")

    def select_if_eq_enter(self, n, subject):
        """n == (new if subject == cur else (subject.replace_table(..) if isinstance(subject, Term) else subject))"""
        if not isinstance(n, ast.IfExp):
            return False
        x = self.eq_cur(n.test)
        return x is not None and _same(x, subject) and self.is_new(n.body) and self.enter_if_term(n.orelse, subject)

    def select_if_eq(self, n, subject):
        """n == (new if subject == cur else subject)"""
        if not isinstance(n, ast.IfExp):
            return False
        x = self.eq_cur(n.test)
        return x is not None and _same(x, subject) and self.is_new(n.body) and _same(n.orelse, subject)


def _one_gen(lc):
    if len(lc.generators) != 1:
        return None
    g = lc.generators[0]
    if g.ifs or g.is_async:
        return None
    return g


MODES = {}      # (method owner, attribute) -> "call" | "cmp" | "rebuild": how the slot's elements are handled


def _stmt_effect(m, st):
    """effect of one statement of a @builder replace_table body: list of visited slot names"""
    w = m.where
    owner = w.split(".")[0]
    if isinstance(st, ast.If):
        # if cur in self._select_star_tables: self._select_star_tables.remove(cur); self._select_star_tables.add(new)
        t = st.test
        if (isinstance(t, ast.Compare) and len(t.ops) == 1 and isinstance(t.ops[0], ast.In)
                and isinstance(t.left, ast.Name) and t.left.id == m.cur and not st.orelse and len(st.body) == 2):
            attr = _self_attr(t.comparators[0])
            calls = []
            for b in st.body:
                if (isinstance(b, ast.Expr) and isinstance(b.value, ast.Call) and isinstance(b.value.func, ast.Attribute)
                        and _self_attr(b.value.func.value) == attr and len(b.value.args) == 1
                        and isinstance(b.value.args[0], ast.Name)):
                    calls.append((b.value.func.attr, b.value.args[0].id))
            if attr and sorted(calls) == sorted([("remove", m.cur), ("add", m.new)]):
                return [attr]
        # if self.X == cur: self.X = new
        # elif isinstance(self.X, Term): self.X = self.X.replace_table(cur, new)
        subj = m.eq_cur(t)
        if subj is not None and _self_attr(subj) and len(st.body) == 1 and len(st.orelse) == 1 and isinstance(st.orelse[0], ast.If):
            attr = _self_attr(subj)
            b, e2 = st.body[0], st.orelse[0]
            ok1 = isinstance(b, ast.Assign) and len(b.targets) == 1 and _same(b.targets[0], subj) and m.is_new(b.value)
            ok2 = (m.is_term_test(e2.test, subj) and not e2.orelse and len(e2.body) == 1 and isinstance(e2.body[0], ast.Assign)
                   and len(e2.body[0].targets) == 1 and _same(e2.body[0].targets[0], subj)
                   and m.rt_call(e2.body[0].value) is not None and _same(m.rt_call(e2.body[0].value), subj))
            if ok1 and ok2:
                MODES[(owner, attr)] = "cmp_enter"
                return [attr]
        # if self.X: <body>      /      if isinstance(self.X, Term): self.X = self.X.replace_table(cur, new)
        gattr = _self_attr(t)
        if gattr is None and m.is_term_test(t, ast.Attribute(value=ast.Name(id="self", ctx=ast.Load()),
                                                              attr=(t.args[0].attr if isinstance(t, ast.Call) and t.args and isinstance(t.args[0], ast.Attribute) else "?"),
                                                              ctx=ast.Load())):
            gattr = t.args[0].attr
        if gattr is not None and not st.orelse:
            me_ = ast.Attribute(value=ast.Name(id="self", ctx=ast.Load()), attr=gattr, ctx=ast.Load())

            def sub(n, i):
                return (isinstance(n, ast.Subscript) and _same(n.value, me_) and isinstance(n.slice, ast.Constant)
                        and n.slice.value == i)

            def lc_over(lc, it_ok):
                g_ = _one_gen(lc) if isinstance(lc, ast.ListComp) else None
                r_ = m.rt_call(lc.elt) if g_ is not None else None
                return g_ is not None and isinstance(g_.target, ast.Name) and r_ is not None and _same(r_, g_.target) and it_ok(g_.iter)
            b = st.body
            if len(b) == 1 and isinstance(b[0], ast.Assign) and len(b[0].targets) == 1 and _same(b[0].targets[0], me_):
                v_ = b[0].value
                r_ = m.rt_call(v_)
                if r_ is not None and _same(r_, me_):                       # self.X = self.X.replace_table(..)
                    MODES[(owner, gattr)] = "call"
                    return [gattr]
                if isinstance(v_, ast.Tuple) and len(v_.elts) == 3 and sub(v_.elts[0], 0) and sub(v_.elts[1], 1) \
                        and lc_over(v_.elts[2], lambda it: sub(it, 2)):     # (self.X[0], self.X[1], [c.rt for c in self.X[2]])
                    return [gattr]
            if len(b) == 2 and all(isinstance(x, ast.Assign) and len(x.targets) == 1 for x in b) \
                    and isinstance(b[0].targets[0], ast.Tuple) and len(b[0].targets[0].elts) == 3 \
                    and all(isinstance(x, ast.Name) for x in b[0].targets[0].elts) and _same(b[0].value, me_) \
                    and _same(b[1].targets[0], me_) and isinstance(b[1].value, ast.Tuple) and len(b[1].value.elts) == 3:
                n0, n1, n2 = b[0].targets[0].elts                           # n, offset, by = self.X; self.X = (n, offset, [t.rt for t in by])
                e0, e1, e2 = b[1].value.elts
                if _same(e0, n0) and _same(e1, n1) and lc_over(e2, lambda it: _same(it, n2)):
                    return [gattr]
        raise ExtractError("%s: unrecognised if-statement: %s" % (w, ast.unparse(st)[:200]))
    if not (isinstance(st, ast.Assign) and len(st.targets) == 1):
        raise ExtractError("%s: unrecognised statement: %s" % (w, ast.unparse(st)[:200]))
    attr = _self_attr(st.targets[0])
    if attr is None:
        raise ExtractError("%s: assignment target is not self.<attr>: %s" % (w, ast.unparse(st)[:200]))
    v = st.value
    me = st.targets[0]
    # self.X = self.X.replace_table(cur, new)
    r = m.rt_call(v)
    if r is not None:
        if _same(r, me):
            MODES[(owner, attr)] = "call"
            return [attr]
        raise ExtractError("%s: self.%s is assigned from another slot: %s" % (w, attr, ast.unparse(st)[:200]))
    if isinstance(v, ast.IfExp):
        # self.X = self.X.replace_table(cur, new) if self.X else None
        r = m.rt_call(v.body)
        if (r is not None and _same(r, me) and _same(v.test, me) and isinstance(v.orelse, ast.Constant)
                and v.orelse.value is None):
            return [attr]
        # self.X = new if self.X == cur else self.X
        if m.select_if_eq(v, me):
            MODES[(owner, attr)] = "cmp"
            return [attr]
        raise ExtractError("%s: unrecognised conditional: %s" % (w, ast.unparse(st)[:200]))
    if isinstance(v, ast.ListComp):
        g = _one_gen(v)
        if g is None or not _same(g.iter, me):
            raise ExtractError("%s: comprehension does not range over self.%s: %s" % (w, attr, ast.unparse(st)[:200]))
        e = v.elt
        if isinstance(g.target, ast.Name):
            x = g.target
            r = m.rt_call(e)
            if r is not None and _same(r, x):                      # [x.replace_table(..) for x in self.X]
                MODES[(owner, attr)] = "call"
                return [attr]
            if m.select_if_eq(e, x):                               # [new if x == cur else x for x in self.X]
                MODES[(owner, attr)] = "cmp"
                return [attr]
            if m.enter_if_term(e, x):          # [x.replace_table(..) if isinstance(x, Term) else x for x in self.X]
                MODES[(owner, attr)] = "call"
                return [attr]
            if m.select_if_eq_enter(e, x):     # [new if x == cur else (x.replace_table(..) if isinstance(x, Term) else x) ..]
                MODES[(owner, attr)] = "cmp_enter"
                return [attr]
            if isinstance(e, ast.IfExp):
                # [x.replace_table(..) if hasattr(x, "replace_table") else x for x in self.X]
                t_ = e.test
                r = m.rt_call(e.body)
                if (isinstance(t_, ast.Call) and isinstance(t_.func, ast.Name) and t_.func.id == "hasattr" and len(t_.args) == 2
                        and _same(t_.args[0], x) and isinstance(t_.args[1], ast.Constant) and t_.args[1].value == "replace_table"
                        and r is not None and _same(r, x) and _same(e.orelse, x)):
                    MODES[(owner, attr)] = "call"
                    return [attr]
                # [AliasedQuery(x.name, x.query.replace_table(..)) if isinstance(x.query, Term) else x for x in self.X]
                def xattr(n, a):
                    return isinstance(n, ast.Attribute) and n.attr == a and _same(n.value, x)
                b_ = e.body
                if (isinstance(t_, ast.Call) and isinstance(t_.func, ast.Name) and t_.func.id == "isinstance" and len(t_.args) == 2
                        and xattr(t_.args[0], "query") and isinstance(t_.args[1], ast.Name) and t_.args[1].id == "Term"
                        and isinstance(b_, ast.Call) and isinstance(b_.func, ast.Name) and b_.func.id == "AliasedQuery"
                        and not b_.keywords and len(b_.args) == 2 and xattr(b_.args[0], "name")
                        and m.rt_call(b_.args[1]) is not None and xattr(m.rt_call(b_.args[1]), "query") and _same(e.orelse, x)):
                    MODES[(owner, attr)] = "rebuild"
                    return [attr]
            if isinstance(e, ast.ListComp):                        # [[y.replace_table(..) for y in x] for x in self.X]
                g2 = _one_gen(e)
                r = m.rt_call(e.elt)
                if (g2 is not None and _same(g2.iter, x) and isinstance(g2.target, ast.Name) and r is not None
                        and _same(r, g2.target)):
                    return [attr]
            if isinstance(e, ast.Tuple) and len(e.elts) == 2:      # [(x[0].replace_table(..), x[1]) for x in self.X]
                def sub(n, i):
                    return (isinstance(n, ast.Subscript) and _same(n.value, x) and isinstance(n.slice, ast.Constant)
                            and n.slice.value == i)
                r = m.rt_call(e.elts[0])
                if r is not None and sub(r, 0) and sub(e.elts[1], 1):
                    return [attr]
        elif isinstance(g.target, ast.Tuple) and len(g.target.elts) == 2 and isinstance(e, (ast.List, ast.Tuple)) \
                and len(e.elts) == 2 and all(isinstance(t, ast.Name) for t in g.target.elts):
            # [[c.replace_table(..), t.replace_table(..)] for c, t in self._cases]
            #   _cases: two slots;  _orderbys: (term, direction) - the direction is copied;  _updates: one slot, both parts
            hit_ = []
            for comp, var in zip(e.elts, g.target.elts):
                r = m.rt_call(comp)
                if (r is not None and _same(r, var)) or m.enter_if_term(comp, var):
                    hit_.append(True)              # x.replace_table(..)   or   x.replace_table(..) if isinstance(x, Term) else x
                elif _same(comp, var):
                    hit_.append(False)                             # component copied unchanged: not visited
                else:
                    raise ExtractError("%s: unrecognised pair component: %s" % (w, ast.unparse(st)[:200]))
            if attr == "_cases":
                return [attr + tag for tag, h in zip(("_crit", "_term"), hit_) if h]
            want = {"_orderbys": [True, False], "_updates": [True, True], "_duplicate_updates": [True, True],
                    "_on_conflict_do_updates": [True, True], "_set_operation": [False, True]}.get(attr)
            if want is not None:
                if hit_ == want:
                    return [attr]
                if hit_ == [False, False]:
                    return []
            raise ExtractError("%s: unexpected pair handling %s: %s" % (w, hit_, ast.unparse(st)[:200]))
        raise ExtractError("%s: unrecognised comprehension: %s" % (w, ast.unparse(st)[:200]))
    raise ExtractError("%s: unrecognised assignment: %s" % (w, ast.unparse(st)[:200]))


def _body(fn):
    b = list(fn.body)
    if b and isinstance(b[0], ast.Expr) and isinstance(b[0].value, ast.Constant) and isinstance(b[0].value.value, str):
        b = b[1:]
    return b


def _decorators(fn):
    return [ast.unparse(d) for d in fn.decorator_list]


def static_visited(cls):
    """visited slot names of the class's effective replace_table (attribute names; `_cases` split)"""
    owner = owner_of(cls)
    if owner is None:
        raise ExtractError("%s has no replace_table at all" % cls.__name__)
    fn = method_ast(owner)
    where = "%s.replace_table" % owner.__name__
    m = _M(fn, where)
    body = _body(fn)
    # the no-op: `return self`
    if len(body) == 1 and isinstance(body[0], ast.Return) and isinstance(body[0].value, ast.Name) \
            and body[0].value.id == "self":
        if _decorators(fn):
            raise ExtractError("%s: decorated no-op" % where)
        return []
    # the ClickHouse form: newone = super().replace_table(cur, new); if self.S: newone.S = (self.S[0], self.S[1], [..]); return newone
    if body and isinstance(body[0], ast.Assign) and isinstance(body[0].value, ast.Call):
        r = m.rt_call(body[0].value)
        if (r is not None and isinstance(r, ast.Call) and isinstance(r.func, ast.Name) and r.func.id == "super"
                and not r.args and len(body[0].targets) == 1 and isinstance(body[0].targets[0], ast.Name)):
            if _decorators(fn):
                raise ExtractError("%s: decorated super() form" % where)
            nv = body[0].targets[0].id
            parent = None
            for k in owner.__mro__[1:]:
                if "replace_table" in k.__dict__:
                    parent = k
                    break
            out = list(static_visited(parent))
            rest = body[1:]
            if not (rest and isinstance(rest[-1], ast.Return) and isinstance(rest[-1].value, ast.Name)
                    and rest[-1].value.id == nv):
                raise ExtractError("%s: does not return the copy" % where)

            class _Ren(ast.NodeTransformer):
                def visit_Name(self, n):
                    return ast.copy_location(ast.Name(id="self", ctx=n.ctx), n) if n.id == nv else n
            for st in rest[:-1]:
                st2 = _Ren().visit(ast.parse(ast.unparse(st)).body[0])     # the copy is the object being rebuilt
                for s_ in _stmt_effect(m, st2):
                    if s_ in out:
                        raise ExtractError("%s: slot %s assigned twice" % (where, s_))
                    out.append(s_)
            return out
    # the @builder form: independent self.<slot> assignments (any order)
    if _decorators(fn) != ["builder"]:
        raise ExtractError("%s: expected exactly the @builder decorator, found %s" % (where, _decorators(fn)))
    out = []
    for st in body:
        for s in _stmt_effect(m, st):
            if s in out:
                raise ExtractError("%s: slot %s assigned twice" % (where, s))
            out.append(s)
    return out


# ----------------------------------------------------------------------------------------------
# dynamic cross-check
# ----------------------------------------------------------------------------------------------
def reach_tables(obj, pred, seen=None, depth=0):
    """generic walk over an object graph (instance dicts, lists, tuples, sets, dicts): is a Table satisfying pred reachable?"""
    from pypika.queries import Table
    seen = seen if seen is not None else set()
    if id(obj) in seen or depth > 60:
        return False
    seen.add(id(obj))
    if isinstance(obj, Table):
        if pred(obj):
            return True
    if isinstance(obj, (str, bytes, int, float, bool, type(None), type)):
        return False
    if isinstance(obj, (list, tuple, set, frozenset)):
        return any(reach_tables(x, pred, seen, depth + 1) for x in obj)
    if isinstance(obj, dict):
        return any(reach_tables(x, pred, seen, depth + 1) for x in obj.values())
    d = getattr(obj, "__dict__", None)
    if isinstance(d, dict):
        return any(reach_tables(v, pred, seen, depth + 1) for k, v in d.items() if k != "_query_cls")
    return False


def holds_node(v, depth=0):
    from pypika.terms import Node
    from pypika.queries import Join
    if isinstance(v, (Node, Join)):
        return True
    if isinstance(v, (list, tuple, set, frozenset)) and depth < 4:
        return any(holds_node(x, depth + 1) for x in v)
    return False


def _samples():
    """ctor -> function(slot or None) building an object with table A only in `slot` (None: every slot populated)."""
    import pypika.terms as T
    import pypika.enums as E
    from pypika import Query, Table, functions as fn
    from pypika.queries import Join, JoinOn, JoinUsing, QueryBuilder
    from pypika.dialects import ClickHouseQuery, PostgreSQLQuery, MySQLQuery

    def A():
        return Table("a")            # a fresh, equal-but-not-identical object each time (defeats an `is` comparison)

    C = Table("c")

    def f(slot, s):                  # a field on A if this is the probed slot (or all slots), else on C
        return T.Field("x_" + s.strip("_"), table=A() if slot in (s, None) else C)

    def sample_query(base, slot, clickhouse=False, kind=None):
        # every element is a bare Field, so that a probe depends only on Field and on the class under test
        fa = lambda s: f(slot, s)    # noqa: E731
        Z = Table("z")
        frm = A() if slot in ("_from", None) else C
        q = base.from_(frm).from_(Z)
        if slot in ("_with",):
            q = q.with_(Query.from_(A()).select("w"), "w")
        q = q.select(fa("_selects"))
        if slot in ("_select_star_tables", None):
            # bypass select(): a star on a table outside FROM, kept out of _selects so that only the set holds A
            q._select_star_tables = {A()}
        q = q.where(fa("_wheres")).groupby(fa("_groupbys")).having(fa("_havings")).orderby(fa("_orderbys"))
        if clickhouse:
            q = q.prewhere(fa("_prewheres")).limit_by(1, fa("_limit_by"))
        else:
            q._prewheres = fa("_prewheres")
        d = Table("d")
        item = A() if slot in ("_joins", None) else d
        q = q.join(item).on(T.Field("k", table=Z))
        # INSERT / UPDATE parts are set directly: one object carries every slot
        q._insert_table = A() if slot in ("_insert_table", None) else None
        q._update_table = A() if slot in ("_update_table", None) else None
        q._columns = [fa("_columns")]
        q._values = [[fa("_values")]]
        q._updates = [(T.Field("u"), fa("_updates"))]
        # dialect slots, set directly (their builder calls validate against FROM)
        if clickhouse or kind == "pg":
            q._distinct_on = [fa("_distinct_on")]
        if kind == "pg":
            q._returns = [fa("_returns")]
            q._using = [A() if slot in ("_using", None) else C]
            q._on_conflict_fields = [fa("_on_conflict_fields")]
            q._on_conflict_do_updates = [(T.Field("u"), fa("_on_conflict_do_updates"))]
            q._on_conflict_wheres = fa("_on_conflict_wheres")
            q._on_conflict_do_update_wheres = fa("_on_conflict_do_update_wheres")
        if kind == "mysql":
            q._duplicate_updates = [(T.Field("u"), fa("_duplicate_updates"))]
        return q

    def setop(slot):
        from pypika import Query as Q_
        u = Q_.from_(C).select(f(slot, "base_query")).union(Q_.from_(C).select(f(slot, "_set_operation")))
        return u.orderby(f(slot, "_orderbys"))

    def agg(slot, cls=T.AggregateFunction):
        return cls("SUM", f(slot, "args")).filter(f(slot, "_filters"))

    def analytic(slot):
        x = T.AnalyticFunction("SUM", f(slot, "args")).filter(f(slot, "_filters"))
        return x.over(f(slot, "_partition")).orderby(f(slot, "_orderbys"))

    def case(slot):
        return T.Case().when(f(slot, "_cases_crit"), f(slot, "_cases_term")).else_(f(slot, "_else"))

    def extract_(slot):
        return fn.Extract("YEAR", f(slot, "field"))

    sub = lambda slot, s: Query.from_(A() if slot in (s, None) else C).select("x")    # noqa: E731
    return {
        "KField": lambda s: T.Field("x", table=A()), "KStar": lambda s: T.Star(A()),
        "KValue": lambda s: T.ValueWrapper(f(s, "value")), "KLiteral": lambda s: T.LiteralValue("L"), "KParam": lambda s: T.Parameter("?"),
        "KNeg": lambda s: T.Negative(f(s, "term")),
        "KArith": lambda s: T.ArithmeticExpression(E.Arithmetic.add, f(s, "left"), f(s, "right")),
        "KBasic": lambda s: T.BasicCriterion(E.Equality.eq, f(s, "left"), f(s, "right")),
        "KCplx": lambda s: T.ComplexCriterion(E.Boolean.and_, f(s, "left"), f(s, "right")),
        "KIn": lambda s: T.ContainsCriterion(f(s, "term"), f(s, "container")),
        "KBetween": lambda s: T.BetweenCriterion(f(s, "term"), f(s, "start"), f(s, "end")),
        "KPeriod": lambda s: T.PeriodCriterion(f(s, "term"), f(s, "start"), f(s, "end")),
        "KBitAnd": lambda s: T.BitwiseAndCriterion(f(s, "term"), T.ValueWrapper(3)),
        "KIsNull": lambda s: T.NullCriterion(f(s, "term")), "KNotNull": lambda s: T.NotNullCriterion(f(s, "term")),
        "KNot": lambda s: T.Not(f(s, "term")), "KAll": lambda s: T.All(f(s, "term")), "KEmpty": lambda s: T.EmptyCriterion(),
        "KCase": case, "KFunc": lambda s: T.Function("F", f(s, "args"), 1),
        "KTuple": lambda s: T.Tuple(f(s, "values"), 1), "KArray": lambda s: T.Array(f(s, "values"), 1),
        "KNested": lambda s: T.NestedCriterion(E.Equality.eq, E.Boolean.and_, f(s, "left"), f(s, "right"), f(s, "nested")),
        "KAgg": agg, "KAnalytic": analytic,
        "KExtract": extract_,
        "KExists": lambda s: T.ExistsCriterion(sub(s, "container")),
        "KAtTz": lambda s: T.AtTimezone(f(s, "field"), "UTC"), "KSetOp": setop,
        "KChHasAny": lambda s: __import__("pypika.clickhouse.array", fromlist=["HasAny"]).HasAny(f(s, "_left_array"), f(s, "_right_array")),
        "KChArrayFn": lambda s: __import__("pypika.clickhouse.array", fromlist=["Length"]).Length(f(s, "_array")),
        "KChToFixed": lambda s: __import__("pypika.clickhouse.type_conversion", fromlist=["ToFixedString"]).ToFixedString(f(s, "_field"), 3),
        "KQuery": lambda s: sample_query(Query, s), "KClickHouse": lambda s: sample_query(ClickHouseQuery, s, True),
        "KPostgres": lambda s: sample_query(PostgreSQLQuery, s, kind="pg"),
        "KMySQL": lambda s: sample_query(MySQLQuery, s, kind="mysql"),
        "KJoin": lambda s: Join(A() if s in ("item", None) else C, E.JoinType.cross),
        "KJoinOn": lambda s: JoinOn(A() if s in ("item", None) else C, E.JoinType.inner, f(s, "criterion")),
        "KJoinUsing": lambda s: JoinUsing(A() if s in ("item", None) else C, E.JoinType.inner, [f(s, "fields")]),
    }


def dynamic_probe(ctor, slot):
    """'replaced' | 'kept' | exception class name, for table A placed only in `slot` of a sample object of `ctor`"""
    from pypika import Table
    A, B = Table("a"), Table("b")
    obj = _samples()[ctor](slot)
    if not reach_tables(obj, lambda t: t == A):
        raise ExtractError("probe for %s.%s does not contain A" % (ctor, slot))
    try:
        res = obj.replace_table(A, B)
    except Exception as e:  # noqa
        return type(e).__name__
    if res is None:
        return "returned-None"
    still = reach_tables(res, lambda t: t == A)
    got_b = reach_tables(res, lambda t: t == B)
    if reach_tables(res, lambda t: t == Table("c")) != reach_tables(obj, lambda t: t == Table("c")) or \
            reach_tables(res, lambda t: t == Table("d")) != reach_tables(obj, lambda t: t == Table("d")):
        return "other-table-touched"
    if not still and got_b:
        return "replaced"
    if still and not got_b:
        return "kept"
    return "mixed"


def check_slot_list(ctor, cls):
    """every attribute of a fully populated sample that holds a node is either a known child slot or listed as ignored"""
    obj = _samples()[ctor](None)
    known = set()
    for s in SLOTS[ctor]:
        known.add("_cases" if s.startswith("_cases_") else s)
    known |= set(IGNORED.get(ctor, {}))
    unknown = []
    for k, v in vars(obj).items():
        if holds_node(v) and k not in known:
            unknown.append(k)
    if unknown:
        raise ExtractError("%s (%s): attributes %s hold nodes but are not in the slot list of the model"
                           % (ctor, cls.__name__, unknown))


def has_method(cls):
    return any("replace_table" in k.__dict__ for k in cls.__mro__)


def extract_table():
    from pypika.queries import AliasedQuery, Table
    MODES.clear()
    del SHADOWED[:]
    visited = {}
    notes = []
    for ctor, mod, name in CLASSES:
        cls = load_class(mod, name)
        vs = static_visited(cls)
        vs = [s for s in vs if s not in IGNORED.get(ctor, {})]
        for s in vs:
            if s not in SLOTS[ctor]:
                raise ExtractError("%s.replace_table visits %r which is not a child slot known to the model" % (name, s))
        owner = owner_of(cls)
        import pypika.terms as T
        if (cls.replace_table is T.Term.replace_table) != (owner is T.Term):
            raise ExtractError("%s: MRO owner and `is Term.replace_table` disagree" % name)
        check_slot_list(ctor, cls)
        visited[ctor] = vs
        notes.append("%s (%s): effective method %s.replace_table" % (ctor, name, owner.__name__))
    with_ok = has_method(AliasedQuery)
    table_ok = has_method(Table)
    if with_ok or table_ok:
        raise ExtractError("AliasedQuery/Table now define replace_table: the model of QueryBuilder._with / Join.item "
                           "must be extended before the check can run")
    # dynamic cross-check
    for ctor, mod, name in CLASSES:
        for s in SLOTS[ctor]:
            got = dynamic_probe(ctor, s)
            static = s in visited[ctor]
            if ctor in ("KQuery", "KClickHouse", "KPostgres", "KMySQL") and s == "_with" and MODES.get(("QueryBuilder", "_with")) == "call":
                exp = "TypeError" if static else "kept"       # AliasedQuery has no replace_table: calling it raises
            elif ctor == "KJoin" and s == "item" and MODES.get(("Join", "item")) == "call":
                exp = "TypeError" if static else "kept"       # Table has no replace_table
            else:
                exp = "replaced" if static else "kept"
            if got != exp:
                raise ExtractError("static and dynamic analysis disagree on %s.%s: static says %s, probing gives %s"
                                   % (name, s, "visited" if static else "not visited", got))
    # a sub-query sitting in a FROM / join-item slot: entered exactly when the mode says so
    from pypika import Query, Table as _T
    import pypika.enums as E_
    from pypika.queries import Join, JoinOn, JoinUsing
    import pypika.terms as T_

    def subq():
        q = Query.from_(_T("a")).select("k")
        q.alias = "sq"
        return q
    objs = {
        ("QueryBuilder", "_from"): lambda: Query.from_(subq()).select(T_.Field("x")),   # a str would become a Field ON the sub-query
        ("Join", "item"): lambda: Join(subq(), E_.JoinType.cross),
        ("JoinOn", "item"): lambda: JoinOn(subq(), E_.JoinType.inner, T_.Field("k")),
        ("JoinUsing", "item"): lambda: JoinUsing(subq(), E_.JoinType.inner, [T_.Field("k")]),
    }
    ctor_of = {"QueryBuilder": "KQuery", "Join": "KJoin", "JoinOn": "KJoinOn", "JoinUsing": "KJoinUsing"}
    for (own, at), mk in objs.items():
        if at not in visited[ctor_of[own]]:
            continue
        mode = MODES.get((own, at))
        res = mk().replace_table(_T("a"), _T("b"))
        entered = not reach_tables(res, lambda t: t == _T("a"))
        if entered != (mode in ("call", "cmp_enter")):
            raise ExtractError("%s.%s: mode %s but a sub-query element is %s" % (own, at, mode, "entered" if entered else "kept"))
    return visited, notes


def slot_id(s):
    return "S_" + s


def render_table(visited, notes):
    out = ["(* GENERATED by harness/c15/extract.py from the pypika sources on every run. Do not edit. *)",
           "From PV Require Import Base.", ""]
    out.append("Inductive ctor := " + " | ".join(k for k, _, _ in CLASSES) + ".")
    out.append("Inductive slot := " + " | ".join(slot_id(s) for s in ALL_SLOTS) + ".")
    out.append("Definition ctor_id (k : ctor) : nat := match k with")
    for i, (k, _, _) in enumerate(CLASSES):
        out.append("  | %s => %d" % (k, i))
    out.append("  end.")
    out.append("Definition slot_id (s : slot) : nat := match s with")
    for i, s in enumerate(ALL_SLOTS):
        out.append("  | %s => %d" % (slot_id(s), i))
    out.append("  end.")
    out.append("Definition slot_eqb (a b : slot) : bool := Nat.eqb (slot_id a) (slot_id b).")
    out.append("Definition ctor_class (k : ctor) : string := match k with")
    for k, _, c in CLASSES:
        out.append('  | %s => "%s"' % (k, c))
    out.append("  end.")
    out.append("Definition slot_attr (s : slot) : string := match s with")
    for s in ALL_SLOTS:
        out.append('  | %s => "%s"' % (slot_id(s), s))
    out.append("  end.")
    out.append("(* the child slots of each class that hold tables or terms (hand-written list, checked against sample objects) *)")
    out.append("Definition child_slots (k : ctor) : list slot := match k with")
    for k, _, _ in CLASSES:
        out.append("  | %s => [%s]" % (k, "; ".join(slot_id(s) for s in SLOTS[k])))
    out.append("  end.")
    out.append("(* the slots each class's effective replace_table re-assigns from a recursive call / comparison (EXTRACTED) *)")
    out.append("Definition visited (k : ctor) : list slot := match k with")
    for k, _, _ in CLASSES:
        out.append("  | %s => [%s]" % (k, "; ".join(slot_id(s) for s in visited[k])))
    out.append("  end.")
    out.append("(* AliasedQuery / Table have no replace_table method: calling it goes through Selectable.__getattr__, "
               "yields a Field, and calling that raises TypeError *)")
    out.append("Definition with_items_replaceable : bool := false.")
    out.append("Definition table_item_replaceable : bool := false.")
    out.append("(* how QueryBuilder._with and Join.item are handled: by calling replace_table on the element itself (true), or by "
               "rebuilding AliasedQuery(name, query.replace_table(..)) / comparing the item with == (false) *)")
    out.append("Definition with_by_call : bool := %s." % ("true" if MODES.get(("QueryBuilder", "_with"), "call") == "call" else "false"))
    out.append("(* how a FROM entry / a join item is handled: MCall = item.replace_table(..) is called; MCmp = compared with ==, a "
               "sub-query is never entered; MCmpEnter = compared, otherwise entered when it is a Term (a sub-query) *)")
    out.append("Inductive srcmode := MCall | MCmp | MCmpEnter.")
    mm = {"call": "MCall", "cmp": "MCmp", "cmp_enter": "MCmpEnter"}
    fm = MODES.get(("QueryBuilder", "_from"), "cmp")
    if fm == "call":
        raise ExtractError("QueryBuilder._from handled by a method call: not a form the model knows")
    for o_ in ("JoinOn", "JoinUsing"):
        if MODES.get((o_, "item"), "cmp") == "call":
            raise ExtractError("%s.item handled by a method call: not a form the model knows" % o_)
    out.append("Definition src_mode (k : ctor) : srcmode := match k with")
    out.append("  | KQuery | KClickHouse | KPostgres | KMySQL => %s" % mm[fm])
    out.append("  | KJoin => %s" % mm[MODES.get(("Join", "item"), "cmp")])
    out.append("  | KJoinOn => %s" % mm[MODES.get(("JoinOn", "item"), "cmp")])
    out.append("  | KJoinUsing => %s" % mm[MODES.get(("JoinUsing", "item"), "cmp")])
    out.append("  | _ => MCmp")
    out.append("  end.")
    out.append("(*")
    out += ["  SHADOWED: " + n.replace("*)", "* )") for n in SHADOWED]
    out += ["  " + n for n in notes]
    out.append("*)")
    return "\n".join(out) + "\n"


def extract_c15_table():
    visited, notes = extract_table()
    notes = check_all_classes() + notes
    return render_table(visited, notes)


# ----------------------------------------------------------------------------------------------
# source-driven enumeration of every Node / Join class and the attributes its methods assign
# ----------------------------------------------------------------------------------------------
# attributes that are assigned from a non-constant expression, are not touched by the effective replace_table chain, and
# were reviewed as unable to hold a table / term:
REVIEWED_NO_TABLE = {
    ("clickhouse.array.Array", "_converter_cls"): "a class", ("clickhouse.array.Array", "_converter_options"): "dict of options",
    ("clickhouse.array.Array", "_values"): "python values, rendered with str()",
    ("clickhouse.array.HasAny", "alias"): "str", ("clickhouse.array.HasAny", "schema"): "Schema, not a Table",
    ("clickhouse.array._AbstractArrayFunction", "alias"): "str", ("clickhouse.array._AbstractArrayFunction", "name"): "str",
    ("clickhouse.array._AbstractArrayFunction", "schema"): "Schema",
    ("clickhouse.search_string._AbstractMultiSearchString", "_patterns"): "strings",
    ("clickhouse.search_string._AbstractSearchString", "_pattern"): "str",
    ("clickhouse.type_conversion.ToFixedString", "_length"): "int", ("clickhouse.type_conversion.ToFixedString", "alias"): "str",
    ("clickhouse.type_conversion.ToFixedString", "schema"): "Schema",
    ("dialects.ClickHouseQueryBuilder", "_sample"): "int", ("dialects.ClickHouseQueryBuilder", "_sample_offset"): "int",
    ("dialects.FetchNextAndOffsetRowsQueryBuilder", "_limit"): "int", ("dialects.MSSQLQueryBuilder", "_top"): "int",
    ("dialects.MySQLQueryBuilder", "_for_update_nowait"): "bool", ("dialects.MySQLQueryBuilder", "_for_update_skip_locked"): "bool",
    ("dialects.MySQLQueryBuilder", "_for_update_of"): "table NAMES (strings), not tables",
    ("dialects.MySQLQueryBuilder", "_modifiers"): "strings",
    ("dialects.PostgreSQLQueryBuilder", "_for_update_nowait"): "bool", ("dialects.PostgreSQLQueryBuilder", "_for_update_skip_locked"): "bool",
    ("dialects.PostgreSQLQueryBuilder", "_for_update_of"): "table NAMES (strings), not tables",
    ("dialects.PostgreSQLQueryBuilder", "_return_star"): "bool flag (restored together with _returns, which IS visited, by the "
                                                         "tuple assignment `self._returns, self._return_star = saved` of 6170537)",
    ("terms.ContainsCriterion", "_is_negated"): "bool flag (toggled by negate() since a8fde08: `not self._is_negated`)",
    ("terms.ExistsCriterion", "_is_negated"): "bool flag (toggled by negate() since a8fde08)",
    ("dialects.VerticaQueryBuilder", "_hint"): "str", ("functions.Cast", "as_type"): "type name", ("functions.Convert", "encoding"): "str",
    ("queries.AliasedQuery", "name"): "str", ("queries.AliasedQuery", "query"): "rebuilt by QueryBuilder._with handling",
    ("queries.Join", "how"): "enum", ("queries.JoinOn", "collate"): "str",
    ("queries.QueryBuilder", "_force_indexes"): "Index terms (names)", ("queries.QueryBuilder", "_use_indexes"): "Index terms (names)",
    ("queries.QueryBuilder", "_limit"): "int", ("queries.QueryBuilder", "_offset"): "int", ("queries.QueryBuilder", "_subquery_count"): "int",
    ("queries.QueryBuilder", "_wrapper_cls"): "a class", ("queries.QueryBuilder", "as_keyword"): "bool", ("queries.QueryBuilder", "dialect"): "enum",
    ("queries.QueryBuilder", "immutable"): "bool", ("queries.QueryBuilder", "wrap_set_operation_queries"): "bool",
    ("queries.Selectable", "alias"): "str",
    ("queries.Table", "_for"): "temporal criterion of the table itself (part of Table.__eq__)", ("queries.Table", "_for_portion"): "same",
    ("queries.Table", "_query_cls"): "a class", ("queries.Table", "_schema"): "Schema", ("queries.Table", "_table_name"): "str",
    ("queries._SetOperation", "_limit"): "int", ("queries._SetOperation", "_offset"): "int", ("queries._SetOperation", "_wrapper_cls"): "a class",
    ("terms.ArithmeticExpression", "operator"): "enum", ("terms.AtTimezone", "interval"): "bool", ("terms.AtTimezone", "zone"): "str",
    ("terms.BasicCriterion", "comparator"): "enum", ("terms.Field", "name"): "str", ("terms.Function", "name"): "str",
    ("terms.Function", "schema"): "Schema, not a Table", ("terms.Index", "name"): "str",
    ("terms.Interval", "dialect"): "enum", ("terms.Interval", "is_negative"): "bool", ("terms.Interval", "largest"): "str",
    ("terms.Interval", "quarters"): "int", ("terms.Interval", "smallest"): "str", ("terms.Interval", "weeks"): "int",
    ("terms.JSON", "value"): "python value", ("terms.ListParameter", "_parameters"): "collected values",
    ("terms.LiteralValue", "_value"): "str", ("terms.NestedCriterion", "comparator"): "enum",
    ("terms.NestedCriterion", "nested_comparator"): "enum", ("terms.Parameter", "_placeholder"): "str/int",
    ("terms.ParameterValueWrapper", "_parameter"): "Parameter", ("terms.PseudoColumn", "name"): "str", ("terms.Term", "alias"): "str",
    ("terms.WindowFrameAnalyticFunction", "bound"): "Edge objects holding numbers", ("terms.WindowFrameAnalyticFunction", "frame"): "str",
}
# attributes that CAN hold a table / term and are still not visited: the open findings
KNOWN_UNVISITED = {}


def scan_classes():
    """[(qualified class name, attr)] assigned from a non-constant expression somewhere in the defining class and not
    touched by that class's effective replace_table chain (the LAST definition in a class body counts)"""
    import importlib
    import pkgutil
    import re
    import pypika
    from pypika.terms import Node
    from pypika.queries import Join
    mods = []
    for mi in pkgutil.walk_packages(pypika.__path__, "pypika."):
        if ".tests" in mi.name:
            continue
        mods.append(importlib.import_module(mi.name))
    classes = set()
    for mo in mods:
        for o in vars(mo).values():
            if inspect.isclass(o) and o.__module__.startswith("pypika") and issubclass(o, (Node, Join)):
                classes.add(o)

    def cls_ast(c):
        tree = _module_ast(inspect.getsourcefile(c))
        for n in ast.walk(tree):
            if isinstance(n, ast.ClassDef) and n.name == c.__name__:
                return n
        return None

    def own_attrs(c):
        out = {}
        n = cls_ast(c)
        if n is None:
            return out
        for fn in n.body:
            if isinstance(fn, ast.FunctionDef) and fn.name != "replace_table":
                for st in ast.walk(fn):
                    tg, v = [], None
                    if isinstance(st, ast.Assign):
                        tg, v = st.targets, st.value
                    elif isinstance(st, ast.AugAssign):
                        tg, v = [st.target], st.value
                    for t in tg:
                        for tt in (t.elts if isinstance(t, ast.Tuple) else [t]):
                            if isinstance(tt, ast.Attribute) and isinstance(tt.value, ast.Name) and tt.value.id == "self":
                                out.setdefault(tt.attr, []).append(ast.unparse(v))
                    if (isinstance(st, ast.Call) and isinstance(st.func, ast.Attribute) and st.func.attr in ("append", "add", "extend")
                            and isinstance(st.func.value, ast.Attribute) and isinstance(st.func.value.value, ast.Name)
                            and st.func.value.value.id == "self"):
                        out.setdefault(st.func.value.attr, []).append("append " + (ast.unparse(st.args[0]) if st.args else ""))
        return out

    def touched(c):
        vis = set()
        for k in c.__mro__:
            if "replace_table" in k.__dict__:
                n = cls_ast(k)
                fn = [f for f in n.body if isinstance(f, ast.FunctionDef) and f.name == "replace_table"][-1]
                for st in ast.walk(fn):
                    if isinstance(st, ast.Assign):
                        for t in st.targets:
                            if isinstance(t, ast.Attribute) and isinstance(t.value, ast.Name):
                                vis.add(t.attr)
                    if isinstance(st, ast.Call) and isinstance(st.func, ast.Attribute) and st.func.attr in ("add", "remove") \
                            and isinstance(st.func.value, ast.Attribute):
                        vis.add(st.func.value.attr)
                if "super().replace_table" in ast.unparse(fn):
                    continue
                break
        return vis
    const = re.compile(r"^(None|True|False|\[\]|\{\}|set\(\)|\(\)|'[^']*'|\"[^\"]*\"|-?\d+(\.\d+)?|dict\(\)|list\(\)|float\(.*\)|int\(.*\)|append ''|)$")
    out = []
    for c in sorted(classes, key=lambda c: (c.__module__, c.__name__)):
        vis = touched(c)
        for a, rhs in sorted(own_attrs(c).items()):
            if a in vis or all(const.match(r) for r in rhs):
                continue
            out.append(("%s.%s" % (c.__module__.split(".", 1)[-1], c.__name__), a))
    # Node classes that have no replace_table anywhere on their MRO: as a child of a visited slot they make the parent raise
    nomethod = sorted("%s.%s" % (c.__module__.split(".", 1)[-1], c.__name__) for c in classes
                      if not any("replace_table" in k.__dict__ for k in c.__mro__))
    return out, len(classes), nomethod


# Node classes without any replace_table, reviewed: they never sit where a parent CALLS the method
REVIEWED_NO_METHOD = {
    "terms.Node": "abstract root",
    "queries.Selectable": "abstract base of Table / AliasedQuery",
    "queries.Table": "FROM entries, join items, Field.table, INSERT/UPDATE targets are compared with ==; only Terms are entered",
    "queries.AliasedQuery": "WITH entries are rebuilt from .query; as FROM / join item it is compared, not entered",
}
# ... and those that CAN be the child of a visited slot (open findings)
KNOWN_NO_METHOD = {
    "terms.Interval": "C15-interval-no-method",
}


def check_all_classes():
    """fail closed on an attribute nobody has looked at; returns the notes for the generated file"""
    cands, n, nomethod = scan_classes()
    unknown_m = [c for c in nomethod if c not in REVIEWED_NO_METHOD and c not in KNOWN_NO_METHOD]
    if unknown_m:
        raise ExtractError("Node classes without a replace_table method that were never reviewed (as an operand / argument of a "
                           "visited slot they make replace_table raise AttributeError): %s" % unknown_m)
    unknown = [c for c in cands if c not in REVIEWED_NO_TABLE and c not in KNOWN_UNVISITED]
    if unknown:
        raise ExtractError("attributes assigned by Node/Join classes that no replace_table touches and that were never reviewed: %s"
                           % unknown)
    still = [c for c in cands if c in KNOWN_UNVISITED]
    notes = ["source-driven scan: %d Node/Join classes; %d attributes are assigned from non-constant expressions and not touched by "
             "the effective replace_table; %d of them reviewed as unable to hold a table, %d still open:"
             % (n, len(cands), len(cands) - len(still), len(still))]
    notes += ["  open: %s.%s (%s)" % (c[0], c[1], KNOWN_UNVISITED[c]) for c in still]
    notes += ["Node classes without a replace_table method: %s" % ", ".join(
        "%s (%s)" % (c, "reviewed" if c in REVIEWED_NO_METHOD else "OPEN " + KNOWN_NO_METHOD[c]) for c in nomethod)]
    return notes
