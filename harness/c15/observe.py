"""C15 observation of the implementation: renderings, the slot-by-slot dump of a QueryBuilder, and the labelling of a
violation by the (class, slot) that was not visited.  Nothing here looks at the Coq model or at the extracted table."""
import copy
import linecache
import re

KW_S = dict(quote_char='"', secondary_quote_char="'")
KW_N = dict(quote_char='"', secondary_quote_char="'", with_namespace=True)
KW_D = dict(quote_char='"', secondary_quote_char="'", with_namespace=True, with_alias=True)


def safe(f):
    try:
        return f()
    except Exception as e:  # noqa
        return "!" + type(e).__name__


def term_texts(obj):
    return [safe(lambda: obj.get_sql(**KW_S)), safe(lambda: obj.get_sql(**KW_N))]


def _src(t):
    from pypika.queries import AliasedQuery
    if isinstance(t, AliasedQuery):
        return "@" + t.name
    return safe(lambda: t.get_sql(quote_char='"', secondary_quote_char="'", with_alias=True, subquery=True))


def dump_query(x):
    """every slot of a QueryBuilder, element by element, through the real get_sql of the elements"""
    T = lambda t: safe(lambda: t.get_sql(**KW_D))     # noqa: E731
    semi = ";".join

    def join(j):
        n = type(j).__name__
        if n == "JoinOn":
            return "JoinOn:%s:%s:ON %s" % (j.how.value, _src(j.item), T(j.criterion))
        if n == "JoinUsing":
            return "JoinUsing:%s:%s:USING %s" % (j.how.value, _src(j.item), ",".join(T(f) for f in j.fields))
        return "Join::%s" % _src(j.item)
    lby = vars(x).get("_limit_by")      # never getattr: Selectable.__getattr__ answers any name with a Field
    parts = [
        {"ClickHouseQueryBuilder": "CH", "PostgreSQLQueryBuilder": "PG", "MySQLQueryBuilder": "MY"}.get(type(x).__name__, "Q"),
        "FROM[" + semi(_src(t) for t in x._from) + "]",
        "INS[" + ("" if x._insert_table is None else _src(x._insert_table)) + "]",
        "UPD[" + ("" if x._update_table is None else _src(x._update_table)) + "]",
        "WITH[" + semi(a.name + "=" + safe(lambda: a.query.get_sql(**KW_S)) for a in x._with) + "]",
        "SEL[" + semi(T(t) for t in x._selects) + "]",
        "COL[" + semi(T(t) for t in x._columns) + "]",
        "VAL[" + semi("(" + ",".join(T(v) for v in row) + ")" for row in x._values) + "]",
        "WHERE[" + ("" if x._wheres is None else T(x._wheres)) + "]",
        "PRE[" + ("" if x._prewheres is None else T(x._prewheres)) + "]",
        "GRP[" + semi(T(t) for t in x._groupbys) + "]",
        "HAV[" + ("" if x._havings is None else T(x._havings)) + "]",
        "ORD[" + semi(T(t) + ("" if d is None else " " + d.value) for t, d in x._orderbys) + "]",
        "JOIN[" + semi(join(j) for j in x._joins) + "]",
        "SET[" + semi(T(f) + "=" + T(v) for f, v in x._updates) + "]",
        "LBY[" + semi(T(t) for t in (lby[2] if lby else [])) + "]",
        "DON[" + semi(T(t) for t in vars(x).get("_distinct_on", [])) + "]",
        "RET[" + semi(T(t) for t in vars(x).get("_returns", [])) + "]",
        "USING[" + semi(_src(t) for t in x._using) + "]",
        "DUP[" + semi(T(f) + "=" + T(v) for f, v in vars(x).get("_duplicate_updates", [])) + "]",
    ]
    return " ".join(parts)


def star_names(x):
    return sorted(_src(t) for t in x._select_star_tables)


# ----------------------------------------------------------------------------------------------
# object-graph walk with paths
# ----------------------------------------------------------------------------------------------
SKIP_ATTRS = {"_query_cls", "_wrapper_cls", "QUERY_CLS"}


def walk_tables(obj, path=(), seen=None, out=None, depth=0):
    """[(path, table)] for every Table reachable; path = tuple of ('attr', owner class, name) / ('idx', i) / ('elt',)"""
    from pypika.queries import Table
    seen = seen if seen is not None else set()
    out = out if out is not None else []
    if depth > 80:
        return out
    if isinstance(obj, Table):
        out.append((path, obj))
        # the temporal clauses of a table are not part of the model; do not descend
        return out
    if isinstance(obj, (str, bytes, int, float, bool, type(None), type)):
        return out
    if isinstance(obj, (list, tuple)):
        for i, x in enumerate(obj):
            walk_tables(x, path + (("idx", i),), seen, out, depth + 1)
        return out
    if isinstance(obj, (set, frozenset)):
        for x in sorted(obj, key=lambda t: str(t)):
            walk_tables(x, path + (("elt", str(x)),), seen, out, depth + 1)
        return out
    if isinstance(obj, dict):
        for k_, x in obj.items():
            walk_tables(x, path + (("idx", k_),), seen, out, depth + 1)
        return out
    d = getattr(obj, "__dict__", None)
    if isinstance(d, dict):
        if id(obj) in seen:
            return out
        seen.add(id(obj))
        for k_, v in d.items():
            if k_ in SKIP_ATTRS:
                continue
            walk_tables(v, path + (("attr", type(obj).__name__, k_),), seen, out, depth + 1)
        seen.discard(id(obj))
    return out


def get_at(obj, path):
    for st in path:
        if st[0] == "attr":
            obj = vars(obj)[st[2]]
        elif st[0] == "idx":
            obj = obj[st[1]]
        else:  # set element, identified by its text
            obj = [x for x in obj if str(x) == st[1]][0]
    return obj


def set_at(container, steps, value):
    """rebuild a nested list/tuple/set value with `value` at the index path `steps`"""
    if not steps:
        return value
    st = steps[0]
    if st[0] == "idx":
        items = list(container)
        items[st[1]] = set_at(items[st[1]], steps[1:], value)
        return tuple(items) if isinstance(container, tuple) else items
    items = [x for x in container if str(x) != st[1]] + [value]
    return set(items)


def edges(path):
    """split a path into edges: [(prefix path to the owner object, (cls, attr), index steps below the attribute)]"""
    out = []
    i = 0
    while i < len(path):
        st = path[i]
        assert st[0] == "attr"
        j = i + 1
        while j < len(path) and path[j][0] != "attr":
            j += 1
        out.append((path[:i], (st[1], st[2]), path[i + 1:j]))
        i = j
    return out


def owner_class(owner, attr):
    """dialect builders share the base class's slots: name the class that owns the attribute"""
    from pypika.queries import QueryBuilder
    if isinstance(owner, QueryBuilder) and type(owner) is not QueryBuilder and attr in vars(QueryBuilder()):
        return "QueryBuilder"
    return type(owner).__name__


def slot_name(cls, attr, steps):
    if attr == "_cases" and len(steps) >= 2:
        return attr + ("_crit" if steps[1][1] == 0 else "_term")
    return attr


def edge_visited(owner, attr, steps, A, B, keep_kind=True):
    """Does owner.replace_table(A, B) replace a table A sitting at (attr, steps)?  Tested on a shallow copy of the owner
    whose child at that position is a probe: a fresh equal copy of A (if the child is a table) or a field on it."""
    from pypika.queries import Table
    import pypika.terms as T
    cur = vars(owner)[attr]
    child = get_at(cur, steps)
    from pypika.queries import QueryBuilder, Query
    probe_tbl = copy.copy(A)
    if isinstance(child, Table):
        probe = probe_tbl
    elif isinstance(child, QueryBuilder) and keep_kind:   # keep the kind of child: slots that compare with == treat it differently
        probe = Query.from_(probe_tbl).select(T.Field("probe", table=probe_tbl))
        probe.alias = child.alias
    else:
        probe = T.Field("probe", table=probe_tbl)
    o2 = copy.copy(owner)
    o2.__dict__[attr] = set_at(cur, steps, probe)
    try:
        r = o2.replace_table(A, B)
    except Exception as e:  # noqa
        return "raises:" + type(e).__name__
    if r is None:
        return "none"
    try:
        got = get_at(vars(r)[attr], steps if not (steps and steps[-1][0] == "elt") else steps[:-1])
    except Exception:  # noqa
        return "lost"
    tabs = [t for _, t in walk_tables(got)]
    return "visited" if not any(t == A for t in tabs) else "unvisited"


def locate_exception(e):
    """(class, attribute) of the replace_table frame that raised, read off the traceback"""
    tb = e.__traceback__
    last = None
    while tb is not None:
        if tb.tb_frame.f_code.co_name == "replace_table" and "self" in tb.tb_frame.f_locals:
            last = tb
        tb = tb.tb_next
    if last is None:
        return ("?", "?")
    fr = last.tb_frame
    cls = fr.f_code.co_qualname.split(".")[0]      # the class that defines the raising method
    line = linecache.getline(fr.f_code.co_filename, last.tb_lineno)
    m = re.search(r"self\.(\w+)", line)
    return (cls, m.group(1) if m else "?")


def label_difference(objA, res, objB, A, B):
    """signature tail for `res` (= objA.replace_table(A, B)) rendering differently from objB (built with B)"""
    tr = walk_tables(res)
    tb = dict((p, t) for p, t in walk_tables(objB))
    survivors = [(p, t) for p, t in tr if t == A and p in tb and not (tb[p] == A)]
    survivors.sort(key=lambda pt: (len(pt[0]), str(pt[0])))
    for p, t in survivors:
        es = edges(p)
        # the leaf edge first: if the object that holds the table directly does not replace it, no parent is to blame
        order = [es[-1]] + es[:-1] if len(es) > 1 else es
        for prefix, (cls, attr), steps in order:
            try:
                owner = get_at(objA, prefix)
            except Exception:  # noqa
                break
            cls = owner_class(owner, attr)
            if not hasattr(owner, "replace_table") or not callable(getattr(type(owner), "replace_table", None)):
                return [cls, slot_name(cls, attr, steps), "no-method"]
            v = edge_visited(owner, attr, steps, A, B)
            if v != "visited":
                child = get_at(vars(owner)[attr], steps)
                # a slot that handles tables / terms but not a sub-query sitting in it is labelled separately
                kind = []
                if type(child).__name__.endswith("QueryBuilder") and edge_visited(owner, attr, steps, A, B, False) == "visited":
                    kind = ["subquery"]
                return [cls, slot_name(cls, attr, steps)] + kind + ([] if v == "unvisited" else [v])
        return ["survivor-behind-visited-slots", p[-1][1] if p[-1][0] == "attr" else "?", str(p[-1][-1])]
    others = [(p, t) for p, t in tr if p in tb and not (t == tb[p])]
    if others:
        p, t = others[0]
        last = [st for st in p if st[0] == "attr"][-1]
        return ["other-table-changed", last[1], last[2]]
    return ["render-differs"]


def builder_flags(obj, seen=None, out=None, depth=0):
    """the with_namespace decisions the builders took while the object was built (_foreign_table of every QueryBuilder
    reachable, in walk order).  They are computed from a set of Fields whose __eq__/__hash__ collapse same-named columns of
    different tables, so they can differ between 'built with A' and 'built with B' for reasons unrelated to replace_table."""
    from pypika.queries import QueryBuilder, Table
    seen = seen if seen is not None else set()
    out = out if out is not None else []
    if depth > 80 or isinstance(obj, (str, bytes, int, float, bool, type(None), type, Table)):
        return out
    if isinstance(obj, (list, tuple)):
        for x in obj:
            builder_flags(x, seen, out, depth + 1)
        return out
    if isinstance(obj, (set, frozenset, dict)):
        return out
    d = getattr(obj, "__dict__", None)
    if isinstance(d, dict) and id(obj) not in seen:
        seen.add(id(obj))
        if isinstance(obj, QueryBuilder):
            out.append(bool(d.get("_foreign_table")))
        for k_, v in d.items():
            if k_ not in SKIP_ATTRS:
                builder_flags(v, seen, out, depth + 1)
    return out
