"""Extractors shared by several property plugins (a plugin lists them in SHARED_EXTRACT)."""


def _terms():
    from harness.terms_extract import extract_terms_table
    return {"gen/TermsTable.v": extract_terms_table()}


def _query():
    from harness.query_extract import extract_query_table
    return {"gen/QueryTable.v": extract_query_table()}


SHARED = {"terms": (_terms, ["gen/TermsTable.v"]), "query": (_query, ["gen/QueryTable.v"])}
