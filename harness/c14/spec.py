"""C14 oracle — the documented guard table re-implemented over the harness's plain-data description of a
history (no pypika objects, no Coq model).  For each call: predict() says which documented rejection
applies (guard id, exception class) or None; apply() records an accepted call in the description.

Written from the docstrings / error messages / property text:
  * a guard fires in its documented situation, whatever else is in the history;
  * table-less fields name no table; a field is "foreign" only if its table is none of the documented sources.
Where pypika deviates the oracle reports it; the deviations that are known are listed in findings.d/C14.json.
"""

from .crit import as_tree, walk

JE, QE, AE, RE, SE, CE, FE, TE = ("JoinException", "QueryException", "AttributeError", "RollupException",
                                  "SetOperationException", "CaseException", "FunctionException", "TypeError")

# guards by call kind: used to name the guard of an unexpected (spurious) exception
CALL_GUARDS = {
    "into": [("into_once", AE)], "update": [("update_once", AE)], "delete": [("delete_once", AE)],
    "columns": [("insert_requires_into", AE)], "insert": [("insert_requires_into", AE)],
    "select": [("select_str_no_from", QE)],
    "rollup": [("rollup_mysql_once", AE), ("rollup_mysql_empty", RE)],
    "join": [("join_foreign_table", JE)],
    "on_dup_update": [("mysql_update_after_ignore", QE)], "on_dup_ignore": [("mysql_ignore_after_update", QE)],
    "on_conflict": [("pg_on_conflict_non_insert", QE)], "do_nothing": [("pg_do_nothing_after_update", QE)],
    "do_update": [("pg_do_update_after_nothing", QE)], "where": [("pg_do_nothing_where", QE)],
    "returning": [("pg_returning", QE)], "top": [("mssql_top_int", QE)],
    "render": [("join_unknown_with_query", JE), ("pg_conflict_no_handler", QE)],
    "create_table": [("create_table_once", AE)], "primary_key": [("primary_key_once", AE)],
    "foreign_key": [("foreign_key_once", AE)], "as_select": [("as_select_after_columns", AE), ("as_select_type", TE)],
    "unlogged": [("vertica_unlogged", AE)], "local": [("vertica_local_requires_temporary", AE)], "preserve_rows": [("vertica_preserve_rows_requires_temporary", AE)],
    "drop": [("drop_target_once", AE)], "on_cluster": [("on_cluster_once", AE)],
    "for": [("table_for_once", AE)], "for_portion": [("table_for_once", AE)],
    "rows": [("window_frame_once", AE)], "range": [("window_frame_once", AE)],
    "call": [("custom_function_arity", FE)], "add": [("set_operation_arity", SE)],
}
CALL_GUARDS_C = dict(CALL_GUARDS, columns=[("columns_after_as_select", AE)], render=[("case_without_when", CE)])
CALL_GUARDS_S = dict(CALL_GUARDS, render=[("set_operation_arity", SE)])


def guard_of(kind, call, exc):
    tbl = CALL_GUARDS_C if kind in ("c", "k") else (CALL_GUARDS_S if kind == "s" else CALL_GUARDS)
    gs = tbl.get(call[0], [])
    for g, k in gs:
        if k == exc:
            return g
    return gs[0][0] if gs else call[0]


def T(t):
    return None if t is None else tuple(t)


# ---------------------------------------------------------------------------------------------
class QSpec:
    """description of a QueryBuilder history"""

    def __init__(self, cls):
        self.cls = cls
        self.pg = cls == "PostgreSQLQuery"
        self.my = cls == "MySQLQuery"
        self.ms = cls == "MSSQLQuery"
        self.frm, self.withs, self.joins = [], [], []      # joins: (item, criterion tables or None, WITH references)
        self.values = self.assigned = False
        self.subcount = 0             # sub-queries the statement has named itself: sq0, sq1, ...
        self.insert = self.update = None
        self.delete = False
        self.nsel, self.star = 0, False
        self.grouped = self.mysql_rollup = False
        self.dups, self.ignore = 0, False
        self.conflict, self.cfields, self.nothing, self.cupdates, self.rstar = False, 0, False, 0, False

    # -- which calls are outside the documented contract altogether (Python-level crashes, other dialect) --
    def in_contract(self, c):
        k = c[0]
        if k in ("on_dup_update", "on_dup_ignore") and not self.my:
            return False
        if k in ("on_conflict", "do_nothing", "do_update", "returning") and not self.pg:
            return False
        if k == "top" and not self.ms:
            return False
        if k == "join" and c[2][0] == "on_field" and c[2][1] and not self.frm:
            return False            # reads _from[0]
        if k == "returning":
            terms = c[1]
            if self.insert is not None and self.update is not None:
                return False        # a statement with both an INSERT and an UPDATE target is no statement
            if any(t[0] == "str" for t in terms) and not (self.insert or self.update) and self.delete and not self.frm:
                return False
        return True

    # -- an un-aliased sub-query is named sq<n> by the statement that selects from / joins it --
    def _tagged(self, t):
        if t is not None and t[0] == "sub" and t[1] is None:
            return ["sub", "sq%d" % self.subcount, t[2], t[3]]
        return t

    def _see(self, item, ref):
        """a field built from the very object being joined sees the name it has just been given"""
        if ref is not None and ref[0] == "sub" and ref[1] is None and T(ref) == T(item):
            return self._tagged(item)
        return ref

    # -- sources a join criterion may name --
    def _sources(self, item):
        s = [T(item)] + [T(t) for t in self.frm] + [T(t) for t in self.withs] + [T(j[0]) for j in self.joins]
        if self.update is not None:
            s.append(T(self.update))
        return s

    def predict(self, c):
        k = c[0]
        if k == "into" and self.insert is not None:
            return "into_once", AE
        if k == "update" and (self.update is not None or self.nsel > 0 or self.delete):
            return "update_once", AE
        if k == "delete" and (self.delete or self.nsel > 0 or self.update is not None):
            return "delete_once", AE
        if k in ("columns", "insert") and self.insert is None:
            return "insert_requires_into", AE
        if k == "select" and not self.frm and any(t[0] in ("str", "star") for t in c[1]):
            return "select_str_no_from", QE
        if k == "rollup":
            if self.mysql_rollup:
                return "rollup_mysql_once", AE
            if c[1] and c[2] == 0 and not self.grouped:
                return "rollup_mysql_empty", RE
        if k == "join":
            item, h = c[1], c[2]
            if h[0] == "on" and h[1] is None:
                return "join_on_none", JE
            tree = as_tree(h)
            if h[0] == "on_field" and not h[1]:
                return "join_on_field_none", JE
            if h[0] == "using" and not h[1]:
                return "join_using_none", JE
            if tree is not None:
                src = self._sources(self._tagged(item))
                # every field of the criterion, whatever operand of whatever term class it sits in
                for tr, _, _ in walk(tree):
                    tref = self._see(item, tr)
                    # a reference to a WITH query is judged when the statement is rendered (with_() may follow)
                    if tref is not None and tref[0] != "alq" and T(tref) not in src:
                        return "join_foreign_table", JE
        if k == "on_dup_update" and self.ignore:
            return "mysql_update_after_ignore", QE
        if k == "on_dup_ignore" and self.dups > 0:
            return "mysql_ignore_after_update", QE
        if k == "on_conflict" and self.insert is None:
            return "pg_on_conflict_non_insert", QE
        if k == "do_nothing" and self.cupdates > 0:
            return "pg_do_nothing_after_update", QE
        if k == "do_update":
            if self.nothing:
                return "pg_do_update_after_nothing", QE
            if c[1] == "other":
                return "pg_do_update_field_type", QE
        if k == "where" and self.conflict and not c[1]:
            if self.nothing:
                return "pg_do_nothing_where", QE
            if self.cfields == 0:
                return "pg_fieldless_where", QE
        if k == "render" and self.is_statement():
            known = [T(t) for t in self.withs] + [T(t) for t in self.frm] + [T(j[0]) for j in self.joins]
            for j in self.joins:
                if any(T(a) not in known for a in j[2]):
                    return "join_unknown_with_query", JE
        if k == "render" and self.pg:
            if self.cfields > 0 and not self.nothing and self.cupdates == 0:
                return "pg_conflict_no_handler", QE
            if self.cfields == 0 and self.cupdates > 0:
                return "pg_fieldless_do_update", QE
        if k == "returning":
            if c[1] and not self.is_dml():
                return "pg_returning", QE         # "Returning can't be used in this query"
            for t in self._effective(c[1]):
                if self._ret_bad(t):
                    return "pg_returning", QE
        if k == "top":
            v = c[1]
            if v[0] not in ("int", "strint", "bool"):
                return "mssql_top_int", QE
            if c[2] and not (0 <= int(v[1]) <= 100):
                return "mssql_top_percent", QE
        return None

    def _effective(self, terms):
        star, out = self.rstar, []
        for t in terms:
            if t[0] == "star":
                star = True
                out.append(t)
            elif t[0] in ("str", "field"):
                if not star:
                    out.append(t)
            else:
                out.append(t)
        return out

    def is_statement(self):
        """str() of an incomplete statement is the empty string: nothing is rendered, nothing is checked"""
        if not (self.nsel > 0 or self.insert is not None or self.delete or self.update is not None):
            return False
        if self.insert is not None and not (self.nsel > 0 or self.values):
            return False
        if self.update is not None and not self.assigned:
            return False
        return True

    def is_dml(self):
        return self.insert is not None or self.update is not None or self.delete

    def _own(self, tref):
        if tref is None:
            return True
        t = T(tref)
        if self.insert is not None and t == T(self.insert):
            return True
        if self.update is not None and t == T(self.update):
            return True
        if t in [T(x) for x in self.frm]:
            return True
        for j in self.joins:
            # a joined table (ON, USING or CROSS join) and the tables its criterion names
            if j[0][0] == "tab" and t == T(j[0]):
                return True
            if j[1] and t in [T(x) for x in j[1]]:
                return True
        return False

    def _ret_bad(self, t):
        if t[0] in ("fn", "arith") and aggregate(t) is True:
            return True
        return any(not self._own(f) for f in rfields(t))

    # -- an accepted call --
    def apply(self, c):
        k = c[0]
        if k == "from":
            if c[1][0] == "sub" and c[1][1] is None:
                self.frm.append(self._tagged(c[1]))
                self.subcount += 1
            else:
                self.frm.append(c[1])
        elif k == "with":
            self.withs.append(["alq", c[1]])
        elif k == "into":
            self.insert = c[1]
        elif k == "update":
            self.update = c[1]
        elif k == "delete":
            self.delete = True
        elif k == "select":
            for t in c[1]:
                if t[0] == "star":
                    self.nsel, self.star = 1, True
                elif t[0] in ("str", "field"):
                    if not self.star:
                        self.nsel += 1
                else:
                    self.nsel += 1
        elif k == "insert":
            self.values = self.values or len(c[1]) > 0
        elif k == "set":
            self.assigned = True
        elif k == "groupby":
            self.grouped = self.grouped or c[1] > 0
        elif k == "rollup":
            if c[1]:
                self.mysql_rollup = True
                self.grouped = self.grouped or c[2] > 0
            else:
                self.grouped = True
        elif k == "join":
            raw, h = c[1], c[2]
            item = list(self._tagged(raw))
            tree = as_tree(h)
            fields = None if tree is None else [[self._see(raw, tr), n_, hid] for tr, n_, hid in walk(tree)]
            if raw[0] == "sub" and raw[1] is None:
                self.subcount += 1
            base = [T(t) for t in self.frm] + [T(t) for t in self.withs] + ([T(self.update)] if self.update is not None else [])
            if item[0] == "tab" and item[3] is None and T(item) in base:
                # documented: joining a base table again without alias gets the first free name "<name>2", "<name>3", ...
                names = {(t[3] or t[1]) if t[0] == "tab" else t[1]
                         for t in list(self.frm) + ([self.update] if self.update is not None else [])   # not the WITH queries
                         + [j[0] for j in self.joins]}
                n = 2
                while "%s%d" % (item[1], n) in names:
                    n += 1
                item[3] = "%s%d" % (item[1], n)
            if fields is not None:
                refs = [(tr, hid) for tr, _, hid in fields if tr is not None]
            elif h[0] == "on_field":
                refs = [(self.frm[0], False), (item, False)]
            else:
                refs = None
            # criterion tables as the RETURNING guard reads them (criterion.tables_); the WITH references: all of them,
            # and those inside operands nodes_ does not visit (only to name the known deviation)
            crit = None if refs is None else [t for t, hid in refs if t[0] == "tab" and not hid]
            alqs = [] if refs is None else [t for t, _ in refs if t[0] == "alq"]
            hidden_alqs = [] if refs is None else [t for t, hid in refs if t[0] == "alq" and hid]
            self.joins.append((item, crit, alqs, hidden_alqs))
        elif k == "on_dup_update":
            self.dups += 1
        elif k == "on_dup_ignore":
            self.ignore = True
        elif k == "on_conflict":
            self.conflict = True
            self.cfields += len(c[1])
        elif k == "do_nothing":
            self.nothing = True
        elif k == "do_update":
            self.cupdates += 1
        elif k == "returning":
            if any(t[0] == "star" for t in c[1]):
                self.rstar = True


def rfields(t):
    k = t[0]
    if k == "field":
        return [t[1]]
    if k == "fn":
        return [f for a in t[2] for f in rfields(a)]
    if k == "arith":
        return rfields(t[1]) + rfields(t[2])
    return []


def rfields_named(t):
    k = t[0]
    if k == "field":
        return [[t[1], t[2]]]
    if k == "fn":
        return [f for a in t[2] for f in rfields_named(a)]
    if k == "arith":
        return rfields_named(t[1]) + rfields_named(t[2])
    return []


def key_collision(fields):
    """two fields of different tables that render the same "<table alias or name>.<column>" text"""
    def key(f):
        t, n = f
        if t is None:
            return n
        return "%s.%s" % ((t[3] or t[1]) if t[0] == "tab" else t[1], n)
    seen = {}
    for f in fields:
        k = key(f)
        if k in seen and seen[k] != T(f[0]):
            return True
        seen.setdefault(k, T(f[0]))
    return False


def aggregate(t):
    """documented voting rule: True when every voting part is aggregate, None when nothing votes, else False"""
    k = t[0]
    if k == "field":
        return False
    if k == "fn":
        if t[1] == "agg":
            return True
        if t[1] == "analytic":
            return False
        votes = [aggregate(a) for a in t[2]]
    elif k == "arith":
        votes = [aggregate(t[1]), aggregate(t[2])]
    elif k == "leaf":
        # literals of the statement vote "not an aggregate"; values, parameters and interval literals abstain
        return False if t[1] in ("null", "literal", "systime") else None
    else:
        return None
    votes = [v for v in votes if v is not None]
    if not votes:
        return None
    return all(votes)


def resolve_spec(values):
    votes = [v for v in values if v is not None]
    if not votes:
        return None
    return False not in votes


# ---------------------------------------------------------------------------------------------
class CSpec:
    def __init__(self, builder, raw):
        self.vertica = builder == "VerticaCreateQueryBuilder"
        self.table = not raw
        self.temporary = self.as_select = False
        self.ncols = 0
        self.pk = self.fk = None      # None or number of columns given

    def in_contract(self, c):
        return self.vertica or c[0] not in ("local", "preserve_rows")   # unlogged exists on every CREATE builder

    def predict(self, c):
        k = c[0]
        if k == "create_table" and self.table:
            return "create_table_once", AE
        if k == "columns" and self.as_select:
            return "columns_after_as_select", AE
        if k == "as_select":
            if self.ncols > 0:
                return "as_select_after_columns", AE
            if not c[1]:
                return "as_select_type", TE
        if k == "primary_key" and self.pk is not None:
            return "primary_key_once", AE
        if k == "foreign_key" and self.fk is not None:
            return "foreign_key_once", AE
        if k == "unlogged" and self.vertica:
            return "vertica_unlogged", AE       # Vertica has no UNLOGGED tables
        if k == "local" and not self.temporary:
            return "vertica_local_requires_temporary", AE
        if k == "preserve_rows" and not self.temporary:
            return "vertica_preserve_rows_requires_temporary", AE
        return None

    def apply(self, c):
        k = c[0]
        if k == "create_table":
            self.table = True
        elif k == "temporary":
            self.temporary = True
        elif k == "columns":
            self.ncols += c[1]
        elif k == "primary_key":
            self.pk = c[1]
        elif k == "foreign_key":
            self.fk = c[1]
        elif k == "as_select":
            self.as_select = True


class DSpec:
    def __init__(self, builder):
        self.click = builder == "ClickHouseDropQueryBuilder"
        self.target = self.cluster = None     # None or the name given

    def in_contract(self, c):
        if c[0] == "on_cluster" or (c[0] == "drop" and c[1] in ("dictionary", "quota")):
            return self.click
        return True

    def predict(self, c):
        if c[0] == "drop" and self.target is not None:
            return "drop_target_once", AE
        if c[0] == "on_cluster" and self.cluster is not None:
            return "on_cluster_once", AE
        return None

    def apply(self, c):
        if c[0] == "drop":
            self.target = (c[1], c[2])
        elif c[0] == "on_cluster":
            self.cluster = c[1]


class TSpec:
    def __init__(self):
        self.temporal = False

    def in_contract(self, c):
        return True

    def predict(self, c):
        if c[0] in ("for", "for_portion") and self.temporal:
            return "table_for_once", AE
        return None

    def apply(self, c):
        if c[0] in ("for", "for_portion"):
            self.temporal = True


class WSpec:
    def __init__(self):
        self.framed = False

    def in_contract(self, c):
        return True

    def predict(self, c):
        if c[0] in ("rows", "range") and self.framed:
            return "window_frame_once", AE
        return None

    def apply(self, c):
        if c[0] in ("rows", "range"):
            self.framed = True


class KSpec:
    def __init__(self):
        self.whens = 0

    def in_contract(self, c):
        return True

    def predict(self, c):
        if c[0] == "render" and self.whens == 0:
            return "case_without_when", CE
        return None

    def apply(self, c):
        if c[0] == "when":
            self.whens += 1


class FSpec:
    def __init__(self, params):
        self.params = params

    def in_contract(self, c):
        return True

    def predict(self, c):
        if self.params is not None and c[1] != self.params:
            return "custom_function_arity", FE
        return None

    def apply(self, c):
        pass


def operand_arity(o):
    return o if isinstance(o, int) else o[1]


def chain_mismatch(base, operands):
    """documented: every query of a set operation selects the same number of terms -- at any depth"""
    for o in operands:
        if operand_arity(o) != base:
            return True
        if not isinstance(o, int) and chain_mismatch(o[1], [sub for _, sub in o[2]]):
            return True
    return False


class SSpec:
    def __init__(self, base):
        self.base, self.ops = base, []

    def in_contract(self, c):
        return True

    def predict(self, c):
        if c[0] == "render" and chain_mismatch(self.base, self.ops):
            return "set_operation_arity", SE
        return None

    def apply(self, c):
        if c[0] == "add":
            self.ops.append(c[2])


def make_spec(case):
    k = case["kind"]
    if k == "q":
        return QSpec(case["cls"])
    if k == "c":
        return CSpec(case["builder"], case.get("raw"))
    if k == "d":
        return DSpec(case["builder"])
    if k == "t":
        return TSpec()
    if k == "w":
        return WSpec()
    if k == "k":
        return KSpec()
    if k == "f":
        return FSpec(case["params"])
    if k == "s":
        return SSpec(case["base"])
    raise ValueError(k)


# ---------------------------------------------------------------------------------------------
def detail(case, spec, call, verdict, pred, actual):
    """a stable tag saying in which documented-vs-actual situation a deviation was seen (so that a different
    deviation of the same guard is not hidden by a known one)"""
    k = call[0]
    if verdict == "state-changed":
        if case.get("mutable"):
            if k == "top" and call[2] and call[1][0] in ("int", "strint", "bool", "float"):
                return "mutable-top-value-stored-before-percent-check"
            if k in ("select", "returning") and len(call[1]) > 1:
                # the terms before the rejected one were already applied to the in-place builder
                return "mutable-earlier-terms-applied"
            return "mutable"
        return "immutable"
    if k == "join" and verdict == "spurious":
        tree = as_tree(call[2])
        refs = [tr for tr, _, _ in walk(tree)] if tree is not None else []
        if spec.update is not None and any(r is None for r in refs):
            return "tableless-field-on-update"
        return "other"
    if k == "render" and verdict == "missed" and pred and pred[0] == "join_unknown_with_query":
        known = [T(t) for t in spec.withs] + [T(t) for t in spec.frm] + [T(j[0]) for j in spec.joins]
        unknown = [a for j in spec.joins for a in j[2] if T(a) not in known]
        hidden = [a for j in spec.joins for a in j[3] if T(a) not in known]
        return "operand-invisible-to-nodes" if unknown and len(unknown) == len(hidden) else "other"
    if k == "join" and verdict == "missed" and as_tree(call[2]) is not None:
        walked = [[spec._see(call[1], tr), n_, hid] for tr, n_, hid in walk(as_tree(call[2]))]
        flds = [[tr, n_] for tr, n_, _ in walked]
        src = spec._sources(spec._tagged(call[1]))
        foreign = [(tr, hid) for tr, _, hid in walked if tr is not None and tr[0] != "alq" and T(tr) not in src]
        if foreign and all(hid for _, hid in foreign):
            # every foreign table is named inside an operand nodes_ does not visit (-x, AT TIME ZONE, OVER(), FILTER())
            return "operand-invisible-to-nodes"
        for tr, _ in flds:
            # a sub-query that is no source but has the alias and the FROM table of one that is
            if tr is not None and tr[0] == "sub" and T(tr) not in src and any(
                    u[0] == "sub" and u[1] == tr[1] and u[2] == tr[2] for u in src):
                return "subquery-same-alias-same-from"
        return "same-column-key-shadowing" if key_collision(flds) else "other"
    if k in ("primary_key", "foreign_key") and verdict == "missed":
        prev = spec.pk if k == "primary_key" else spec.fk
        return "after-empty-column-list" if prev == 0 else "other"
    if k == "drop" and verdict == "missed":
        return "after-empty-name" if (spec.target[1] == "" and spec.target[0] not in ("table", "database")) else "other"
    if k == "on_cluster" and verdict == "missed":
        return "after-empty-name" if spec.cluster == "" else "other"
    if k == "returning" and verdict in ("spurious", "wrong-class") and actual == "AttributeError" and any(j[1] is None for j in spec.joins):
        return "join-without-criterion"      # j.criterion read on a USING / CROSS join
    if k == "returning":
        eff = spec._effective(call[1])
        if verdict == "missed":
            if not spec.is_dml() and not any(t[0] == "str" or rfields(t) for t in eff):
                return "non-dml-fieldless-terms"
            if spec.is_dml() and any(key_collision(rfields_named(t)) for t in eff):
                return "same-column-key-shadowing"
            return "other"
        if verdict == "spurious":
            for t in eff:
                tabs = {T(f) for f in rfields(t) if f is not None}
                if len(tabs) > 1:
                    return "term-mixing-tables"
            return "other"
    if k == "top":
        if verdict == "missed" and call[1][0] == "float":
            return "float-truncated"
        if verdict == "wrong-class" and call[1][0] == "none" and actual == "TypeError":
            return "none-typeerror"
        return "other"
    return "-"


def judge(case, outcome):
    """compare the implementation's per-call results with the documented guard table"""
    viols = []
    if case["kind"] == "r":
        exp = resolve_spec(case["values"])
        if outcome.get("value") != exp:
            viols.append({"signature": ["C14", "resolve_is_aggregate", "wrong-value", "-"],
                          "what": "resolve_is_aggregate(%r) = %r, documented voting rule gives %r" % (case["values"], outcome.get("value"), exp)})
        return viols
    spec = make_spec(case)
    results = outcome.get("results", [])
    changed = {}
    for ch in outcome.get("changed", []):
        changed.setdefault(ch[0], []).append(ch)
    for i, call in enumerate(case["calls"]):
        if i >= len(results):
            break
        actual = results[i]
        if call[0] == "noise":
            if actual is not None:
                viols.append({"signature": ["C14", "harness", "noise-call-raised", call[1]],
                              "what": "guard-irrelevant call %r raised %s" % (call, actual)})
            continue
        ok = spec.in_contract(call)
        pred = spec.predict(call) if ok else None
        gid = pred[0] if pred else guard_of(case["kind"], call, actual)
        if call[0] == "top" and actual is not None and len(call) > 2 and call[2] and call[1][0] != "strbad":
            gid_state = "mssql_top_percent"
        else:
            gid_state = gid
        if ok:
            verdict = None
            if pred and actual is None:
                verdict = "missed"
            elif pred is None and actual is not None:
                verdict = "spurious"
            elif pred and actual != pred[1]:
                verdict = "wrong-class"
            if verdict:
                viols.append({"signature": ["C14", gid, verdict, detail(case, spec, call, verdict, pred, actual)],
                              "what": "call #%d %r in %s: documented %s, pypika %s" % (
                                  i, call, _descr(case), ("raise " + pred[1] + " (" + pred[0] + ")") if pred else "accept",
                                  ("raised " + actual) if actual else "accepted")})
        if actual is not None and i in changed:
            ch = changed[i][0]
            viols.append({"signature": ["C14", gid_state, "state-changed", detail(case, spec, call, "state-changed", pred, actual)],
                          "what": "after the rejected call #%d %r (%s) in %s the live object %s renders %r, before %r" % (
                              i, call, actual, _descr(case), ch[1], ch[3], ch[2])})
        if actual is None:
            spec.apply(call)
    return viols


def _descr(case):
    return "%s%s" % (case.get("cls") or case.get("builder") or case["kind"], " (immutable=False)" if case.get("mutable") else "")
