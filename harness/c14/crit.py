"""C14 — join criteria as plain-data trees (one node kind per operand structure of pypika's term classes).

  ["f", tref, name]  field            ["c"]  constant
  ["cmp"|"and"|"or"|"arith"|"bitand", l, r]
  ["between"|"slice"|"period", t, lo, hi]
  ["in", t, [items]]   ["isnull"|"notnull"|"not", t]   ["fn", [args]]   ["case", [[when, then], ...], else|None]
  ["neg", t]  -t     ["attz", t]  t AT TIME ZONE     ["over", [arg], [partition...], [orderby...]]     ["filter", [arg], criterion]
The legacy form ["on", [[l, r], ...]] (pairs of [tref, name]) is (l1 == r1) & (l2 == r2) & ..."""


def as_tree(h):
    """the criterion of a join call's how-part h = ["on", pairs | None] / ["onx", tree]"""
    if h[0] == "onx":
        return h[1]
    if h[0] == "on":
        if h[1] is None:
            return None
        t = None
        for l, r in h[1]:
            c = ["cmp", ["f", l[0], l[1]], ["f", r[0], r[1]]]
            t = c if t is None else ["and", t, c]
        return t
    return None


def walk(t, hidden=False):
    """every field of the criterion: [tref, name, sits-in-an-operand-nodes_-does-not-visit (never, since d11365b)]"""
    k = t[0]
    if k == "f":
        return [[t[1], t[2], hidden]]
    if k == "c":
        return []
    if k in ("cmp", "and", "or", "arith", "bitand"):
        return walk(t[1], hidden) + walk(t[2], hidden)
    if k in ("between", "slice", "period"):
        return walk(t[1], hidden) + walk(t[2], hidden) + walk(t[3], hidden)
    if k == "in":
        return walk(t[1], hidden) + [x for i in t[2] for x in walk(i, hidden)]
    if k in ("isnull", "notnull", "not"):
        return walk(t[1], hidden)
    if k == "fn":
        return [x for a in t[1] for x in walk(a, hidden)]
    if k == "case":
        out = [x for w, th in t[1] for x in walk(w, hidden) + walk(th, hidden)]
        return out + (walk(t[2], hidden) if t[2] is not None else [])
    # since d11365b nodes_ descends into these operands as well: nothing is hidden from the guards any more
    if k in ("neg", "attz"):
        return walk(t[1], hidden)
    if k == "over":
        return [x for a in t[1] + t[2] + t[3] for x in walk(a, hidden)]
    if k == "filter":
        return [x for a in t[1] for x in walk(a, hidden)] + walk(t[2], hidden)
    raise ValueError(t)


def map_refs(t, f):
    k = t[0]
    if k == "f":
        return ["f", f(t[1]), t[2]]
    if k == "c":
        return t
    if k in ("cmp", "and", "or", "arith", "bitand", "between", "slice", "period"):
        return [k] + [map_refs(x, f) for x in t[1:]]
    if k == "in":
        return [k, map_refs(t[1], f), [map_refs(i, f) for i in t[2]]]
    if k in ("isnull", "notnull", "not", "neg", "attz"):
        return [k, map_refs(t[1], f)]
    if k == "fn":
        return [k, [map_refs(a, f) for a in t[1]]]
    if k == "case":
        return [k, [[map_refs(w, f), map_refs(th, f)] for w, th in t[1]], None if t[2] is None else map_refs(t[2], f)]
    if k == "over":
        return [k, [map_refs(a, f) for a in t[1]], [map_refs(a, f) for a in t[2]], [map_refs(a, f) for a in t[3]]]
    if k == "filter":
        return [k, [map_refs(a, f) for a in t[1]], map_refs(t[2], f)]
    raise ValueError(t)


def positions(t, path=""):
    """(position label, leaf) for every field leaf: where in which class the field sits"""
    k = t[0]
    if k == "f":
        return [(path or "top", t)]
    if k == "c":
        return []
    names = {"cmp": ["cmp.left", "cmp.right"], "and": ["and.left", "and.right"], "or": ["or.left", "or.right"],
             "arith": ["arith.left", "arith.right"], "bitand": ["bitand.term", "bitand.value"],
             "between": ["between.term", "between.start", "between.end"], "slice": ["slice.term", "slice.start", "slice.end"],
             "period": ["period.term", "period.start", "period.end"]}
    if k in names:
        return [x for nm, sub in zip(names[k], t[1:]) for x in positions(sub, nm)]
    if k == "in":
        return positions(t[1], "in.term") + [x for i in t[2] for x in positions(i, "in.container")]
    if k in ("isnull", "notnull", "not", "neg", "attz"):
        return positions(t[1], k + ".term")
    if k == "fn":
        return [x for a in t[1] for x in positions(a, "fn.args")]
    if k == "case":
        out = [x for w, th in t[1] for x in positions(w, "case.when") + positions(th, "case.then")]
        return out + (positions(t[2], "case.else") if t[2] is not None else [])
    if k == "over":
        return ([x for a in t[1] for x in positions(a, "over.args")] + [x for a in t[2] for x in positions(a, "over.partition")]
                + [x for a in t[3] for x in positions(a, "over.orderby")])
    if k == "filter":
        return [x for a in t[1] for x in positions(a, "filter.args")] + positions(t[2], "filter.criterion")
    raise ValueError(t)
