"""C14 extraction: nodes_ coverage of the term classes (pypika/terms.py), read off the sources with `ast`.

JoinOn.validate / validate_with / _validate_returning_term see a criterion only through Term.find_ (= nodes_): an operand
that nodes_ does not visit is invisible to the guards.  For every Node subclass the table lists
  children : the attributes that hold child terms -- rendered (X.get_sql(...), _operand_sql(X, ...), get_arg_sql(X)),
             rebuilt by replace_table, or wrapped by wrap_constant in __init__ (also through loop variables), and
  visited  : the attributes whose nodes_() the class's nodes_ yields from, in order, with repetitions.
coq/Guards.v holds the expected table; any difference breaks the proof (fail closed)."""
import ast
import os

RENDER_METHODS = ("get_sql", "get_function_sql", "get_special_params_sql", "get_partition_sql", "get_frame_sql",
                  "get_filter_sql", "get_value_sql", "_get_shift_sql")
OPERAND_HELPERS = ("_operand_sql", "get_arg_sql")


def _classes(repo):
    tree = ast.parse(open(os.path.join(repo, "pypika", "terms.py")).read())
    return {n.name: n for n in tree.body if isinstance(n, ast.ClassDef)}


def _mro(classes, c):
    out = []

    def go(x):
        if x in out or x not in classes:
            return
        out.append(x)
        for b in classes[x].bases:
            if isinstance(b, ast.Name):
                go(b.id)
    go(c)
    return out


def _methods(classes, c, name):
    return [f for k in _mro(classes, c) for f in classes[k].body if isinstance(f, ast.FunctionDef) and f.name == name]


def _first_method(classes, c, name):
    m = _methods(classes, c, name)
    return m[0] if m else None


def _attr_of(e, env):
    if isinstance(e, ast.Attribute) and isinstance(e.value, ast.Name) and e.value.id == "self":
        return e.attr
    if isinstance(e, ast.Name) and e.id in env:
        return env[e.id]
    return None


def _bind(target, it, env):
    """loop / comprehension variables drawn from self.X (also through enumerate(...), zip(...)) stand for X"""
    a = _attr_of(it, env)
    if a is None and isinstance(it, ast.Call):
        for arg in it.args:
            a = a or _attr_of(arg, env)
    if a is None:
        return env
    env = dict(env)
    for x in ast.walk(target):
        if isinstance(x, ast.Name):
            env[x.id] = a
    return env


def _scoped_calls(fn):
    """every Call of the function with the variable environment valid at that point (loops and comprehensions scoped)"""
    out = []

    def go(n, env):
        if isinstance(n, ast.For):
            go(n.iter, env)
            inner = _bind(n.target, n.iter, env)
            for st in n.body + n.orelse:
                go(st, inner)
            return
        if isinstance(n, (ast.ListComp, ast.SetComp, ast.GeneratorExp, ast.DictComp)):
            inner = env
            for g in n.generators:
                go(g.iter, inner)
                inner = _bind(g.target, g.iter, inner)
                for c in g.ifs:
                    go(c, inner)
            for part in ([n.key, n.value] if isinstance(n, ast.DictComp) else [n.elt]):
                go(part, inner)
            return
        if isinstance(n, ast.Call):
            out.append((n, env))
        for ch in ast.iter_child_nodes(n):
            go(ch, env)
    for st in fn.body:
        go(st, {})
    return out


def _receivers(fn, method):
    """attributes X with X.method(...) (or x.method(...) for x drawn from X), in source order, with repetitions;
    "<super>" stands for super().method(...)"""
    out = []
    for n, env in _scoped_calls(fn):
        if isinstance(n.func, ast.Attribute) and n.func.attr == method:
            r = n.func.value
            if isinstance(r, ast.Call) and isinstance(r.func, ast.Name) and r.func.id == "super":
                out.append((n.lineno, n.col_offset, "<super>"))
                continue
            a = _attr_of(r, env)
            if a is not None:
                out.append((n.lineno, n.col_offset, a))
    return [a for _, _, a in sorted(out)]


def _helper_args(fn):
    out = []
    for n, env in _scoped_calls(fn):
        if n.args:
            name = n.func.id if isinstance(n.func, ast.Name) else n.func.attr if isinstance(n.func, ast.Attribute) else None
            if name in OPERAND_HELPERS:
                a = _attr_of(n.args[0], env)
                if a is not None:
                    out.append(a)
    return out


def _wrapped_in_init(fn):
    out = []
    for n in ast.walk(fn):
        if isinstance(n, ast.Assign) and len(n.targets) == 1:
            t = n.targets[0]
            if isinstance(t, ast.Attribute) and isinstance(t.value, ast.Name) and t.value.id == "self":
                if any(isinstance(c, ast.Call) and isinstance(c.func, ast.Attribute) and c.func.attr == "wrap_constant"
                       for c in ast.walk(n.value)):
                    out.append(t.attr)
    return out


def extract_coverage(repo):
    classes = _classes(repo)
    rows = []
    for c in classes:
        if "Node" not in _mro(classes, c):
            continue
        children = set()
        for name in RENDER_METHODS:
            for f in _methods(classes, c, name):
                children |= (set(_receivers(f, "get_sql")) - {"<super>"}) | set(_helper_args(f))
        for f in _methods(classes, c, "replace_table"):
            children |= set(_receivers(f, "replace_table")) - {"<super>"}
        for f in _methods(classes, c, "__init__"):
            children |= set(_wrapped_in_init(f))
        chain = _methods(classes, c, "nodes_")
        if not chain:
            raise ValueError("class %s has no nodes_ at all" % c)

        def visits(k):
            out = []
            for a in _receivers(chain[k], "nodes_"):
                if a == "<super>":
                    if k + 1 >= len(chain):
                        raise ValueError("%s.nodes_ calls super().nodes_() but no base class defines it" % c)
                    out += visits(k + 1)
                else:
                    out.append(a)
            return out
        visited = visits(0)
        children |= set(visited)
        if children:
            rows.append((c, sorted(children), visited))
    return rows


def coverage_to_coq(rows):
    from harness.lib import S, L, P
    lines = ["  " + P(S(c), L([S(a) for a in ch]), L([S(a) for a in vis])) for c, ch, vis in rows]
    return "Definition nodes_coverage : list (string * list string * list string) := [\n" + ";\n".join(lines) + "\n].\n"


def extract_is_aggregate(repo):
    """per Node subclass of pypika/terms.py: how is_aggregate is decided -- the class attribute found first along the MRO
    ('None' = abstains in resolve_is_aggregate, 'False', 'True') or 'property' (computed from the operands)"""
    classes = _classes(repo)

    def own(c):
        for st in classes[c].body:
            tgt = None
            if isinstance(st, ast.Assign) and any(isinstance(t, ast.Name) and t.id == "is_aggregate" for t in st.targets):
                tgt = st.value
            elif isinstance(st, ast.AnnAssign) and isinstance(st.target, ast.Name) and st.target.id == "is_aggregate":
                tgt = st.value
            elif isinstance(st, ast.FunctionDef) and st.name == "is_aggregate":
                return "property"
            if tgt is not None:
                if isinstance(tgt, ast.Constant) and tgt.value in (None, True, False):
                    return repr(tgt.value)
                raise ValueError("%s.is_aggregate is assigned a non-literal" % c)
        return None
    rows = []
    for c in classes:
        if "Node" not in _mro(classes, c):
            continue
        for k in _mro(classes, c):
            v = own(k)
            if v is not None:
                rows.append((c, v))
                break
        else:
            raise ValueError("no is_aggregate for %s" % c)
    return rows


def is_aggregate_to_coq(rows):
    from harness.lib import S, P
    return ("Definition is_aggregate_table : list (string * string) := [\n"
            + ";\n".join("  " + P(S(c), S(v)) for c, v in rows) + "\n].\n")
