"""C14 — seeded generators of call histories (plain data).  Each history mixes valid calls with probes on
both sides of every guard's boundary, in random prior states; a malformed stream adds calls outside the
documented contract (wrong dialect, on_field without FROM, ...)."""
from . import impl, spec

NAMES = ["a", "b", "c", "d"]


def tab(rng, foreign=False):
    name = rng.choice(["zz", "yy"] if foreign else NAMES)
    r = rng.random()
    schema = "s1" if r < 0.12 else None
    alias = rng.choice(["x1", "x2"]) if rng.random() < 0.15 else None
    return ["tab", name, schema, alias]


def gen_sub(rng):
    """a sub-query: named explicitly, like the names a statement hands out (sq0, sq1), or not named yet"""
    return ["sub", rng.choice([None, None, "sq0", "sq1", "s", "s"]), rng.choice(["c", "d"]), rng.randrange(3)]


def sub_neighbours(rng, t):
    """sub-queries a criterion may confuse with the source t: same alias over another table, same alias and table but
    another sub-query, another alias, no alias"""
    _, alias, src, uid = t
    return rng.choice([
        ["sub", alias, "d" if src == "c" else "c", uid],
        ["sub", alias, src, (uid + 1) % 3],
        ["sub", "other", src, uid],
        ["sub", None, src, (uid + 2) % 3],
    ])


def source(rng):
    r = rng.random()
    if r < 0.7:
        return tab(rng)
    if r < 0.8:
        return ["alq", rng.choice(["w1", "w2"])]
    return gen_sub(rng)


def known_sources(sp):
    out = list(sp.frm) + list(sp.withs) + [j[0] for j in sp.joins]
    if sp.update is not None:
        out.append(sp.update)
    return out


def gen_crit(rng, sp, item, p_foreign, p_none):
    n = rng.choice([1, 1, 1, 2, 3])
    pairs = []
    pool = known_sources(sp) + [item]
    for _ in range(n):
        side = []
        for s in range(2):
            r = rng.random()
            if rng.random() < 0.07:
                side.append([["alq", rng.choice(["w1", "w2", "w3"])], "id"])
            elif r < p_none:
                side.append([None, rng.choice(["id", "k"])])
            elif r < p_none + p_foreign:
                if rng.random() < 0.3:      # a WITH query that may or may not be defined (before or after the join)
                    side.append([["alq", rng.choice(["w1", "w2", "w3"])], "id"])
                else:
                    side.append([tab(rng, foreign=rng.random() < 0.5), "id"])
            else:
                t = rng.choice(pool)
                if t[0] == "sub" and rng.random() < 0.35:
                    t = sub_neighbours(rng, t if t[1] is not None or t is not item else sp._tagged(t))
                side.append([t, rng.choice(["id", "k"])])
        pairs.append(side)
    return pairs


def gen_tree(rng, leaf, depth, crit=True):
    """a random criterion (crit=True) or operand term over the leaves leaf() hands out: every operand structure of the
    term classes, including the operands nodes_ does not visit"""
    sub = lambda c=False: gen_tree(rng, leaf, depth - 1, c)   # noqa: E731
    if crit:
        if depth <= 0:
            return ["cmp", leaf(), leaf()]
        k = rng.choice(["cmp", "cmp", "cmp", "and", "or", "between", "slice", "period", "in", "isnull", "notnull", "not", "bitand"])
        if k == "cmp":
            return ["cmp", sub(), sub()]
        if k in ("and", "or"):
            return [k, sub(True), sub(True)]
        if k in ("between", "slice", "period"):
            return [k, sub(), sub(), sub()]
        if k == "in":
            return ["in", sub(), [sub() for _ in range(rng.choice([1, 2, 3]))]]
        if k == "bitand":
            return ["cmp", ["bitand", sub(), sub()], sub()]
        if k == "not":
            return ["not", sub(True)]
        return [k, sub()]
    if depth <= 0:
        return leaf() if rng.random() < 0.8 else ["c"]
    k = rng.choice(["f", "f", "f", "c", "arith", "fn", "case", "neg", "attz", "over", "filter"])
    if k == "f":
        return leaf()
    if k == "c":
        return ["c"]
    if k == "arith":
        return ["arith", sub(), sub()]
    if k == "fn":
        return ["fn", [sub() for _ in range(rng.choice([1, 2, 3]))]]
    if k == "case":
        return ["case", [[sub(True), sub()] for _ in range(rng.choice([1, 2]))], sub() if rng.random() < 0.6 else None]
    if k == "neg":
        return ["neg", sub()]
    if k == "attz":
        return ["attz", leaf()]
    if k == "over":
        return ["over", [sub()], [leaf() for _ in range(rng.choice([0, 1, 2]))], [leaf() for _ in range(rng.choice([0, 1]))]]
    return ["filter", [sub()], sub(True)]


def gen_crit_tree(rng, sp, item, p_plant):
    """a criterion over the statement's own sources; with probability p_plant ONE field, at a uniformly chosen operand
    position, is moved to a foreign table / an undefined WITH query / a neighbouring sub-query"""
    from .crit import positions
    pool = known_sources(sp) + [item]

    def leaf():
        if rng.random() < 0.06:
            return ["f", None, rng.choice(["id", "k"])]
        return ["f", rng.choice(pool), rng.choice(["id", "k", "v"])]
    t = gen_tree(rng, leaf, rng.choice([1, 2, 2, 3]))
    leaves = positions(t)
    if leaves and rng.random() < p_plant:
        # spread over the position labels, not over the leaves (so that rare positions are hit as often as common ones)
        labels = sorted({p for p, _ in leaves})
        lab = rng.choice(labels)
        _, lf = rng.choice([x for x in leaves if x[0] == lab])
        r = rng.random()
        if r < 0.6:
            lf[1] = tab(rng, foreign=True)
        elif r < 0.8:
            lf[1] = ["alq", rng.choice(["w1", "w2", "w3", "w9"])]
        elif lf[1] is not None and lf[1][0] == "sub":
            lf[1] = sub_neighbours(rng, lf[1] if lf[1][1] is not None else sp._tagged(lf[1]))
        else:
            lf[1] = ["tab", rng.choice(NAMES), "s9", None]
    return t


def gen_rterm(rng, sp, depth, p_foreign):
    r = rng.random()
    own = []
    if sp.insert is not None:
        own.append(sp.insert)
    if sp.update is not None:
        own.append(sp.update)
    own += [t for t in sp.frm if t[0] == "tab"]
    for j in sp.joins:
        own += list(j[1] or [])

    def fld():
        q = rng.random()
        if q < 0.2:
            return ["field", None, "n"]
        if q < 0.2 + p_foreign or not own:
            if own and rng.random() < 0.3:     # same name as an own table, other schema/alias: same rendered key
                o = rng.choice(own)
                return ["field", ["tab", o[1], "s2" if o[2] is None else None, o[3]], rng.choice(["o", "p"])]
            return ["field", tab(rng, foreign=rng.random() < 0.6), rng.choice(["f", "o"])]
        return ["field", rng.choice(own), rng.choice(["o", "p"])]
    if rng.random() < 0.18:
        # an aggregate next to a field-less leaf (interval literal, parameter, wrapped value, NULL, literal), either order,
        # '+' or '-', bare or inside a function: abstaining leaves keep the term an aggregate, the others do not
        from . import impl
        agg = ["fn", "agg", [fld()] if rng.random() < 0.8 else []]
        leaf = ["leaf", rng.choice(sorted(impl.LEAF_VOTES))]
        t = ["arith", agg, leaf] if rng.random() < 0.5 else ["arith", leaf, agg]
        if rng.random() < 0.3:
            t.append("-")
        return ["fn", "plain", [t]] if rng.random() < 0.3 else t
    if depth <= 0 or r < 0.35:
        q = rng.random()
        if q > 0.93:
            from . import impl
            return ["leaf", rng.choice(sorted(impl.LEAF_VOTES))]
        if q < 0.45:
            return fld()
        if q < 0.6:
            return ["str", rng.choice(["id", "v"])]
        if q < 0.7:
            return ["star"]
        return ["const"]
    if r < 0.8:
        kind = rng.choice(["plain", "plain", "plain", "agg", "analytic"])
        n = rng.choice([0, 1, 1, 2, 3])
        args = []
        for _ in range(n):
            a = gen_rterm(rng, sp, depth - 1, p_foreign)
            if a[0] in ("str", "star"):
                a = ["const"]
            args.append(a)
        return ["fn", kind, args]
    a, b = gen_rterm(rng, sp, depth - 1, p_foreign), gen_rterm(rng, sp, depth - 1, p_foreign)
    a = ["const"] if a[0] in ("str", "star") else a
    b = ["const"] if b[0] in ("str", "star") else b
    return ["arith", a, b]


def gen_selterm(rng):
    r = rng.random()
    if r < 0.35:
        return ["str", rng.choice(["x", "y", "z"])]
    if r < 0.45:
        return ["star"]
    if r < 0.75:
        return ["field", rng.choice([None, ["tab", "a", None, None]]), rng.choice(["x", "y"])]
    return ["other", rng.randrange(4)]


def gen_top(rng):
    r = rng.random()
    if r < 0.4:
        return ["int", rng.choice([0, 1, 5, 50, 100, 101, 250, -1, -7])]
    if r < 0.55:
        return ["strint", rng.choice([0, 5, 100, 101, 1000, -3])]
    if r < 0.7:
        return ["strbad", rng.choice(["x", "5x", "", "1.5", "ten"])]
    if r < 0.8:
        return ["float", rng.choice([5.7, 0.5, 99.9, 100.5, 250.25, -0.5])]
    if r < 0.88:
        return ["none"]
    return ["bool", rng.choice([True, False])]


def q_call(rng, sp, malformed):
    """one random call for the query described by sp"""
    r = rng.random()
    pg, my, ms = sp.pg, sp.my, sp.ms
    dialect_calls = []
    if my or (malformed and rng.random() < 0.05):
        dialect_calls += ["on_dup_update", "on_dup_ignore"]
    if pg or (malformed and rng.random() < 0.05):
        dialect_calls += ["on_conflict", "do_nothing", "do_update", "where", "returning", "returning", "returning"]
    if ms or (malformed and rng.random() < 0.05):
        dialect_calls += ["top", "top"]
    common = ["from", "from", "with", "with", "into", "update", "delete", "select", "select", "columns", "insert", "set", "groupby",
              "rollup", "rollup", "join", "join", "join", "join", "render", "render", "noise"]
    k = rng.choice(common + dialect_calls * 2)
    if pg and (sp.conflict or sp.nothing or sp.cupdates) and rng.random() < 0.5:
        # an ON CONFLICT clause is being built: stay on its guards (handlers, WHERE, render)
        k = rng.choice(["where", "where", "render", "render", "do_nothing", "do_update", "on_conflict", "returning"])
    if any(j[2] for j in sp.joins) and rng.random() < 0.45:
        # a join criterion refers to a WITH query: make the statement complete, define the query (or not), render
        k = rng.choice(["render", "render", "render", "with", "select", "set", "insert"])
    if k == "from":
        return ["from", source(rng)]
    if k == "with":
        return ["with", rng.choice(["w1", "w2", "w3", "w1", "w2", "w3", "a2", "b2"])]
    if k in ("into", "update"):
        return [k, ["tab", rng.choice(NAMES), None, None]]
    if k == "delete":
        return ["delete"]
    if k == "select":
        return ["select", [gen_selterm(rng) for _ in range(rng.choice([1, 1, 1, 2, 3]))]]
    if k == "columns":
        return ["columns", ["c1", "c2"][: rng.choice([1, 2])]]
    if k == "insert":
        return ["insert", [1, 2][: rng.choice([0, 1, 1, 2])], rng.random() < 0.2]
    if k == "set":
        return ["set"]
    if k == "groupby":
        return ["groupby", rng.choice([0, 1, 2])]
    if k == "rollup":
        return ["rollup", rng.random() < 0.6, rng.choice([0, 0, 1, 2])]
    if k == "join":
        item = source(rng)
        how = rng.choice(impl.HOWS)
        q = rng.random()
        if q < 0.62:
            if rng.random() < 0.08:
                return ["join", item, ["on", None], how]
            p_foreign = rng.choice([0.0, 0.0, 0.15, 0.4])
            p_none = rng.choice([0.0, 0.1, 0.3])
            if rng.random() < 0.45:
                return ["join", item, ["onx", gen_crit_tree(rng, sp, item, rng.choice([0.0, 0.5, 0.7]))], how]
            return ["join", item, ["on", gen_crit(rng, sp, item, p_foreign, p_none)], how]
        if q < 0.78:
            n = rng.choice([0, 1, 1, 2])
            if n and not sp.frm and not malformed:
                n = 0
            return ["join", item, ["on_field", ["id", "k"][:n]], how]
        if q < 0.92:
            return ["join", item, ["using", ["id", "k"][: rng.choice([0, 1, 1, 2])]], how]
        return ["join", item, ["cross"], how]
    if k == "render":
        return ["render"]
    if k == "noise":
        n = rng.choice(impl.NOISE_Q)
        if pg and n == "where":
            n = "orderby"
        return ["noise", n]
    if k in ("on_dup_update", "on_dup_ignore", "do_nothing"):
        return [k]
    if k == "on_conflict":
        return ["on_conflict", ["f1", "f2", "f3"][: rng.choice([0, 0, 1, 2])]]
    if k == "do_update":
        kind = rng.choice(["str", "str", "field", "field", "other"])
        if kind == "str" and sp.insert is None and not malformed:
            kind = "field"
        return ["do_update", kind, rng.random() < 0.5]
    if k == "where":
        return ["where", rng.random() < 0.15]
    if k == "returning":
        p_foreign = rng.choice([0.0, 0.0, 0.2, 0.5])
        return ["returning", [gen_rterm(rng, sp, rng.choice([0, 1, 2]), p_foreign) for _ in range(rng.choice([1, 1, 1, 2, 3]))]]
    if k == "top":
        return ["top", gen_top(rng), rng.random() < 0.45, rng.random() < 0.2]
    raise ValueError(k)


PRELUDES = {
    "select": lambda rng: [["from", ["tab", rng.choice(NAMES), None, None]]],
    "insert": lambda rng: [["into", ["tab", rng.choice(NAMES), None, None]], ["insert", [1], False]],
    "update": lambda rng: [["update", ["tab", rng.choice(NAMES), None, None]]],
    "delete": lambda rng: [["from", ["tab", rng.choice(NAMES), None, None]], ["delete"]],
    "empty": lambda rng: [],
}


def gen_q(rng, malformed=False, mutable=None, cls=None, length=None):
    cls = cls or rng.choice(["Query"] * 3 + ["MySQLQuery"] * 3 + ["PostgreSQLQuery"] * 6 + ["MSSQLQuery"] * 2 + impl.QUERY_CLASSES[4:])
    mutable = (rng.random() < 0.15) if mutable is None else mutable
    sp = spec.QSpec(cls)
    calls = list(PRELUDES[rng.choice(["select", "select", "insert", "update", "delete", "empty"])](rng))
    if cls == "PostgreSQLQuery" and rng.random() < 0.3:
        calls = list(PRELUDES["insert"](rng)) + [["on_conflict", ["f1", "f2"][: rng.choice([0, 1, 1, 2])]]]
    if cls == "MySQLQuery" and rng.random() < 0.3:
        calls = list(PRELUDES["insert"](rng))
    for c in calls:
        if sp.predict(c) is None:
            sp.apply(c)
    n = length or rng.choice([2, 3, 4, 5, 6, 8, 10])
    for _ in range(n):
        c = q_call(rng, sp, malformed)
        calls.append(c)
        if not sp.in_contract(c) and not malformed:
            calls.pop()
            continue
        if sp.in_contract(c) and sp.predict(c) is None:
            try:
                sp.apply(c)
            except Exception:  # the generator's bookkeeping is best effort
                pass
    return {"kind": "q", "cls": cls, "mutable": bool(mutable), "calls": calls}


def gen_c(rng, malformed=False):
    builder = rng.choice(impl.CREATE_BUILDERS + ["VerticaCreateQueryBuilder", "CreateQueryBuilder"])
    vert = builder == "VerticaCreateQueryBuilder"
    calls = []
    for _ in range(rng.choice([2, 3, 4, 5, 6, 8])):
        k = rng.choice(["create_table", "temporary", "columns", "columns", "primary_key", "primary_key", "foreign_key",
                        "foreign_key", "as_select", "noise", "unlogged"] + (["local", "preserve_rows", "temporary"] if (vert or (malformed and rng.random() < 0.2)) else []))
        if k == "create_table":
            calls.append([k, "t1"])
        elif k in ("columns", "primary_key", "foreign_key"):
            calls.append([k, rng.choice([0, 1, 1, 2])])
        elif k == "as_select":
            calls.append([k, rng.random() < 0.8])
        elif k == "noise":
            calls.append([k, rng.choice(impl.NOISE_C)])
        else:
            calls.append([k])
    return {"kind": "c", "builder": builder, "raw": rng.random() < 0.25, "calls": calls}


def gen_d(rng, malformed=False):
    builder = rng.choice(impl.DROP_BUILDERS + ["ClickHouseDropQueryBuilder"])
    click = builder == "ClickHouseDropQueryBuilder"
    kinds = ["database", "table", "user", "view", "index"] + (["dictionary", "quota"] if (click or (malformed and rng.random() < 0.3)) else [])
    calls = []
    for _ in range(rng.choice([1, 2, 2, 3, 4])):
        r = rng.random()
        if r < 0.65:
            calls.append(["drop", rng.choice(kinds), rng.choice(["n1", "n2", "n3", ""])])
        elif r < 0.85 and (click or malformed):
            calls.append(["on_cluster", rng.choice(["cl", "cl2", ""])])
        else:
            calls.append(["noise", "if_exists"])
    return {"kind": "d", "builder": builder, "calls": calls}


def gen_t(rng):
    calls = []
    for _ in range(rng.choice([1, 2, 3, 4])):
        r = rng.random()
        calls.append(["for", rng.randrange(3)] if r < 0.45 else (["for_portion", rng.randrange(2)] if r < 0.9 else ["noise", rng.randrange(3)]))
    return {"kind": "t", "name": rng.choice(NAMES), "schema": rng.choice([None, None, "s1"]), "calls": calls}


def gen_w(rng):
    def edge():
        r = rng.random()
        return ["preceding", rng.choice([None, 0, 1, 5])] if r < 0.4 else (["following", rng.choice([None, 0, 2])] if r < 0.7 else ["current"])
    calls = []
    for _ in range(rng.choice([1, 2, 3, 4])):
        r = rng.random()
        if r < 0.8:
            calls.append([rng.choice(["rows", "range"]), edge(), edge() if rng.random() < 0.5 else None])
        else:
            calls.append(["noise", rng.randrange(3)])
    return {"kind": "w", "func": rng.choice(impl.WINDOW_FUNCS), "calls": calls}


def gen_k(rng):
    calls = []
    for _ in range(rng.choice([1, 2, 3, 4, 5])):
        r = rng.random()
        calls.append(["when", rng.randrange(5)] if r < 0.3 else (["else"] if r < 0.45 else (["render", rng.randrange(3)] if r < 0.9 else ["noise"])))
    return {"kind": "k", "calls": calls}


def gen_f(rng):
    p = rng.choice([None, 0, 1, 2, 3, 4])
    return {"kind": "f", "params": p, "calls": [["call", rng.choice([0, 1, 2, 3, 4, 5] + ([p, p, max(p - 1, 0), p + 1] if p is not None else []))]
                                                  for _ in range(rng.choice([1, 2, 3]))]}


def gen_operand(rng, want, depth):
    """an operand whose arity is `want` most of the time; with depth > 0 possibly a chain used as one operand
    (self-consistent or not, of the wanted arity or not)"""
    n = want if rng.random() < 0.72 else rng.choice([0, 1, 2, 3, 4])
    if depth <= 0 or rng.random() < 0.45:
        return n
    ops = [[rng.choice(impl.SETOPS), gen_operand(rng, n, depth - 1)] for _ in range(rng.choice([1, 1, 2, 3]))]
    return ["nest", n, ops]


def gen_s(rng):
    base = rng.choice([0, 1, 1, 2, 2, 3])
    calls = []
    for _ in range(rng.choice([1, 2, 3, 4, 6])):
        r = rng.random()
        if r < 0.55:
            calls.append(["add", rng.choice(impl.SETOPS), gen_operand(rng, base, 2 if rng.random() < 0.5 else 0)])
        elif r < 0.9:
            calls.append(["render"])
        elif any(c[0] == "add" for c in calls):
            calls.append(["noise", rng.randrange(2)])
    calls.append(["render"])
    return {"kind": "s", "cls": rng.choice(["Query", "Query", "MySQLQuery", "PostgreSQLQuery", "OracleQuery", "MSSQLQuery", "SQLLiteQuery"]),
            "base": base, "calls": calls}


def gen_r(rng):
    return {"kind": "r", "values": [rng.choice([True, False, None, None]) for _ in range(rng.choice([0, 1, 2, 3, 4, 5, 7]))]}


MIX = [("q", 0.62), ("c", 0.10), ("d", 0.06), ("t", 0.03), ("w", 0.03), ("k", 0.04), ("f", 0.03), ("s", 0.06), ("r", 0.03)]


def gen_one(rng, malformed=False):
    r = rng.random()
    acc = 0.0
    for k, p in MIX:
        acc += p
        if r < acc:
            break
    return {"q": lambda: gen_q(rng, malformed), "c": lambda: gen_c(rng, malformed), "d": lambda: gen_d(rng, malformed),
            "t": lambda: gen_t(rng), "w": lambda: gen_w(rng), "k": lambda: gen_k(rng), "f": lambda: gen_f(rng),
            "s": lambda: gen_s(rng), "r": lambda: gen_r(rng)}[k]()


def gen_cases(rng, tier):
    n = 2400 if tier == "quick" else 30000
    out = []
    for i in range(n):
        out.append(gen_one(rng, malformed=(i % 8 == 7)))
    return out
