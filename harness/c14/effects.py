"""C14 extraction (fail closed): for every method of the guarded classes that can raise, the effects that
precede each raise, read off the sources with `ast`.

Effects:  ("assign", attr)            self.attr = ...            (on the @builder copy: harmless)
          ("inplace", attr, recopied) self.attr.append(..) / self.attr += [..] / self.attr[i] = ..
                                      recopied = attr is re-copied by the class's __copy__ chain
          ("writearg", what)          a write into an argument / a foreign object
          ("raise", cls)
A method's row lists, for every raise it can reach (directly or through self./super() helpers, do_join and
validate), the effects of one control-flow path leading to it.  Loops are unrolled twice so that the effects of
an earlier iteration precede the raise of a later one.  Anything the walker does not understand raises
ExtractionError (the generated file is then poisoned by the driver)."""
import ast
import os

GUARDED_CLASSES = [
    "Table", "_SetOperation", "QueryBuilder", "Joiner", "Join", "JoinOn", "JoinUsing", "CreateQueryBuilder", "DropQueryBuilder",
    "MySQLQueryBuilder", "PostgreSQLQueryBuilder", "MSSQLQueryBuilder", "FetchNextAndOffsetRowsQueryBuilder",
    "VerticaCreateQueryBuilder", "ClickHouseDropQueryBuilder", "Case", "CustomFunction", "WindowFrameAnalyticFunction",
]
FILES = ["pypika/queries.py", "pypika/terms.py", "pypika/dialects.py"]
MUTATORS = {"append", "extend", "add", "remove", "insert", "pop", "clear", "update", "setdefault", "sort", "reverse", "discard",
            "popitem", "__setitem__", "__delitem__"}
CROSS_OBJECT = {"do_join": ("QueryBuilder", "do_join"), "validate": ("JoinOn", "validate"),
                "_with_join": ("QueryBuilder", "_with_join"), "validate_with": ("JoinOn", "validate_with")}
MAX_PATHS = 4000


class ExtractionError(Exception):
    pass


class World:
    def __init__(self, repo):
        self.classes = {}
        for rel in FILES:
            src = open(os.path.join(repo, rel)).read()
            tree = ast.parse(src)
            for node in tree.body:
                if isinstance(node, ast.ClassDef):
                    bases = []
                    for b in node.bases:
                        if isinstance(b, ast.Name):
                            bases.append(b.id)
                        elif isinstance(b, ast.Attribute):
                            bases.append(b.attr)
                    methods = {n.name: n for n in node.body if isinstance(n, ast.FunctionDef)}
                    if node.name in self.classes:
                        raise ExtractionError("class %s defined twice" % node.name)
                    self.classes[node.name] = {"bases": bases, "methods": methods, "file": rel}
        for c in self.classes.values():
            for m in c["methods"]:
                if m in ("__iand__", "__ior__", "__ixor__", "__iadd__"):
                    raise ExtractionError("in-place operator %s defined: augmented assignments can no longer be classified" % m)
        self.memo = {}
        self.active = set()

    def mro(self, cls):
        out = []

        def go(c):
            if c in out or c not in self.classes:
                return
            out.append(c)
            for b in self.classes[c]["bases"]:
                go(b)
        go(cls)
        return out

    def resolve(self, cls, meth, after=None):
        chain = self.mro(cls)
        if after is not None:
            chain = chain[chain.index(after) + 1:] if after in chain else []
        for c in chain:
            if meth in self.classes[c]["methods"]:
                return c
        return None

    def copied_attrs(self, cls):
        """attributes re-copied by cls.__copy__ (following super().__copy__()); empty when there is no __copy__"""
        owner = self.resolve(cls, "__copy__")
        if owner is None:
            return set()
        fn = self.classes[owner]["methods"]["__copy__"]
        attrs, calls_super = set(), False
        for node in ast.walk(fn):
            if isinstance(node, ast.Assign) and len(node.targets) == 1:
                t, v = node.targets[0], node.value
                if (isinstance(t, ast.Attribute) and isinstance(t.value, ast.Name) and t.value.id == "newone"
                        and isinstance(v, ast.Call) and isinstance(v.func, ast.Name) and v.func.id == "copy"
                        and len(v.args) == 1 and isinstance(v.args[0], ast.Attribute)
                        and isinstance(v.args[0].value, ast.Name) and v.args[0].value.id == "self"
                        and v.args[0].attr == t.attr):
                    attrs.add(t.attr)
            if isinstance(node, ast.Call) and isinstance(node.func, ast.Attribute) and node.func.attr == "__copy__":
                calls_super = True
        parent = self.resolve(cls, "__copy__", after=owner)
        if parent is not None:
            if not calls_super:
                raise ExtractionError("%s.__copy__ does not call super().__copy__()" % owner)
            attrs |= self.copied_attrs(parent)
        return attrs

    def mutable_capable(self, cls):
        return "QueryBuilder" in self.mro(cls)


# a path: (tuple of effects, status) with status in "fall" / "return" / "raise"
def seq(paths, more_fn):
    out = set()
    for eff, st in paths:
        if st != "fall":
            out.add((eff, st))
            continue
        for eff2, st2 in more_fn():
            out.add((eff + eff2, st2))
    if len(out) > MAX_PATHS:
        raise ExtractionError("too many paths")
    return out


class MethodWalker:
    def __init__(self, world, root_cls, def_cls, fn, fresh_params=()):
        self.w, self.root, self.cls, self.fn = world, root_cls, def_cls, fn
        a = fn.args
        self.params = [x.arg for x in a.posonlyargs + a.args + a.kwonlyargs]
        self.vararg = a.vararg.arg if a.vararg else None
        self.kwarg = a.kwarg.arg if a.kwarg else None
        self.fresh = set()
        if self.kwarg:
            self.fresh.add(self.kwarg)
        for i in fresh_params:                 # parameters bound to objects the caller created itself
            if i + 1 < len(self.params):
                self.fresh.add(self.params[i + 1])
        self.aliases = set()
        self.snapshots = {}           # local name -> attributes of self it holds a snapshot of (tuple order)
        self.reraise = None           # inside an except block: the class a bare `raise` re-raises
        self.copied = world.copied_attrs(root_cls)

    def err(self, node, msg):
        raise ExtractionError("%s.%s line %d: %s" % (self.cls, self.fn.name, getattr(node, "lineno", 0), msg))

    # ---- expressions: the calls they contain, in evaluation order ----
    def expr(self, e):
        if e is None:
            return {((), "fall")}
        paths = {((), "fall")}
        for call in self.calls_in(e):
            paths = seq(paths, lambda c=call: self.call(c))
        return paths

    def calls_in(self, e):
        out = []

        def go(n):
            if isinstance(n, ast.Lambda):
                return
            for ch in ast.iter_child_nodes(n):
                go(ch)
            if isinstance(n, ast.Call):
                out.append(n)
        go(e)
        return out

    def is_self(self, n):
        return isinstance(n, ast.Name) and n.id == "self"

    def is_super(self, n):
        return isinstance(n, ast.Call) and isinstance(n.func, ast.Name) and n.func.id == "super"

    def call(self, c):
        f = c.func
        if isinstance(f, ast.Attribute):
            recv, name = f.value, f.attr
            if self.is_self(recv):
                owner = self.w.resolve(self.root, name)
                if owner is None:
                    return {((), "fall")}          # attribute holding a callable (e.g. self._wrapper_cls(...))
                return self.inline(self.root, owner, name, foreign=None, fresh=self.fresh_args(c))
            if self.is_super(recv):
                owner = self.w.resolve(self.root, name, after=self.cls)
                if owner is None:
                    return {((), "fall")}
                return self.inline(self.root, owner, name, foreign=None, fresh=self.fresh_args(c))
            if isinstance(recv, ast.Attribute) and self.is_self(recv.value) and name in MUTATORS:
                return {((("inplace", recv.attr, recv.attr in self.copied),), "fall")}
            if name in CROSS_OBJECT:
                cls, m = CROSS_OBJECT[name]
                return self.inline(cls, cls, m, foreign=ast.unparse(recv))
            if name in MUTATORS:
                if isinstance(recv, ast.Name):
                    if recv.id in self.fresh and recv.id not in self.aliases:
                        return {((), "fall")}
                    if recv.id == self.vararg:
                        return {((), "fall")}
                    return {((("writearg", "%s.%s" % (recv.id, name)),), "fall")}
                if isinstance(recv, ast.Subscript) or isinstance(recv, ast.Attribute):
                    return {((("writearg", "%s.%s" % (ast.unparse(recv), name)),), "fall")}
            return {((), "fall")}
        return {((), "fall")}

    def fresh_args(self, c):
        return tuple(i for i, a in enumerate(c.args)
                     if isinstance(a, ast.Name) and a.id in self.fresh and a.id not in self.aliases)

    def inline(self, root, owner, name, foreign, fresh=()):
        key = (root, owner, name, fresh)
        if key in self.w.active:
            raise ExtractionError("recursion through %s.%s" % (owner, name))
        if key not in self.w.memo:
            self.w.active.add(key)
            try:
                mw = MethodWalker(self.w, root, owner, self.w.classes[owner]["methods"][name], fresh)
                self.w.memo[key] = mw.body(mw.fn.body)
            finally:
                self.w.active.discard(key)
        out = set()
        for eff, st in self.w.memo[key]:
            if foreign is not None:
                eff = tuple(e if e[0] == "raise" else ("writearg", "%s.%s" % (foreign, e[1])) for e in eff)
            out.add((eff, "raise" if st == "raise" else "fall"))
        return out

    # ---- statements ----
    def body(self, stmts):
        paths = {((), "fall")}
        for s in stmts:
            paths = seq(paths, lambda s=s: self.stmt(s))
        return paths

    def target(self, t, value):
        if isinstance(t, ast.Name):
            if isinstance(value, (ast.List, ast.ListComp, ast.Dict, ast.DictComp, ast.Set, ast.SetComp, ast.Tuple, ast.Constant,
                                  ast.JoinedStr, ast.BinOp, ast.BoolOp, ast.Compare, ast.IfExp, ast.Call, ast.UnaryOp, ast.GeneratorExp)):
                if isinstance(value, (ast.IfExp, ast.BoolOp)):
                    self.aliases.add(t.id)     # may be one of its operands
                self.fresh.add(t.id)
            else:
                self.aliases.add(t.id)
            return ()
        if isinstance(t, (ast.Tuple, ast.List)):
            eff = ()
            for x in t.elts:
                eff += self.target(x, None)
            return eff
        if isinstance(t, ast.Attribute):
            if self.is_self(t.value):
                return (("assign", t.attr),)
            return (("writearg", ast.unparse(t)),)
        if isinstance(t, ast.Subscript):
            v = t.value
            if isinstance(v, ast.Attribute) and self.is_self(v.value):
                return (("inplace", v.attr, v.attr in self.copied),)
            if isinstance(v, ast.Name) and v.id in self.fresh and v.id not in self.aliases:
                return ()
            return (("writearg", ast.unparse(t)),)
        if isinstance(t, ast.Starred):
            return self.target(t.value, None)
        self.err(t, "assignment target %s" % type(t).__name__)

    def snapshot_of(self, s):
        """saved = (list(self.A), self.B)  /  saved = list(self.A): remember what the local holds a snapshot of"""
        if len(s.targets) != 1 or not isinstance(s.targets[0], ast.Name):
            return None
        elts = s.value.elts if isinstance(s.value, ast.Tuple) else [s.value]
        attrs = []
        for e in elts:
            if isinstance(e, ast.Call) and isinstance(e.func, ast.Name) and e.func.id in ("list", "copy", "dict", "set") \
                    and len(e.args) == 1 and isinstance(e.args[0], ast.Attribute) and self.is_self(e.args[0].value):
                attrs.append((e.args[0].attr, True))
            elif isinstance(e, ast.Attribute) and self.is_self(e.value):
                attrs.append((e.attr, False))       # the value itself: a snapshot only of what is rebound, not mutated
            else:
                return None
        if not attrs or not any(copied for _, copied in attrs):
            return None
        self.snapshots[s.targets[0].id] = (attrs, isinstance(s.value, ast.Tuple))
        self.fresh.add(s.targets[0].id)
        return tuple(("snap", a, copied) for a, copied in attrs)

    def restore_of(self, s):
        """self.A, self.B = saved   with saved a snapshot local"""
        if len(s.targets) != 1 or not isinstance(s.value, ast.Name) or s.value.id not in self.snapshots:
            return None
        attrs, is_tuple = self.snapshots[s.value.id]
        t = s.targets[0]
        targets = t.elts if (is_tuple and isinstance(t, ast.Tuple)) else [t]
        if len(targets) != len(attrs):
            return None
        for x, (a, _) in zip(targets, attrs):
            if not (isinstance(x, ast.Attribute) and self.is_self(x.value) and x.attr == a):
                return None
        return tuple(("restore", a) for a, _ in attrs)

    def stmt(self, s):
        if isinstance(s, ast.Expr):
            return self.expr(s.value)
        if isinstance(s, ast.Assign):
            snap = self.snapshot_of(s)
            if snap is not None:
                return seq(self.expr(s.value), lambda: {(snap, "fall")})
            rest = self.restore_of(s)
            if rest is not None:
                return {(rest, "fall")}
            eff = ()
            for t in s.targets:
                eff += self.target(t, s.value)
            return seq(self.expr(s.value), lambda: {(eff, "fall")})
        if isinstance(s, ast.AnnAssign):
            eff = self.target(s.target, s.value) if s.value is not None else ()
            return seq(self.expr(s.value), lambda: {(eff, "fall")})
        if isinstance(s, ast.AugAssign):
            t = s.target
            if isinstance(t, ast.Attribute) and self.is_self(t.value):
                if isinstance(s.op, (ast.BitAnd, ast.BitOr, ast.BitXor)):
                    eff = (("assign", t.attr),)      # criterion &= c : rebinding (no __iand__ anywhere, checked)
                else:
                    eff = (("inplace", t.attr, t.attr in self.copied),)
            elif isinstance(t, ast.Name):
                if t.id in self.params and t.id not in self.fresh:
                    eff = (("writearg", t.id),)
                else:
                    eff = ()
            else:
                eff = (("writearg", ast.unparse(t)),)
            return seq(self.expr(s.value), lambda: {(eff, "fall")})
        if isinstance(s, ast.If):
            return seq(self.expr(s.test), lambda: self.body(s.body) | self.body(s.orelse))
        if isinstance(s, (ast.For, ast.While)):
            if s.orelse:
                self.err(s, "loop with else")
            head = self.expr(s.iter) if isinstance(s, ast.For) else self.expr(s.test)
            if isinstance(s, ast.For):
                self.target(s.target, None)

            def loop():
                once = self.body(s.body)
                twice = seq(once, lambda: once)
                return {((), "fall")} | once | twice
            return seq(head, loop)
        if isinstance(s, ast.Return):
            return seq(self.expr(s.value), lambda: {((), "return")})
        if isinstance(s, ast.Raise):
            exc = s.exc
            if exc is None and self.reraise is not None:
                return {((("raise", self.reraise),), "raise")}
            if isinstance(exc, ast.Call) and isinstance(exc.func, ast.Name):
                name = exc.func.id
            elif isinstance(exc, ast.Name) and exc.id[:1].isupper():
                name = exc.id
            else:
                self.err(s, "raise of a non-literal exception")
            return seq(self.expr(exc), lambda: {((("raise", name),), "raise")})
        if isinstance(s, ast.Try):
            if s.orelse or s.finalbody:
                self.err(s, "try with else / finally")
            paths = self.body(s.body)

            def caught_by(h):
                t = h.type
                names = [t.id] if isinstance(t, ast.Name) else [e.id for e in t.elts] if isinstance(t, ast.Tuple) else None
                if names is None:
                    self.err(s, "except clause without plain class names")
                return names
            if len(s.body) == 1 and not any(st == "raise" for _, st in paths):
                # an exception raised implicitly by the single statement (int(value)): it interrupts it before its write
                for h in s.handlers:
                    caught_by(h)
                    paths = paths | self.body(h.body)
                return paths
            # explicit raises inside the body: the handlers must name pypika's own exception classes (nothing implicit)
            out = set()
            for eff, st in paths:
                if st != "raise":
                    out.add((eff, st))
                    continue
                cls = eff[-1][1]
                handler = None
                for h in s.handlers:
                    names = caught_by(h)
                    if any(not n.endswith("Exception") or n == "Exception" for n in names):
                        self.err(s, "handler for a class that may be raised implicitly")
                    if cls in names:
                        handler = h
                        break
                if handler is None:
                    out.add((eff, st))
                    continue
                self.reraise = cls
                try:
                    for eff2, st2 in self.body(handler.body):
                        out.add((eff[:-1] + eff2, st2))
                finally:
                    self.reraise = None
            return out
        if isinstance(s, (ast.Pass, ast.Import, ast.ImportFrom)):
            return {((), "fall")}
        self.err(s, "statement %s" % type(s).__name__)


def extract_rows(repo):
    w = World(repo)
    rows = []
    for cls in GUARDED_CLASSES:
        if cls not in w.classes:
            raise ExtractionError("class %s not found" % cls)
        for name, fn in w.classes[cls]["methods"].items():
            if any(isinstance(d, ast.Name) and d.id in ("property", "staticmethod", "classmethod") for d in fn.decorator_list) and \
                    not any(isinstance(n, ast.Raise) for n in ast.walk(fn)):
                continue
            mw = MethodWalker(w, cls, cls, fn)
            key = (cls, cls, name, ())
            if key not in w.memo:
                w.active.add(key)
                try:
                    w.memo[key] = mw.body(fn.body)
                finally:
                    w.active.discard(key)
            raising = sorted({eff for eff, st in w.memo[key] if st == "raise"})
            if raising:
                rows.append(("%s.%s" % (cls, name), w.mutable_capable(cls), raising))
    return rows


def rows_to_coq(rows):
    from harness.lib import S, B, L

    def eff(e):
        if e[0] == "assign":
            return "EAssign %s" % S(e[1])
        if e[0] == "inplace":
            return "EInPlace %s %s" % (S(e[1]), B(e[2]))
        if e[0] == "writearg":
            return "EWriteArg %s" % S(e[1])
        if e[0] == "snap":
            return "ESnap %s %s" % (S(e[1]), B(e[2]))
        if e[0] == "restore":
            return "ERestore %s" % S(e[1])
        return "ERaise %s" % S(e[1])
    lines = []
    for name, mut, paths in rows:
        lines.append("  (%s, %s, %s)" % (S(name), B(mut), L([L([eff(e) for e in p]) for p in paths])))
    return "Definition effects : list effrow := [\n" + ";\n".join(lines) + "\n].\n"
