"""C14 — run a plain-data call history on real pypika objects.

For every call: the exception class (or None); after a raising call every live object (receiver, earlier
results, argument objects) is rendered again and compared with its text before the call."""

QUERY_CLASSES = ["Query", "MySQLQuery", "PostgreSQLQuery", "MSSQLQuery", "OracleQuery", "VerticaQuery",
                 "RedshiftQuery", "SQLLiteQuery", "SnowflakeQuery", "ClickHouseQuery"]
CREATE_BUILDERS = ["CreateQueryBuilder", "MySQLCreateQueryBuilder", "SnowflakeCreateQueryBuilder", "VerticaCreateQueryBuilder"]
DROP_BUILDERS = ["DropQueryBuilder", "MySQLDropQueryBuilder", "SnowflakeDropQueryBuilder", "ClickHouseDropQueryBuilder"]
SETOPS = ["union", "union_all", "intersect", "except_of", "minus"]
HOWS = ["inner", "left", "right", "outer", "left_outer", "right_outer", "full_outer", "cross", "hash"]
WINDOW_FUNCS = ["Sum", "Avg", "Min", "Max", "Count", "FirstValue", "LastValue", "StdDev", "StdDevPop", "Variance", "VarSamp"]
NOISE_Q = ["where", "orderby", "limit", "offset", "distinct", "having", "for_update", "prewhere", "force_index"]
NOISE_C = ["unique", "if_not_exists", "period_for", "with_system_versioning"]


def render(o):
    try:
        return str(o)
    except Exception as e:  # noqa
        return "!" + type(e).__name__


def _qcls(name):
    import pypika
    import pypika.dialects as d
    return getattr(pypika, name, None) or getattr(d, name)


SUB_SHAPES = [("x", "y"), ("y", "z"), ("x",)]


def mk_table(t, objs=None):
    """plain-data table reference -> fresh pypika object (None stays None).
    ["sub", alias|None, src, uid]: a sub-query over table src; uid picks one of several different sub-queries over
    that table. An un-aliased sub-query is ONE object within a call (the statement names it sq<n> when it is joined /
    selected from, and the criterion's fields were built from that object)."""
    from pypika import Table, AliasedQuery, Query
    if t is None:
        return None
    if t[0] == "tab":
        return Table(t[1], schema=t[2], alias=t[3])
    if t[0] == "alq":
        return AliasedQuery(t[1])
    if t[0] == "sub":
        _, alias, src, uid = t
        cache = getattr(objs, "cache", None)
        if alias is None and cache is not None and (src, uid) in cache:
            return cache[(src, uid)]
        q = Query.from_(Table(src)).select(*SUB_SHAPES[uid % 3])
        if uid % 3 == 1:
            q = q.where(Table(src).z > uid)
        if alias is not None:
            q = q.as_(alias)
        elif cache is not None:
            cache[(src, uid)] = q
        return q
    raise ValueError(t)


def mk_field(tref, name, objs):
    from pypika import Field
    t = mk_table(tref, objs)
    if t is not None:
        objs.append(t)
    return Field(name, table=t)


def mk_crit(pairs, objs):
    c = None
    for (lt, ln), (rt, rn) in pairs:
        k = mk_field(lt, ln, objs) == mk_field(rt, rn, objs)
        c = k if c is None else c & k
    objs.append(c)
    return c


def mk_tree(t, objs):
    """criterion tree (harness/c14/crit.py) -> pypika term"""
    from pypika import Case, Not
    from pypika.terms import Function, ValueWrapper, AtTimezone, AggregateFunction
    from pypika import analytics as an
    k = t[0]
    sub = lambda x: mk_tree(x, objs)   # noqa: E731
    if k == "f":
        return mk_field(t[1], t[2], objs)
    if k == "c":
        return ValueWrapper(3)
    if k == "cmp":
        return sub(t[1]) == sub(t[2])
    if k == "and":
        return sub(t[1]) & sub(t[2])
    if k == "or":
        return sub(t[1]) | sub(t[2])
    if k == "arith":
        return sub(t[1]) + sub(t[2])
    if k == "bitand":
        return sub(t[1]).bitwiseand(sub(t[2]))
    if k == "between":
        return sub(t[1]).between(sub(t[2]), sub(t[3]))
    if k == "slice":
        return sub(t[1])[sub(t[2]):sub(t[3])]
    if k == "period":
        return sub(t[1]).from_to(sub(t[2]), sub(t[3]))
    if k == "in":
        return sub(t[1]).isin([sub(i) for i in t[2]])
    if k == "isnull":
        return sub(t[1]).isnull()
    if k == "notnull":
        return sub(t[1]).notnull()
    if k == "not":
        return Not(sub(t[1]))
    if k == "fn":
        return Function("FJ", *[sub(a) for a in t[1]])
    if k == "case":
        c = Case()
        for w, th in t[1]:
            c = c.when(sub(w), sub(th))
        return c if t[2] is None else c.else_(sub(t[2]))
    if k == "neg":
        return -sub(t[1])
    if k == "attz":
        return AtTimezone(sub(t[1]), "UTC")
    if k == "over":
        f = an.Sum(*[sub(a) for a in t[1]]).over(*[sub(a) for a in t[2]])
        return f.orderby(*[sub(a) for a in t[3]]) if t[3] else f
    if k == "filter":
        return AggregateFunction("AGGJ", *[sub(a) for a in t[1]]).filter(sub(t[2]))
    raise ValueError(t)


# field-less leaves by their vote in resolve_is_aggregate (is_aggregate class attribute): None abstains
LEAF_VOTES = {"interval": None, "interval_q": None, "qmark": None, "named": None, "value": None,
              "null": False, "literal": False, "systime": False}


def mk_leaf(kind):
    from pypika.terms import Interval, QmarkParameter, NamedParameter, ValueWrapper, NullValue, LiteralValue
    from pypika import SYSTEM_TIME
    return {"interval": lambda: Interval(days=1), "interval_q": lambda: Interval(quarters=2, dialect=None),
            "qmark": lambda: QmarkParameter(), "named": lambda: NamedParameter("p"), "value": lambda: ValueWrapper("v"),
            "null": lambda: NullValue(), "literal": lambda: LiteralValue("CURRENT_DATE"), "systime": lambda: SYSTEM_TIME}[kind]()


def mk_rterm(t, objs, top=True):
    k = t[0]
    if k == "str":
        return t[1]
    if k == "star":
        return "*"
    if k == "field":
        return mk_field(t[1], t[2], objs)
    if k == "const":
        return 7
    if k == "leaf":
        return mk_leaf(t[1])
    if k == "fn":
        from pypika.terms import Function, AggregateFunction, AnalyticFunction
        args = [mk_rterm(a, objs, False) for a in t[2]]
        cls = {"plain": Function, "agg": AggregateFunction, "analytic": AnalyticFunction}[t[1]]
        return cls("F" + t[1].upper(), *args)
    if k == "arith":
        from pypika.terms import Term, ValueWrapper
        l, r = mk_rterm(t[1], objs, False), mk_rterm(t[2], objs, False)
        if not isinstance(l, Term) and not isinstance(r, Term):     # e.g. 7 + Interval: give '+' a Term to dispatch on
            l = ValueWrapper(l) if not hasattr(l, "get_sql") else l
            r = ValueWrapper(r) if not isinstance(l, Term) else r
        # both spellings of a sum: the operator (falls back to __radd__ when the left operand is no Term) and '-'
        return l - r if t[0] == "arith" and len(t) > 3 and t[3] == "-" else l + r
    raise ValueError(t)


def mk_selterm(t, objs):
    from pypika import functions as fn, Field
    k = t[0]
    if k == "str":
        return t[1]
    if k == "star":
        return "*"
    if k == "field":
        return mk_field(t[1], t[2], objs)
    if k == "other":
        return [fn.Now(), 5, Field("k") + 1, fn.Count("*")][t[1] % 4]
    raise ValueError(t)


def top_value(v):
    k = v[0]
    return {"int": lambda: int(v[1]), "strint": lambda: str(v[1]), "strbad": lambda: v[1], "float": lambda: float(v[1]),
            "none": lambda: None, "bool": lambda: bool(v[1])}[k]()


def do_qcall(q, call, objs):
    """perform one call on builder q; returns the resulting builder (or q for render)"""
    from pypika import Field, EmptyCriterion, JoinType, Table
    k = call[0]
    if k == "from":
        t = mk_table(call[1], objs); objs.append(t)
        return q.from_(t)
    if k == "with":
        from pypika import Query
        sub = Query.from_(Table("cte_src")).select("x")
        objs.append(sub)
        return q.with_(sub, call[1])
    if k == "into":
        t = mk_table(call[1]); objs.append(t)
        return q.into(t)
    if k == "update":
        t = mk_table(call[1]); objs.append(t)
        return q.update(t)
    if k == "delete":
        return q.delete()
    if k == "select":
        return q.select(*[mk_selterm(t, objs) for t in call[1]])
    if k == "columns":
        return q.columns(*call[1])
    if k == "insert":
        return q.replace(*call[1]) if (len(call) > 2 and call[2]) else q.insert(*call[1])
    if k == "set":
        return q.set("sv", 1)
    if k == "groupby":
        return q.groupby(*[Field("g%d" % i) for i in range(call[1])])
    if k == "rollup":
        terms = [Field("r%d" % i) for i in range(call[2])]
        return q.rollup(*terms, vendor="mysql") if call[1] else q.rollup(*terms)
    if k == "join":
        item = mk_table(call[1], objs); objs.append(item)
        how = getattr(JoinType, call[3]) if len(call) > 3 else JoinType.inner
        j = q.join(item, how)
        h = call[2]
        if h[0] in ("on", "onx"):
            from .crit import as_tree
            tree = as_tree(h)
            crit = None if tree is None else mk_tree(tree, objs)
            if crit is not None:
                objs.append(crit)
            return j.on(crit)
        if h[0] == "on_field":
            return j.on_field(*h[1])
        if h[0] == "using":
            return j.using(*h[1])
        if h[0] == "cross":
            return j.cross()
        raise ValueError(h)
    if k == "on_dup_update":
        return q.on_duplicate_key_update("d", 1)
    if k == "on_dup_ignore":
        return q.on_duplicate_key_ignore()
    if k == "on_conflict":
        return q.on_conflict(*[(n if i % 2 == 0 else Field(n)) for i, n in enumerate(call[1])])
    if k == "do_nothing":
        return q.do_nothing()
    if k == "do_update":
        f = {"str": "u", "field": Field("u"), "other": 5}[call[1]]
        return q.do_update(f, 1) if (len(call) > 2 and call[2]) else q.do_update(f)
    if k == "where":
        c = EmptyCriterion() if call[1] else (Field("w") == 1)
        objs.append(c)
        return q.where(c)
    if k == "returning":
        return q.returning(*[mk_rterm(t, objs) for t in call[1]])
    if k == "top":
        kw = {}
        if call[2]:
            kw["percent"] = True
        if len(call) > 3 and call[3]:
            kw["with_ties"] = True
        return q.top(top_value(call[1]), **kw)
    if k == "render":
        str(q)
        return q
    if k == "noise":
        n = call[1]
        if n == "where":
            return q.where(Field("nw") == 1)
        if n == "orderby":
            return q.orderby(Field("no"))
        if n == "limit":
            return q.limit(3)
        if n == "offset":
            return q.offset(2)
        if n == "distinct":
            return q.distinct()
        if n == "having":
            return q.having(Field("nh") > 1)
        if n == "for_update":
            return q.for_update()
        if n == "prewhere":
            return q.prewhere(Field("np") == 1)
        if n == "force_index":
            return q.force_index("ix")
        raise ValueError(n)
    raise ValueError(call)


def run_history(start, calls, step, stop_on_raise=False, extra_live=()):
    """generic loop: start object, list of calls, step(obj, call, objs) -> new obj.
    returns {"results": [exc-name|None...], "changed": [[call index, description]...], "texts": [...]}"""
    recv = start
    live = [("start", start)] + list(extra_live)
    results, changed = [], []
    for i, call in enumerate(calls):
        objs = []
        # argument objects are created inside step(); to snapshot them before the call they are built lazily:
        # step() appends them to objs *before* invoking the method, and records their text at creation
        snap = [(n, o, render(o)) for n, o in live]
        holder = {"args": objs, "texts": []}
        try:
            new = step(recv, call, holder)
        except Exception as e:  # noqa
            results.append(type(e).__name__)
            for n, o, txt in snap:
                now = render(o)
                if now != txt:
                    changed.append([i, n, txt, now])
            for j, (o, txt) in enumerate(zip(holder["args"], holder["texts"])):
                now = render(o)
                if now != txt:
                    changed.append([i, "arg%d" % j, txt, now])
            if stop_on_raise:
                break
            continue
        results.append(None)
        if new is not recv:
            live.append(("r%d" % i, new))
            recv = new
    return {"results": results, "changed": changed, "final": render(recv)}


class ArgList(list):
    """list of argument objects that records each object's text when it is appended (before the call)"""

    def __init__(self, holder):
        super().__init__()
        self.holder = holder
        self.cache = {}

    def append(self, o):
        super().append(o)
        self.holder["texts"].append(render(o))


def _wrap(fn):
    def step(recv, call, holder):
        objs = ArgList(holder)
        holder["args"] = objs
        return fn(recv, call, objs)
    return step


# ---- per-kind runners ------------------------------------------------------------------------
def run_q(case):
    cls = _qcls(case["cls"])
    kw = {"immutable": False} if case.get("mutable") else {}
    q = cls._builder(**kw)
    return run_history(q, case["calls"], _wrap(do_qcall), stop_on_raise=bool(case.get("mutable")))


def do_ccall(b, call, objs):
    from pypika import Query, Table
    k = call[0]
    if k == "create_table":
        return b.create_table(call[1])
    if k == "temporary":
        return b.temporary()
    if k == "columns":
        return b.columns(*["c%d" % i for i in range(call[1])])
    if k == "primary_key":
        return b.primary_key(*["c%d" % i for i in range(call[1])])
    if k == "foreign_key":
        cols = ["c%d" % i for i in range(call[1])]
        return b.foreign_key(cols, Table("ref"), ["r%d" % i for i in range(call[1])])
    if k == "as_select":
        arg = Query.from_("src").select("x") if call[1] else "not a query"
        objs.append(arg)
        return b.as_select(arg)
    if k == "local":
        return b.local()
    if k == "preserve_rows":
        return b.preserve_rows()
    if k == "unlogged":
        return b.unlogged()
    if k == "noise":
        n = call[1]
        if n == "unique":
            return b.unique("u1")
        if n == "if_not_exists":
            return b.if_not_exists()
        if n == "period_for":
            return b.period_for("p", "s", "e")
        if n == "with_system_versioning":
            return b.with_system_versioning()
    raise ValueError(call)


def run_c(case):
    import pypika.queries as pq
    import pypika.dialects as d
    cls = getattr(pq, case["builder"], None) or getattr(d, case["builder"])
    b = cls()
    if not case.get("raw"):
        b = b.create_table("t0")
    return run_history(b, case["calls"], _wrap(do_ccall))


def do_dcall(b, call, objs):
    k = call[0]
    if k == "drop":
        kind, name = call[1], call[2]
        return getattr(b, "drop_" + kind)(name)
    if k == "on_cluster":
        return b.on_cluster(call[1])
    if k == "noise":
        return b.if_exists()
    raise ValueError(call)


def run_d(case):
    import pypika.queries as pq
    import pypika.dialects as d
    cls = getattr(pq, case["builder"], None) or getattr(d, case["builder"])
    return run_history(cls(), case["calls"], _wrap(do_dcall))


def do_tcall(t, call, objs):
    from pypika import Field, SYSTEM_TIME
    k = call[0]
    if k == "for":
        c = [SYSTEM_TIME.between("2020-01-01", "2020-02-01"), SYSTEM_TIME.as_of("2020-01-01"),
             Field("valid").from_to("a", "b")][call[1] % 3]
        objs.append(c)
        return t.for_(c)
    if k == "for_portion":
        c = [SYSTEM_TIME.from_to("2020-01-01", "2020-02-01"), Field("valid").from_to("a", "b")][call[1] % 2]
        objs.append(c)
        return t.for_portion(c)
    if k == "noise":
        return t.as_("al%d" % call[1])
    raise ValueError(call)


def run_t(case):
    from pypika import Table
    return run_history(Table(case.get("name", "t"), schema=case.get("schema")), case["calls"], _wrap(do_tcall))


def do_wcall(w, call, objs):
    from pypika import analytics as an, Field
    k = call[0]

    def edge(e):
        if e is None:
            return None
        if e[0] == "preceding":
            return an.Preceding(e[1])
        if e[0] == "following":
            return an.Following(e[1])
        return an.CURRENT_ROW
    if k in ("rows", "range"):
        a, b = edge(call[1]), edge(call[2])
        return getattr(w, k)(a, b) if b is not None else getattr(w, k)(a)
    if k == "noise":
        return [lambda: w.over(Field("p")), lambda: w.orderby(Field("o")), lambda: w.as_("wa")][call[1] % 3]()
    raise ValueError(call)


def run_w(case):
    from pypika import analytics as an, Field
    f = getattr(an, case["func"])(Field("x"))
    return run_history(f, case["calls"], _wrap(do_wcall))


def do_kcall(c, call, objs):
    from pypika import Field, Query
    k = call[0]
    if k == "when":
        return c.when(Field("a") == call[1], call[1])
    if k == "else":
        return c.else_(0)
    if k == "render":
        if call[1] == 0:
            str(c)
        elif call[1] == 1:
            str(Query.from_("t").select(c))
        else:
            str(Query.from_("t").select("x").where(c == 1))
        return c
    if k == "noise":
        return c.as_("ca")
    raise ValueError(call)


def run_k(case):
    from pypika import Case
    return run_history(Case(), case["calls"], _wrap(do_kcall))


def run_f(case):
    from pypika import CustomFunction
    p = case["params"]
    f = CustomFunction("FN", None if p is None else ["p%d" % i for i in range(p)])

    def step(fobj, call, objs):
        r = fobj(*list(range(call[1])))
        str(r)
        return fobj
    return run_history(f, case["calls"], _wrap(step))


def _sel_query(n, tname):
    from pypika import Query
    q = Query.from_(tname)
    if n:
        q = q.select(*["s%d" % i for i in range(n)])
    return q


def _operand(o, name, objs):
    """an operand of a set operation: a number of select terms, or ["nest", n, [[operator, operand], ...]] =
    a chain  (query with n terms) OP o1 OP o2 ...  used as ONE operand"""
    if isinstance(o, int):
        return _sel_query(o, "%s%d" % (name, len(objs)))
    _, n, ops = o
    cur = _sel_query(n, "%sb%d" % (name, len(objs)))
    for i, (opname, sub) in enumerate(ops):
        inner = _operand(sub, "%s%d_" % (name, i), objs)
        objs.append(inner)
        cur = getattr(cur, opname)(inner)
    return cur


def run_s(case):
    cls = _qcls(case.get("cls", "Query"))
    base = cls.from_("base")
    if case["base"]:
        base = base.select(*["s%d" % i for i in range(case["base"])])

    def step(cur, call, objs):
        k = call[0]
        if k == "add":
            other = _operand(call[2], "op", objs)
            objs.append(other)
            return getattr(cur, call[1])(other)
        if k == "render":
            str(cur)
            return cur
        if k == "noise":
            return cur.limit(5) if call[1] % 2 else cur.offset(1)
        raise ValueError(call)
    return run_history(base, case["calls"], _wrap(step))


def run_r(case):
    from pypika.utils import resolve_is_aggregate
    return {"results": [], "changed": [], "value": resolve_is_aggregate(list(case["values"]))}


RUNNERS = {"q": run_q, "c": run_c, "d": run_d, "t": run_t, "w": run_w, "k": run_k, "f": run_f, "s": run_s, "r": run_r}


def run(case):
    return RUNNERS[case["kind"]](case)
