"""C04 — SELECT statements mean what was built (checked on a real engine).

Syntactic half (Coq): coq/Select.v on top of the shared statement model coq/Query.v and the C02 grammar
(coq/Parse.v, C02Model.v, C02Frag.v): clause skeleton of Query.rquery, statement-level print/parse theorem, reader
theorem on the fragment; clause order / item flags regenerated from pypika/queries.py into coq/gen/C04Table.v.
Engine half (validated on every run, also the oracle): harness/c04/sqlite_ref.py renders the specification into
maximally explicit SQLite SQL without pypika; both texts run on two seeded in-memory databases."""
import json

from harness import queries_family as qf
from harness.lib import S, P, N
from harness.c04 import spec as sp
from harness.c04 import sqlite_ref as sr
from harness.c04 import build as bd
from harness.c04 import oracle as orc

ID = "C04"
COQ_PROP = "props/C04.v"
CORR_REQUIRE = ["Crit", "gen.TermsTable", "Terms", "Page", "gen.QueryTable", "Query", "QueryCorr", "Parse", "C02Model",
                "C02Frag", "gen.C04Table", "Select", "SelectCorr"]
CORR_CHECK = "check_c04"
CORR_SHOW = "show_c04"
GEN_FILES = ["gen/C04Table.v"]
SHARED_EXTRACT = ["terms", "query"]
SHARD = 60
RULE = ("typed random SELECT specifications for SQLLiteQuery (1-3 sources: tables incl. an attached schema, aliased tables, "
        "sub-queries with and without alias, WITH + AliasedQuery; joins of every SQLite type ON/USING/CROSS, the same table "
        "twice; WHERE/ON with IN/EXISTS/comparison sub-queries, correlated or not; GROUP BY/HAVING with SUM/COUNT/MIN/MAX/AVG; "
        "DISTINCT; ORDER BY with and without alias substitution; LIMIT/OFFSET under a total order; sub-queries in the select "
        "list and as function arguments; window functions; aliases that collide with column names), each built on pypika "
        "with the clause-adding calls in a random legal interleaving, rendered, and executed next to an explicit reference "
        "text (written without pypika) on two seeded SQLite databases with NULLs and duplicate rows; plus a stream of "
        "statements of all ten classes for the text correspondence of the statement model. Non-trivial = at least two of "
        "{join, sub-query, group by, order by, limit, distinct, with}; distinct by structural hash.")
TRUSTED = [
    "SQLite 3.40.1 (python sqlite3) as the engine; harness/c04/sqlite_ref.py (reference renderer, ~250 lines, no pypika import)",
    "harness/c04/build.py + harness/queries_family.py build the same specification on pypika and as a Gallina value",
    "coq/Query.v (shared statement model, tied to pypika by the text correspondence on every run)",
    "engine precedence table `sqlite` of coq/C02Model.v; tokenisation of the rendered text (flat_toks) is checked per case "
    "(sflatten = pypika's text), the lexer itself is not modelled",
    "harness/c04/extract.py: fail-closed ast walk of QueryBuilder.get_sql and the clause renderers",
]
ASSUMPTIONS = [
    "engine half is VALIDATED, not proved: 'SQLite accepts the text and returns the same rows as the explicit text' is "
    "observed on two seeded databases per case; Coq proves only that the text is the specified clause sequence and that "
    "every expression of the fragment re-parses (sqlite precedence table) to the specified tree",
    "a page (LIMIT/OFFSET) of a result without total order is compared by acceptance and row count only; the generator "
    "attaches a total ORDER BY to every LIMIT",
    "window functions, sub-queries inside expressions and WITH are outside the Coq reader fragment (flat statements); "
    "they are covered by the skeleton theorem (sub-queries, WITH), the text correspondence and the engine oracle "
    "(window functions: oracle only)",
]


def extract():
    from harness.c04 import extract as ex
    return {"gen/C04Table.v": ex.table_text()}


# ----------------------------------------------------------------------------------------------
# cases
# ----------------------------------------------------------------------------------------------
def gen_cases(rng, tier):
    n_sq = 1200 if tier == "quick" else 30000
    n_gen = 200 if tier == "quick" else 3000
    out = []
    g = sp.SGen(rng)
    gflat = sp.SGen(rng, p_subq=0.0, max_depth=0, p_with=0.0)
    gdef = sp.SGen(rng, p_defect=0.6)
    for i in range(n_sq):
        r = rng.random()
        if r < 0.12:
            s = g.top(windows=True)
        elif r < 0.32:
            s = gflat.top()
        elif r < 0.36:
            s = gdef.top()
        else:
            s = g.top()
        out.append({"kind": "sq", "spec": s, "order": None if rng.random() < 0.2 else rng.randrange(10 ** 6)})
    qg = qf.QGen(rng, p_subq=0.25, max_depth=2)
    for i in range(n_gen):
        out.append({"kind": "gen", "spec": qg.select(qg.cls())})
    return out


T = lambda n, a=None: ["t", [n, [], a]]
F = lambda c, i, a=None: ["field", c, ["#%d" % i, [], None], a]
I = lambda z: ["vali", z, None]


EDGES = ["unbounded_preceding", ["preceding", 2], ["preceding", 1], ["preceding", 0], "current", ["following", 0],
         ["following", 1], ["following", 2], "unbounded_following"]


def _edge_ok(lo, hi):
    """the frames SQLite's grammar accepts: start <= end by kind, and by offset inside a kind"""
    kind = lambda e: 0 if e == "unbounded_preceding" else 4 if e == "unbounded_following" else 2 if e == "current" else (1 if e[0] == "preceding" else 3)
    if lo == "unbounded_following" or hi == "unbounded_preceding" or kind(lo) > kind(hi):
        return False
    if kind(lo) == kind(hi) == 1:
        return lo[1] >= hi[1]
    if kind(lo) == kind(hi) == 3:
        return lo[1] <= hi[1]
    return True


def window_frame_cases():
    """the whole product of frame edges {UNBOUNDED, 0, 1, 2 PRECEDING/FOLLOWING, CURRENT ROW} for ROWS (under a total
    order) and for RANGE (one numeric key), one statement per lower edge, one window per upper edge"""
    from harness.c04.sqlite_ref import COLS
    out = []
    cols = [["t", F(c, 0)] for c in COLS]
    total = [[F(c, 0), [None, "desc", "asc"][n % 3]] for n, c in enumerate(COLS)]
    for mode, obs, part in (("rows", total, []), ("rows", total, [F("c", 0)]), ("range", [[F("a", 0), None]], []),
                            ("range", [[F("b", 0), "desc"]], [F("c", 0)])):
        for lo in EDGES:
            his = [hi for hi in EDGES if _edge_ok(lo, hi)]
            if mode == "range":
                his = [hi for hi in his if hi == "current" or isinstance(hi, str) or hi[1] < 2]
                if not isinstance(lo, str) and lo[1] == 2:
                    continue
            if not his:
                continue
            wins = [["t", ["win", fn, [F("b", 0)], part, obs, [mode, lo, hi], "w%d" % n]]
                    for n, (hi, fn) in enumerate((h, f) for h in his for f in (["SUM", "COUNT"] if mode == "rows" else ["SUM"]))]
            out.append({"kind": "sq", "order": None,
                        "spec": {"k": "sel", "cls": "SQLLiteQuery", "joins": [], "from": [T("t")], "selects": cols + wins}})
    return out


def form_cases():
    """multi-source statements whose sources share every column name, built through the alternative argument forms of
    the API (column names, "*", positions, from_("t"), on_field): several seeds per statement, so every form is taken"""
    sel = lambda **kw: dict({"k": "sel", "cls": "SQLLiteQuery", "joins": []}, **kw)
    cnt = ["func", "COUNT", [["star", None]], None]
    eq = lambda c, j: ["basic", "eq", F(c, 0), F(c, j), None]
    specs = [
        sel(**{"from": [T("t")], "joins": [["left", T("u"), ["on", ["t", eq("a", 1)]]]],
               "selects": [["t", F("c", 0)], ["t", cnt], ["t", ["func", "SUM", [F("b", 1)], "total"]]],
               "groupby": [["t", F("c", 0)]], "orderby": [[["t", F("c", 0)], "desc"]]}),
        sel(**{"from": [T("t"), T("v")], "selects": [["t", F("a", 0)], ["t", F("b", 0)], ["t", F("b", 1, "vb")]],
               "where": ["t", ["basic", "eq", F("id", 0), F("id", 1), None]],
               "orderby": [[["t", F("a", 0)], None], [["t", F("b", 0)], "desc"], [["t", ["vali", 3, None]], None]]}),
        sel(**{"from": [T("orders")], "joins": [["inner", T("cust"), ["on", ["t", ["cplx", "and", eq("id", 1), eq("a", 1), None]]]],
                                                  ["right", T("u"), ["on", ["t", eq("b", 2)]]]],
               "selects": [["t", F("a", 0)], ["t", F("s", 0)], ["t", ["func", "MAX", [F("c", 2)], None]]],
               "groupby": [["t", ["vali", 1, None]], ["t", F("s", 0)]],
               "orderby": [[["t", ["vali", 1, None]], "asc"], [["t", F("s", 0)], None]]}),
        sel(**{"from": [T("t")], "joins": [["inner", T("v"), ["using", ["id", "a"]]]], "selects": [["t", F("b", 0)], ["t", F("c", 1)]]}),
        sel(**{"from": [T("t")], "joins": [["left_outer", T("v"), ["on", ["t", eq("id", 1)]]]], "selects": [["t", ["star", None]]]}),
        sel(**{"from": [T("u")], "joins": [["cross", T("v"), ["cross"]]], "distinct": True,
               "selects": [["t", F("b", 0)], ["t", F("c", 0)]], "orderby": [[["t", F("c", 0)], None], [["t", F("b", 0)], None]],
               "limit": 3, "offset": 0}),
    ]
    return [{"kind": "sq", "order": 1000 + k, "spec": sp_} for sp_ in specs for k in range(6)]


def naming_cases():
    """three and four generated sub-query aliases in one statement (sq0, sq1, sq2, ...), from FROM and from JOIN"""
    sel = lambda **kw: dict({"k": "sel", "cls": "SQLLiteQuery", "joins": []}, **kw)
    agg = lambda tb, fn, c: sel(**{"from": [T(tb)], "selects": [["t", F("a", 0)], ["t", ["func", fn, [F(c, 0)], "total"]]],
                                   "groupby": [["t", F("a", 0)]]})
    on = lambda j: ["on", ["t", ["basic", "eq", F("a", 0), F("a", j), None]]]
    a = sel(**{"from": [T("t")],
               "joins": [["left", ["q", agg("u", "SUM", "b")], on(1)], ["left", ["q", agg("v", "MAX", "c")], on(2)],
                         ["left", ["q", agg("orders", "COUNT", "id")], on(3)]],
               "selects": [["t", F("a", 0)], ["t", F("total", 1)], ["t", F("total", 2, "m")], ["t", F("total", 3, "n")]]})
    b = sel(**{"from": [["q", agg("t", "MIN", "b")]],
               "joins": [["inner", ["q", agg("u", "SUM", "b")], on(1)], ["left_outer", ["q", agg("v", "MAX", "c")], on(2)],
                         ["cross", ["q", agg("cust", "COUNT", "id")], ["cross"]]],
               "selects": [["t", F("a", 0)], ["t", F("total", 0)], ["t", F("total", 1, "m")], ["t", F("total", 2, "n")],
                           ["t", F("total", 3, "k")]]})
    c = sel(**{"from": [["q", agg("t", "MIN", "b")], ["q", agg("u", "SUM", "c")]],
               "joins": [["inner", ["q", agg("v", "MAX", "c")], on(2)], ["right", ["q", agg("orders", "SUM", "id")], on(3)]],
               "selects": [["t", F("total", 0)], ["t", F("total", 1, "m")], ["t", F("total", 2, "n")], ["t", F("total", 3, "k")]],
               "where": ["t", ["basic", "eq", F("a", 0), F("a", 1), None]]})
    return [{"kind": "sq", "order": o, "spec": x} for x in (a, b, c) for o in (None, 7)]


def not_cases():
    """a negated compound condition as operand of AND / OR, in WHERE (one call and two calls), HAVING and ON"""
    sel = lambda **kw: dict({"k": "sel", "cls": "SQLLiteQuery", "joins": []}, **kw)
    cmpi = lambda c, op, z, i=0: ["basic", op, F(c, i), I(z), None]
    neg = lambda x, y, op: ["not", ["cplx", op, x, y, None], None]
    w1 = ["cplx", "and", cmpi("a", "gte", 1), neg(cmpi("b", "eq", 2), cmpi("c", "eq", 3), "or"), None]
    w2 = ["cplx", "or", neg(cmpi("a", "gt", 1), cmpi("b", "lt", 3), "and"), cmpi("c", "eq", 1), None]
    cnt = ["func", "COUNT", [["star", None]], None]
    h = ["cplx", "or", ["basic", "gt", cnt, I(5), None],
         ["not", ["cplx", "and", cmpi("a", "lte", 1), ["basic", "gt", ["func", "SUM", [F("c", 0)], None], I(0), None], None], None], None]
    onc = ["cplx", "and", ["basic", "eq", F("id", 0), F("id", 1), None], neg(cmpi("a", "eq", 1, 1), cmpi("b", "eq", 2, 1), "or"), None]
    return [{"kind": "sq", "order": o, "spec": x} for o in (None, 3, 4) for x in (
        sel(**{"from": [T("t")], "selects": [["t", F("id", 0)], ["t", F("a", 0)]], "where": ["t", w1]}),
        sel(**{"from": [T("u")], "selects": [["t", F("id", 0)], ["t", F("c", 0)]], "where": ["t", w2]}),
        sel(**{"from": [T("t")], "selects": [["t", F("id", 0)]],
               "where": ["cplx", "and", ["t", cmpi("a", "gte", 1)], ["not", ["cplx", "or", ["t", cmpi("b", "eq", 2)], ["t", cmpi("c", "eq", 3)]]]]}),
        sel(**{"from": [T("t")], "selects": [["t", F("a", 0)], ["t", cnt]], "groupby": [["t", F("a", 0)]], "having": ["t", h]}),
        sel(**{"from": [T("t")], "joins": [["left", T("u"), ["on", ["t", onc]]]], "selects": [["t", F("id", 0)], ["t", F("b", 1)]]}))]


def correlated_cases():
    """correlated sub-queries (EXISTS / IN / scalar comparison in WHERE, comparison in HAVING, scalar sub-query in the
    select list) over tables sharing all column names; the inner WHERE is issued as 2-3 where() calls with the correlated
    conjunct in every position"""
    sel = lambda **kw: dict({"k": "sel", "cls": "SQLLiteQuery", "joins": []}, **kw)
    outer = ["t", [], None]
    corr = ["basic", "eq", F("a", 0), ["field", "id", outer, None], None]          # u.a = t.id
    l1 = ["basic", "gt", F("b", 0), I(0), None]
    l2 = ["basic", "lte", F("c", 0), I(5), None]
    orders = [[corr, l1], [l1, corr], [corr, l1, l2], [l1, corr, l2], [l1, l2, corr]]

    def inner(conj, item_level, selects):
        if item_level:
            w = ["t", conj[0]]
            for x in conj[1:]:
                w = ["cplx", "and", w, ["t", x]]
        else:
            t = conj[0]
            for x in conj[1:]:
                t = ["cplx", "and", t, x, None]
            w = ["t", t]
        return sel(**{"from": [T("u")], "selects": selects, "where": w, "where_split": True})
    out = []
    for n, conj in enumerate(orders):
        il = n % 2 == 0
        col = inner(conj, il, [["t", F("id", 0)]])
        agg = inner(conj, il, [["t", ["func", "MAX", [F("b", 0)], None]]])
        cnt = ["func", "COUNT", [["star", None]], None]
        out += [
            sel(**{"from": [T("t")], "selects": [["t", F("id", 0)], ["t", F("a", 0)]], "where": ["exists", col, False]}),
            sel(**{"from": [T("t")], "selects": [["t", F("id", 0)], ["t", F("b", 0)]], "where": ["in", F("b", 0), col, n % 2 == 1]}),
            sel(**{"from": [T("t")], "selects": [["t", F("id", 0)]], "where": ["cmp", "gte", F("b", 0), agg]}),
            sel(**{"from": [T("t")], "selects": [["t", F("id", 0)], ["sub", dict(agg, alias="m")]]}),
        ]
    # in HAVING the sub-query is correlated with the group key
    for conj in orders[:3]:
        agg = inner([["basic", "eq", F("a", 0), ["field", "a", outer, None], None]] + conj[1:] if conj[0] is corr else
                    [conj[0], ["basic", "eq", F("a", 0), ["field", "a", outer, None], None]] + conj[2:], True,
                    [["t", ["func", "MIN", [F("b", 0)], None]]])
        out.append(sel(**{"from": [T("t")], "selects": [["t", F("a", 0)], ["t", ["func", "SUM", [F("b", 0)], None]]],
                          "groupby": [["t", F("a", 0)]], "having": ["cmp", "gt", ["func", "SUM", [F("b", 0)], None], agg]}))
    return [{"kind": "sq", "order": None, "spec": x} for x in out]


BRACES = ["{", "}", "{}", "{0}", "{name}", "{{name}}", "{{", "x{y}z"]


def brace_cases():
    """string literals containing braces in every sub-query position: joined sub-query (ON / USING / CROSS), FROM, IN,
    EXISTS, scalar comparison, select list -- in the sub-query's select list and in its WHERE"""
    sel = lambda **kw: dict({"k": "sel", "cls": "SQLLiteQuery", "joins": []}, **kw)
    S_ = lambda v: ["vals", v, None]
    out = []
    for n, b in enumerate(BRACES):
        b2 = BRACES[(n + 3) % len(BRACES)]
        sub = sel(**{"from": [T("u")], "selects": [["t", F("a", 0)], ["t", ["func", "COALESCE", [F("s", 0), S_(b)], "lbl"]]],
                     "where": ["t", ["cplx", "or", ["basic", "ne", F("s", 0), S_(b2), None], ["isnull", F("s", 0), None], None]]})
        on = ["on", ["t", ["basic", "eq", F("a", 0), F("a", 1), None]]]
        how, cond = [("left", on), ("inner", ["using", ["a"]]), ("cross", ["cross"]), ("right", on)][n % 4]
        out.append(sel(**{"from": [T("t")], "joins": [[how, ["q", sub], cond]],
                          "selects": [["t", F("id", 0)], ["t", F("lbl", 1)]]}))
        out.append(sel(**{"from": [["q", sub]], "selects": [["t", F("a", 0)], ["t", F("lbl", 0)]],
                          "where": ["t", ["basic", "ne", F("lbl", 0), S_(b2), None]]}))
        col = sel(**{"from": [T("v")], "selects": [["t", F("s", 0)]], "where": ["t", ["in", F("s", 0), ["tuple", [S_(b), S_(b2), S_("x")], None], False, None]]})
        out.append(sel(**{"from": [T("t")], "selects": [["t", F("id", 0)], ["t", F("s", 0)]], "where": ["in", F("s", 0), col, n % 2 == 1]}))
        out.append(sel(**{"from": [T("t")], "selects": [["t", F("id", 0)], ["sub", dict(sel(**{"from": [T("v")], "selects": [["t", ["func", "MAX", [["func", "COALESCE", [F("s", 0), S_(b)], None]], None]]]}), alias="m")]],
                          "where": ["exists", sel(**{"from": [T("u")], "selects": [["t", F("id", 0)]],
                                                     "where": ["t", ["basic", "eq", F("s", 0), S_(b), None]]}), n % 2 == 0]}))
    return [{"kind": "sq", "order": o, "spec": x} for o, x in zip([None, 5] * len(out), out)]


def empty_in_cases():
    """x IN () / x NOT IN () -- alone, under AND, under OR, under NOT, in HAVING, in ON and inside a sub-query; several
    seeds each, so that the list goes through Term.isin([]) / Term.notin([]) as well as through ContainsCriterion"""
    sel = lambda **kw: dict({"k": "sel", "cls": "SQLLiteQuery", "joins": []}, **kw)
    ein = lambda c, neg, i=0: ["in", F(c, i), ["tuple", [], None], neg, None]
    gt = ["basic", "gt", F("b", 0), I(0), None]
    base = lambda w: sel(**{"from": [T("t")], "selects": [["t", F("id", 0)], ["t", F("a", 0)]], "where": w})
    cnt = ["func", "COUNT", [["star", None]], None]
    specs = [base(["t", ein("a", False)]), base(["t", ein("a", True)]),
             base(["t", ["cplx", "and", gt, ein("a", False), None]]), base(["t", ["cplx", "or", ein("a", False), gt, None]]),
             base(["cplx", "and", ["t", gt], ["t", ein("s", True)]]), base(["t", ["not", ein("a", False), None]]),
             sel(**{"from": [T("t")], "selects": [["t", F("a", 0)], ["t", cnt]], "groupby": [["t", F("a", 0)]],
                    "having": ["t", ["in", ["func", "SUM", [F("b", 0)], None], ["tuple", [], None], False, None]]}),
             sel(**{"from": [T("t")], "joins": [["left", T("u"), ["on", ["t", ["cplx", "and", ["basic", "eq", F("a", 0), F("a", 1), None], ein("b", False, 1), None]]]]],
                    "selects": [["t", F("id", 0)], ["t", F("id", 1)]]}),
             base(["exists", sel(**{"from": [T("u")], "selects": [["t", F("id", 0)]], "where": ["t", ein("a", False)]}), True])]
    return [{"kind": "sq", "order": 2000 + k, "spec": x} for x in specs for k in range(4)]


def subquery_operand_cases():
    """the scalar sub-query SELECT "x" FROM "u" (the shared term family's sub-query; x is the same in every row) in every
    operand position -- left of IN / NOT IN, IN container, BETWEEN subject and bounds, IS [NOT] NULL operand, both sides
    of a comparison and of an arithmetic operator, under unary minus, as function argument, as CASE branch and inside a
    CASE condition -- in WHERE, in HAVING and in the select list"""
    sel = lambda **kw: dict({"k": "sel", "cls": "SQLLiteQuery", "joins": []}, **kw)
    SUB = ["sub", None]
    lst = ["tuple", [I(1), I(2)], None]
    b = F("b", 0)
    crits = [
        ("in-left", ["in", SUB, lst, False, None]), ("notin-left", ["in", SUB, ["tuple", [I(5)], None], True, None]),
        ("in-container", ["in", b, SUB, False, None]),
        ("between-subject", ["between", SUB, I(0), b, None]), ("between-lo", ["between", b, SUB, I(5), None]),
        ("between-hi", ["between", b, I(0), SUB, None]),
        ("isnull", ["isnull", SUB, None]), ("notnull", ["notnull", SUB, None]),
        ("cmp-left", ["basic", "gte", SUB, b, None]), ("cmp-right", ["basic", "lt", b, SUB, None]),
        ("arith-left", ["basic", "gt", ["arith", "sub", SUB, b, None], I(0), None]),
        ("arith-right", ["basic", "lte", ["arith", "sub", b, SUB, None], I(1), None]),
        ("mul-right", ["basic", "eq", ["arith", "mul", b, SUB, None], I(4), None]),
        ("neg", ["basic", "lt", ["neg", SUB], b, None]),
        ("func-arg", ["basic", "eq", ["func", "COALESCE", [SUB, I(1)], None], b, None]),
        ("case-branch", ["basic", "eq", ["case", [[["basic", "gt", b, I(1), None], SUB]], ["neg", SUB], None], I(2), None]),
        ("case-condition", ["basic", "eq", ["case", [[["basic", "gt", SUB, b, None], I(1)]], I(0), None], I(1), None]),
    ]
    out = []
    for name, c in crits:
        out.append(sel(**{"from": [T("t")], "selects": [["t", F("id", 0)], ["t", b]], "where": ["t", c]}))
    # the same operands as values in the select list (a criterion there is a 0/1 value)
    nums = [["arith", "add", SUB, b, None], ["arith", "div", b, SUB, None], ["neg", SUB], ["func", "ABS", [SUB], None],
            ["case", [[["basic", "gt", b, SUB, None], SUB]], I(0), None], SUB]
    out.append(sel(**{"from": [T("t")], "selects": [["t", F("id", 0)]] + [["t", n] for n in nums]}))
    for name, c in crits:
        out.append(sel(**{"from": [T("t")], "selects": [["t", F("id", 0)], ["t", c]]}))
    # HAVING: the same positions next to an aggregate
    agg = ["func", "SUM", [F("b", 0)], None]
    for name, c in [("in-left", ["in", SUB, lst, False, None]), ("cmp-right", ["basic", "gt", agg, SUB, None]),
                    ("between-hi", ["between", agg, I(0), ["arith", "mul", SUB, I(3), None], None]),
                    ("arith-left", ["basic", "lt", ["arith", "add", SUB, agg, None], I(9), None]),
                    ("in-container", ["in", agg, SUB, True, None])]:
        out.append(sel(**{"from": [T("t")], "selects": [["t", F("a", 0)], ["t", agg]], "groupby": [["t", F("a", 0)]], "having": ["t", c]}))
    return [{"kind": "sq", "order": None, "spec": x} for x in out]


def rejoin_cases():
    """an un-aliased table joined to itself while real tables named like the candidate aliases (t2, t3) are sources too"""
    sel = lambda **kw: dict({"k": "sel", "cls": "SQLLiteQuery", "joins": []}, **kw)
    on = lambda i, j, c="a": ["on", ["t", ["basic", "eq", F(c, i), F(c, j), None]]]
    specs = [
        sel(**{"from": [T("t")], "joins": [["inner", T("t2"), on(0, 1)], ["left", T("t"), on(0, 2, "id")]],
               "selects": [["t", F("id", 0)], ["t", F("b", 1)], ["t", F("b", 2, "again")]]}),
        sel(**{"from": [T("t"), T("t2")], "joins": [["left_outer", T("t"), on(0, 2, "id")]],
               "selects": [["t", F("id", 0)], ["t", F("c", 1)], ["t", F("c", 2, "again")]],
               "where": ["t", ["basic", "eq", F("a", 0), F("a", 1), None]]}),
        sel(**{"from": [T("t")], "joins": [["inner", T("t2"), on(0, 1)], ["inner", T("t3"), on(0, 2)], ["inner", T("t"), on(0, 3, "id")],
                                            ["left", T("t"), on(3, 4, "id")]],
               "selects": [["t", F("id", 0)], ["t", F("b", 1)], ["t", F("b", 2, "b3")], ["t", F("b", 3, "b4")], ["t", F("b", 4, "b5")]]}),
        sel(**{"from": [T("t")], "joins": [["inner", T("u", "t2"), on(0, 1)], ["left", T("t"), on(0, 2, "id")]],
               "selects": [["t", F("id", 0)], ["t", F("b", 1)], ["t", F("b", 2, "again")]]}),
    ]
    return [{"kind": "sq", "order": o, "spec": x} for x in specs for o in (None, 11)]


def negative_cases():
    """unary minus over every kind of compound operand, shifts included (-(a>>1) is not -a>>1 for odd a)"""
    sel = lambda **kw: dict({"k": "sel", "cls": "SQLLiteQuery", "joins": []}, **kw)
    a, b = F("a", 0), F("b", 0)
    ar = lambda op, l, r: ["arith", op, l, r, None]
    terms = [["neg", ar(op, a, r)] for op, r in (("rshift", I(1)), ("rshift", I(2)), ("lshift", I(1)), ("mul", b), ("div", I(2)),
                                                 ("add", b), ("sub", b), ("rshift", b))]
    terms += [["neg", ["neg", a]], ar("sub", b, ["neg", ar("rshift", a, I(1))]), ar("mul", ["neg", ar("rshift", a, I(1))], I(3)),
              ar("rshift", ["neg", a], I(1)), ar("add", ar("rshift", a, I(1)), b), ar("rshift", ar("add", a, b), I(1))]
    out = [sel(**{"from": [T("t")], "selects": [["t", F("id", 0)], ["t", a]] + [["t", t] for t in terms[:7]]}),
           sel(**{"from": [T("v")], "selects": [["t", F("id", 0)], ["t", a], ["t", b]] + [["t", t] for t in terms[7:]]})]
    for t in terms[:3] + terms[9:11]:
        out.append(sel(**{"from": [T("u")], "selects": [["t", F("id", 0)], ["t", a]], "where": ["t", ["basic", "lt", t, I(-1), None]]}))
    return [{"kind": "sq", "order": None, "spec": x} for x in out]


def round6_cases():
    """columns named like attributes of a Selectable (alias, star) reached through the subscript spelling table["col"] /
    subquery["col"] (several seeds, so the spelling is taken); window functions whose PARTITION BY comes from two and
    three chained over() calls and whose ORDER BY comes from several orderby() calls"""
    sel = lambda **kw: dict({"k": "sel", "cls": "SQLLiteQuery", "joins": []}, **kw)
    sub = sel(**{"from": [T("u")], "selects": [["t", F("alias", 0)], ["t", F("star", 0)], ["t", F("a", 0, "field")]]})
    specs = [
        sel(**{"from": [T("t")], "selects": [["t", F("id", 0)], ["t", F("alias", 0)], ["t", F("star", 0)]],
               "where": ["t", ["basic", "gte", F("alias", 0), F("star", 0), None]], "orderby": [[["t", F("star", 0)], "desc"]]}),
        sel(**{"from": [T("t", "x")], "joins": [["left", T("v"), ["on", ["t", ["basic", "eq", F("alias", 0), F("alias", 1), None]]]]],
               "selects": [["t", F("star", 0)], ["t", F("star", 1, "s2")], ["t", ["func", "COUNT", [F("alias", 1)], None]]],
               "groupby": [["t", F("star", 0)], ["t", F("star", 1, "s2")]]}),
        sel(**{"from": [["q", sub]], "selects": [["t", F("alias", 0)], ["t", F("star", 0)], ["t", F("field", 0)]],
               "where": ["t", ["notnull", F("alias", 0), None]]}),
    ]
    out = [{"kind": "sq", "order": 3000 + k, "spec": x} for x in specs for k in range(5)]
    from harness.c04.sqlite_ref import COLS
    total = [[F(c, 0), [None, "desc", "asc"][n % 3]] for n, c in enumerate(COLS)]
    wins = [["t", ["win", "SUM", [F("b", 0)], part, obs, None, "w%d" % n]] for n, (part, obs) in enumerate([
        ([F("a", 0), F("c", 0)], [[F("id", 0), None]]), ([F("c", 0), F("a", 0), F("id", 0)], [[F("b", 0), "desc"], [F("star", 0), None]]),
        ([F("alias", 0), F("star", 0)], total), ([F("a", 0)], [[F("b", 0), None], [F("c", 0), "desc"], [F("id", 0), None]])])]
    wins.append(["t", ["win", "RANK", [], [F("c", 0), F("a", 0)], [[F("b", 0), "desc"], [F("id", 0), None]], None, "rk"]])
    out.append({"kind": "sq", "order": None,
                "spec": sel(**{"from": [T("t")], "selects": [["t", F(c, 0)] for c in COLS] + wins})})
    return out


def corpus():
    sel = lambda **kw: dict({"k": "sel", "cls": "SQLLiteQuery", "joins": []}, **kw)
    cnt = ["func", "COUNT", [["star", None]], None]
    return round6_cases() + rejoin_cases() + negative_cases() + subquery_operand_cases() + brace_cases() + empty_in_cases() + correlated_cases() + window_frame_cases() + form_cases() + naming_cases() + not_cases() + [
        # F1: GROUP BY replaced by the select alias "b", which SQLite binds to the column t.b
        {"kind": "sq", "order": None, "spec": sel(
            **{"from": [T("t")], "selects": [["t", ["arith", "add", F("a", 0), I(1), "b"]], ["t", cnt]],
               "groupby": [["t", ["arith", "add", F("a", 0), I(1), "b"]]]})},
        # F2: HAVING with a comparison against a sub-query / EXISTS: no parentheses
        {"kind": "sq", "order": None, "spec": sel(
            **{"from": [T("t")], "selects": [["t", F("a", 0)], ["t", ["func", "SUM", [F("b", 0)], None]]],
               "groupby": [["t", F("a", 0)]],
               "having": ["cmp", "gt", ["func", "SUM", [F("b", 0)], None],
                          sel(**{"from": [T("u")], "selects": [["t", ["func", "MAX", [F("a", 0)], None]]]})]})},
        {"kind": "sq", "order": None, "spec": sel(
            **{"from": [T("t")], "selects": [["t", F("a", 0)], ["t", cnt]], "groupby": [["t", F("a", 0)]],
               "having": ["exists", sel(**{"from": [T("u")], "selects": [["t", F("a", 0)]]}), False]})},
        # F3: ORDER BY a scalar sub-query: no parentheses
        {"kind": "sq", "order": None, "spec": sel(
            **{"from": [T("t")], "selects": [["t", F("a", 0)]],
               "orderby": [[["sub", sel(**{"from": [T("u")], "selects": [["t", ["func", "MAX", [F("a", 0)], None]]]})], None]]})},
        # F4: x*(y/z) rendered x*y/z -- integer division
        {"kind": "sq", "order": None, "spec": sel(
            **{"from": [T("t")], "selects": [["t", ["arith", "mul", F("a", 0), ["arith", "div", F("b", 0), I(2), None], None]],
                                             ["t", F("a", 0)], ["t", F("b", 0)]]})},
        # F5: ORDER BY t.b rendered as the bare name "b", which SQL binds to the output column "b" (= a*-1)
        {"kind": "sq", "order": None, "spec": sel(
            **{"from": [T("t")], "selects": [["t", ["arith", "mul", F("a", 0), I(-1), "b"]], ["t", F("b", 0, "n")]],
               "orderby": [[["t", F("b", 0)], None]]})},
        # shapes that must stay right
        {"kind": "sq", "order": 1, "spec": sel(
            **{"from": [T("t")], "joins": [["inner", T("v"), ["using", ["id"]]],
                                            ["left", T("u", "x"), ["on", ["t", ["basic", "eq", F("a", 0), F("a", 2), None]]]]],
               "distinct": True,
               "selects": [["t", ["arith", "add", F("a", 0), I(1), "al"]], ["t", F("b", 2)], ["t", ["func", "SUM", [F("c", 1)], None]]],
               "where": ["t", ["cplx", "and", ["basic", "gt", F("a", 0), I(0), None],
                               ["cplx", "or", ["isnull", F("b", 2), None], ["basic", "lt", F("c", 2), I(5), None], None], None]],
               "groupby": [["t", ["arith", "add", F("a", 0), I(1), "al"]], ["t", F("b", 2)]],
               "having": ["t", ["basic", "gt", ["func", "SUM", [F("c", 1)], None], I(0), None]],
               "orderby": [[["t", ["arith", "add", F("a", 0), I(1), "al"]], "desc"], [["t", F("b", 2)], None],
                           [["t", ["func", "SUM", [F("c", 1)], None]], "asc"]],
               "limit": 10, "offset": 1})},
        {"kind": "sq", "order": 2, "spec": sel(
            **{"with": [["cte", sel(**{"from": [T("u")], "selects": [["t", F("a", 0)], ["t", F("b", 0, "n")]]})]],
               "from": [T("t"), ["a", "cte"]],
               "selects": [["t", F("a", 0)], ["t", F("n", 1)]],
               "where": ["cplx", "and", ["t", ["basic", "eq", F("a", 0), F("a", 1), None]],
                         ["exists", sel(**{"from": [T("v")], "selects": [["t", F("a", 0)]],
                                           "where": ["t", ["basic", "eq", F("a", 0), ["field", "b", ["t", [], None], None], None]]}), False]]})},
        {"kind": "sq", "order": 3, "spec": sel(
            **{"from": [["q", sel(**{"from": [T("u")], "selects": [["t", F("a", 0)], ["t", ["func", "SUM", [F("b", 0)], "total"]]],
                                     "groupby": [["t", F("a", 0)]]})]],
               "joins": [["right_outer", T("t"), ["on", ["t", ["basic", "eq", F("a", 0), F("a", 1), None]]]]],
               "selects": [["t", F("total", 0)], ["t", F("s", 1)],
                           ["t", ["win", "RANK", [], [F("a", 1)], [[F("total", 0), "desc"]], None, "rk"]]]})},
    ]


# ----------------------------------------------------------------------------------------------
# implementation
# ----------------------------------------------------------------------------------------------
_STATS = {}


def _stat(k):
    _STATS[k] = _STATS.get(k, 0) + 1


def run_impl(case):
    if case["kind"] == "gen":
        return {"text": qf.render_impl(case["spec"])}
    j = orc.judge_spec(case["spec"], case.get("order"))
    _stat("verdict=" + j["verdict"] + (":" + j["why"].split(":")[0][:40] if j["verdict"] == "not-judged" else ""))
    out = {"text": j["text"], "verdict": j["verdict"], "trace": j.get("trace")}
    for k in ("what", "why", "ref", "detail"):
        if k in j:
            out[k] = j[k]
    if j["verdict"] == "differs":
        out["signature"] = orc.classify(case["spec"], case.get("order"), j)
    return out


SOFT = (["C04", "groupby", "alias-of-select-item", "captured-by-source-column"], ["C04", "expression", "mul-over-div", "reassociated"],
        ["C04", "orderby", "unqualified-column", "captured-by-select-alias"])      # F6 statements contain a TSub: never in the fragment


def _sub_arith_operand(spec):
    """a scalar sub-query as a direct operand of an arithmetic operator: in a subquery=True position pypika renders it
    with doubled parentheses, ((SELECT ...))-"b", coq/Terms.v (shared, not mine) with single ones -- harmless for the
    engine; such statements are judged by the oracle only until the shared model follows"""
    found = []

    def f(t):
        if t[0] == "arith" and any(isinstance(x, list) and x and x[0] == "sub" for x in (t[2], t[3])):
            found.append(1)
    for it in sp.all_items(spec):
        for t_ in sp.item_terms(it):
            sp.walk_terms(t_, f)
    return bool(found)


def to_coq(case, outcome):
    if case["kind"] == "sq" and (sp.has_window(case["spec"]) or _sub_arith_operand(case["spec"])):
        return None           # window functions are not in the shared term model; see _sub_arith_operand
    hv = 0
    if case["kind"] == "sq":
        if outcome.get("verdict") == "same":
            hv = 1
        elif outcome.get("verdict") == "differs" and outcome.get("signature") not in [list(x) for x in SOFT]:
            hv = 2
    return P(qf.coq_query(case["spec"]), S(outcome["text"]), N(hv))


# ----------------------------------------------------------------------------------------------
# oracle: the property's observable -- result sets on a real engine
# ----------------------------------------------------------------------------------------------
def oracle(case, outcome):
    if case["kind"] != "sq" or outcome.get("verdict") != "differs":
        return []
    return [{"signature": outcome["signature"],
             "what": "pypika's text %r vs the explicit text %r: %s" % (outcome.get("text"), outcome.get("ref"), outcome.get("why"))}]


def nontrivial_key(case):
    s = case["spec"]
    if case["kind"] != "sq":
        return None
    sh = sp.shape(s)
    feats = sum(1 for k in ("where", "groupby", "orderby", "limit", "distinct", "with") if sh.get(k)) \
        + (1 if any(k.startswith("join:") for k in sh) else 0) + (1 if sh.get("stmt@1") else 0)
    return json.dumps(s, sort_keys=True) if feats >= 2 else None


def histogram(cases):
    h = {}
    for c in cases:
        h["kind=" + c["kind"]] = h.get("kind=" + c["kind"], 0) + 1
        if c["kind"] == "sq":
            for k, v in sp.shape(c["spec"]).items():
                h[k] = h.get(k, 0) + v
            h["order=" + ("fixed" if c.get("order") is None else "shuffled")] = h.get("order=" + ("fixed" if c.get("order") is None else "shuffled"), 0) + 1
        else:
            h["cls=" + c["spec"]["cls"]] = h.get("cls=" + c["spec"]["cls"], 0) + 1
    h.update(_STATS)
    return h


def targeted_search(rng, broken, mism_cases):
    """a denser batch; every disagreeing specification under several other call orders; small single-clause statements"""
    out = []
    for c in mism_cases:
        if c["kind"] == "sq":
            for k in range(4):
                out.append({"kind": "sq", "spec": c["spec"], "order": rng.randrange(10 ** 6)})
    g = sp.SGen(rng)
    gs = sp.SGen(rng, p_subq=0.15, max_depth=1)
    for i in range(1500):
        s = (g if i % 2 else gs).top(windows=(i % 7 == 0))
        out.append({"kind": "sq", "spec": s, "order": rng.randrange(10 ** 6)})
    return out
