"""C04 — SELECT statements mean what was built (checked on a real engine).

Syntactic half (Coq): coq/Select.v on top of the shared statement model coq/Query.v and the C02 grammar
(coq/Parse.v, C02Model.v, C02Frag.v): clause skeleton of Query.rquery, statement-level print/parse theorem, reader
theorem on the fragment; clause order / item flags regenerated from pypika/queries.py into coq/gen/C04Table.v.
Engine half (validated on every run, also the oracle): harness/c04/sqlite_ref.py renders the specification into
maximally explicit SQLite SQL without pypika; both texts run on two seeded in-memory databases."""
import json

from harness import queries_family as qf
from harness.lib import S, P, N
from harness.c04 import spec as sp
from harness.c04 import sqlite_ref as sr
from harness.c04 import build as bd
from harness.c04 import oracle as orc

ID = "C04"
COQ_PROP = "props/C04.v"
CORR_REQUIRE = ["Crit", "gen.TermsTable", "Terms", "Page", "gen.QueryTable", "Query", "QueryCorr", "Parse", "C02Model",
                "C02Frag", "gen.C04Table", "Select", "SelectCorr"]
CORR_CHECK = "check_c04"
CORR_SHOW = "show_c04"
GEN_FILES = ["gen/C04Table.v"]
SHARED_EXTRACT = ["terms", "query"]
SHARD = 60
RULE = ("typed random SELECT specifications for SQLLiteQuery (1-3 sources: tables incl. an attached schema, aliased tables, "
        "sub-queries with and without alias, WITH + AliasedQuery; joins of every SQLite type ON/USING/CROSS, the same table "
        "twice; WHERE/ON with IN/EXISTS/comparison sub-queries, correlated or not; GROUP BY/HAVING with SUM/COUNT/MIN/MAX/AVG; "
        "DISTINCT; ORDER BY with and without alias substitution; LIMIT/OFFSET under a total order; sub-queries in the select "
        "list and as function arguments; window functions; aliases that collide with column names), each built on pypika "
        "with the clause-adding calls in a random legal interleaving, rendered, and executed next to an explicit reference "
        "text (written without pypika) on two seeded SQLite databases with NULLs and duplicate rows; plus a stream of "
        "statements of all ten classes for the text correspondence of the statement model. Non-trivial = at least two of "
        "{join, sub-query, group by, order by, limit, distinct, with}; distinct by structural hash.")
TRUSTED = [
    "SQLite 3.40.1 (python sqlite3) as the engine; harness/c04/sqlite_ref.py (reference renderer, ~250 lines, no pypika import)",
    "harness/c04/build.py + harness/queries_family.py build the same specification on pypika and as a Gallina value",
    "coq/Query.v (shared statement model, tied to pypika by the text correspondence on every run)",
    "engine precedence table `sqlite` of coq/C02Model.v; tokenisation of the rendered text (flat_toks) is checked per case "
    "(sflatten = pypika's text), the lexer itself is not modelled",
    "harness/c04/extract.py: fail-closed ast walk of QueryBuilder.get_sql and the clause renderers",
]
ASSUMPTIONS = [
    "engine half is VALIDATED, not proved: 'SQLite accepts the text and returns the same rows as the explicit text' is "
    "observed on two seeded databases per case; Coq proves only that the text is the specified clause sequence and that "
    "every expression of the fragment re-parses (sqlite precedence table) to the specified tree",
    "a page (LIMIT/OFFSET) of a result without total order is compared by acceptance and row count only; the generator "
    "attaches a total ORDER BY to every LIMIT",
    "window functions, sub-queries inside expressions and WITH are outside the Coq reader fragment (flat statements); "
    "they are covered by the skeleton theorem (sub-queries, WITH), the text correspondence and the engine oracle "
    "(window functions: oracle only)",
]


def extract():
    from harness.c04 import extract as ex
    return {"gen/C04Table.v": ex.table_text()}


# ----------------------------------------------------------------------------------------------
# cases
# ----------------------------------------------------------------------------------------------
def gen_cases(rng, tier):
    n_sq = 1200 if tier == "quick" else 30000
    n_gen = 200 if tier == "quick" else 3000
    out = []
    g = sp.SGen(rng)
    gflat = sp.SGen(rng, p_subq=0.0, max_depth=0, p_with=0.0)
    gdef = sp.SGen(rng, p_defect=0.6)
    for i in range(n_sq):
        r = rng.random()
        if r < 0.12:
            s = g.top(windows=True)
        elif r < 0.32:
            s = gflat.top()
        elif r < 0.36:
            s = gdef.top()
        else:
            s = g.top()
        out.append({"kind": "sq", "spec": s, "order": None if rng.random() < 0.2 else rng.randrange(10 ** 6)})
    qg = qf.QGen(rng, p_subq=0.25, max_depth=2)
    for i in range(n_gen):
        out.append({"kind": "gen", "spec": qg.select(qg.cls())})
    return out


T = lambda n, a=None: ["t", [n, [], a]]
F = lambda c, i, a=None: ["field", c, ["#%d" % i, [], None], a]
I = lambda z: ["vali", z, None]


def corpus():
    sel = lambda **kw: dict({"k": "sel", "cls": "SQLLiteQuery", "joins": []}, **kw)
    cnt = ["func", "COUNT", [["star", None]], None]
    return [
        # F1: GROUP BY replaced by the select alias "b", which SQLite binds to the column t.b
        {"kind": "sq", "order": None, "spec": sel(
            **{"from": [T("t")], "selects": [["t", ["arith", "add", F("a", 0), I(1), "b"]], ["t", cnt]],
               "groupby": [["t", ["arith", "add", F("a", 0), I(1), "b"]]]})},
        # F2: HAVING with a comparison against a sub-query / EXISTS: no parentheses
        {"kind": "sq", "order": None, "spec": sel(
            **{"from": [T("t")], "selects": [["t", F("a", 0)], ["t", ["func", "SUM", [F("b", 0)], None]]],
               "groupby": [["t", F("a", 0)]],
               "having": ["cmp", "gt", ["func", "SUM", [F("b", 0)], None],
                          sel(**{"from": [T("u")], "selects": [["t", ["func", "MAX", [F("a", 0)], None]]]})]})},
        {"kind": "sq", "order": None, "spec": sel(
            **{"from": [T("t")], "selects": [["t", F("a", 0)], ["t", cnt]], "groupby": [["t", F("a", 0)]],
               "having": ["exists", sel(**{"from": [T("u")], "selects": [["t", F("a", 0)]]}), False]})},
        # F3: ORDER BY a scalar sub-query: no parentheses
        {"kind": "sq", "order": None, "spec": sel(
            **{"from": [T("t")], "selects": [["t", F("a", 0)]],
               "orderby": [[["sub", sel(**{"from": [T("u")], "selects": [["t", ["func", "MAX", [F("a", 0)], None]]]})], None]]})},
        # F4: x*(y/z) rendered x*y/z -- integer division
        {"kind": "sq", "order": None, "spec": sel(
            **{"from": [T("t")], "selects": [["t", ["arith", "mul", F("a", 0), ["arith", "div", F("b", 0), I(2), None], None]],
                                             ["t", F("a", 0)], ["t", F("b", 0)]]})},
        # F5: ORDER BY t.b rendered as the bare name "b", which SQL binds to the output column "b" (= a*-1)
        {"kind": "sq", "order": None, "spec": sel(
            **{"from": [T("t")], "selects": [["t", ["arith", "mul", F("a", 0), I(-1), "b"]], ["t", F("b", 0, "n")]],
               "orderby": [[["t", F("b", 0)], None]]})},
        # shapes that must stay right
        {"kind": "sq", "order": 1, "spec": sel(
            **{"from": [T("t")], "joins": [["inner", T("v"), ["using", ["id"]]],
                                            ["left", T("u", "x"), ["on", ["t", ["basic", "eq", F("a", 0), F("a", 2), None]]]]],
               "distinct": True,
               "selects": [["t", ["arith", "add", F("a", 0), I(1), "al"]], ["t", F("b", 2)], ["t", ["func", "SUM", [F("c", 1)], None]]],
               "where": ["t", ["cplx", "and", ["basic", "gt", F("a", 0), I(0), None],
                               ["cplx", "or", ["isnull", F("b", 2), None], ["basic", "lt", F("c", 2), I(5), None], None], None]],
               "groupby": [["t", ["arith", "add", F("a", 0), I(1), "al"]], ["t", F("b", 2)]],
               "having": ["t", ["basic", "gt", ["func", "SUM", [F("c", 1)], None], I(0), None]],
               "orderby": [[["t", ["arith", "add", F("a", 0), I(1), "al"]], "desc"], [["t", F("b", 2)], None],
                           [["t", ["func", "SUM", [F("c", 1)], None]], "asc"]],
               "limit": 10, "offset": 1})},
        {"kind": "sq", "order": 2, "spec": sel(
            **{"with": [["cte", sel(**{"from": [T("u")], "selects": [["t", F("a", 0)], ["t", F("b", 0, "n")]]})]],
               "from": [T("t"), ["a", "cte"]],
               "selects": [["t", F("a", 0)], ["t", F("n", 1)]],
               "where": ["cplx", "and", ["t", ["basic", "eq", F("a", 0), F("a", 1), None]],
                         ["exists", sel(**{"from": [T("v")], "selects": [["t", F("a", 0)]],
                                           "where": ["t", ["basic", "eq", F("a", 0), ["field", "b", ["t", [], None], None], None]]}), False]]})},
        {"kind": "sq", "order": 3, "spec": sel(
            **{"from": [["q", sel(**{"from": [T("u")], "selects": [["t", F("a", 0)], ["t", ["func", "SUM", [F("b", 0)], "total"]]],
                                     "groupby": [["t", F("a", 0)]]})]],
               "joins": [["right_outer", T("t"), ["on", ["t", ["basic", "eq", F("a", 0), F("a", 1), None]]]]],
               "selects": [["t", F("total", 0)], ["t", F("s", 1)],
                           ["t", ["win", "RANK", [], [F("a", 1)], [[F("total", 0), "desc"]], None, "rk"]]]})},
    ]


# ----------------------------------------------------------------------------------------------
# implementation
# ----------------------------------------------------------------------------------------------
_STATS = {}


def _stat(k):
    _STATS[k] = _STATS.get(k, 0) + 1


def run_impl(case):
    if case["kind"] == "gen":
        return {"text": qf.render_impl(case["spec"])}
    j = orc.judge_spec(case["spec"], case.get("order"))
    _stat("verdict=" + j["verdict"] + (":" + j["why"].split(":")[0][:40] if j["verdict"] == "not-judged" else ""))
    out = {"text": j["text"], "verdict": j["verdict"], "trace": j.get("trace")}
    for k in ("what", "why", "ref", "detail"):
        if k in j:
            out[k] = j[k]
    if j["verdict"] == "differs":
        out["signature"] = orc.classify(case["spec"], case.get("order"), j)
    return out


SOFT = (["C04", "groupby", "alias-of-select-item", "captured-by-source-column"], ["C04", "expression", "mul-over-div", "reassociated"],
        ["C04", "orderby", "unqualified-column", "captured-by-select-alias"])


def to_coq(case, outcome):
    if case["kind"] == "sq" and sp.has_window(case["spec"]):
        return None           # window functions are not in the shared term model
    hv = 0
    if case["kind"] == "sq":
        if outcome.get("verdict") == "same":
            hv = 1
        elif outcome.get("verdict") == "differs" and outcome.get("signature") not in [list(x) for x in SOFT]:
            hv = 2
    return P(qf.coq_query(case["spec"]), S(outcome["text"]), N(hv))


# ----------------------------------------------------------------------------------------------
# oracle: the property's observable -- result sets on a real engine
# ----------------------------------------------------------------------------------------------
def oracle(case, outcome):
    if case["kind"] != "sq" or outcome.get("verdict") != "differs":
        return []
    return [{"signature": outcome["signature"],
             "what": "pypika's text %r vs the explicit text %r: %s" % (outcome.get("text"), outcome.get("ref"), outcome.get("why"))}]


def nontrivial_key(case):
    s = case["spec"]
    if case["kind"] != "sq":
        return None
    sh = sp.shape(s)
    feats = sum(1 for k in ("where", "groupby", "orderby", "limit", "distinct", "with") if sh.get(k)) \
        + (1 if any(k.startswith("join:") for k in sh) else 0) + (1 if sh.get("stmt@1") else 0)
    return json.dumps(s, sort_keys=True) if feats >= 2 else None


def histogram(cases):
    h = {}
    for c in cases:
        h["kind=" + c["kind"]] = h.get("kind=" + c["kind"], 0) + 1
        if c["kind"] == "sq":
            for k, v in sp.shape(c["spec"]).items():
                h[k] = h.get(k, 0) + v
            h["order=" + ("fixed" if c.get("order") is None else "shuffled")] = h.get("order=" + ("fixed" if c.get("order") is None else "shuffled"), 0) + 1
        else:
            h["cls=" + c["spec"]["cls"]] = h.get("cls=" + c["spec"]["cls"], 0) + 1
    h.update(_STATS)
    return h


def targeted_search(rng, broken, mism_cases):
    """a denser batch; every disagreeing specification under several other call orders; small single-clause statements"""
    out = []
    for c in mism_cases:
        if c["kind"] == "sq":
            for k in range(4):
                out.append({"kind": "sq", "spec": c["spec"], "order": rng.randrange(10 ** 6)})
    g = sp.SGen(rng)
    gs = sp.SGen(rng, p_subq=0.15, max_depth=1)
    for i in range(1500):
        s = (g if i % 2 else gs).top(windows=(i % 7 == 0))
        out.append({"kind": "sq", "spec": s, "order": rng.randrange(10 ** 6)})
    return out
