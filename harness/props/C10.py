"""C10 — column references resolve to exactly the source they were bound to.
Model: coq/Scope.v (token view of Terms.v / Query.v), lemmas/Scope*.v, props/C10.v; correspondence coq/ScopeCorr.v.

Case kinds
  stmt  : a statement spec of the `queries` family (harness/queries_family.py) extended with
            * "pretag": n on an un-aliased sub-query source  -> the sub-query OBJECT is first handed to another statement,
              which names it sq<n> (object reuse across statements); the Gallina form carries the alias "sq<n>"
            * "set_tbl": true on an UPDATE                     -> SET targets are fields bound to the update table
            * "lookup": {"how": attr|field|item, "refine": as|limit|where, "use": bool} on an explicitly aliased sub-query
              source (third element {"lookup": ..} of an aliased table source) -> the source object has a HISTORY: an
              ancestor object (the table before as_(); the sub-query before limit()/where() and as_()) had the statement's
              column names looked up on it (anc.col / anc.field("col") / anc["col"]), was ("use") a source of an earlier
              statement, and only then the source was derived from it; the columns of the source are then looked up on
              the source object the same way instead of Field(col, table=source).  The spec still describes the final
              object, so the model and the oracle read it like any other source.
          every field bound to a source has a sentinel column name zq<N>, unique per reference
  term  : an expression spec rendered under an explicit keyword context (all its fields carry sentinel names)
  exec  : a SQLLiteQuery statement over the fixed schema t/u/v(id,a,b,c); besides the text it is executed on an in-memory
          database and compared with an explicit, fully qualified reference statement written by this file
"""
import copy
import json
import random
import re
import sqlite3
import zlib

from harness import queries_family as qf
from harness import terms_family as tf
from harness.lib import S, OS, N, L, P

ID = "C10"
COQ_PROP = "props/C10.v"
CORR_REQUIRE = ["Crit", "gen.TermsTable", "Terms", "Page", "gen.QueryTable", "Query", "QueryCorr", "Scope", "ScopeCorr"]
CORR_CHECK = "check_c10"
CORR_SHOW = "show_c10"
SHARED_EXTRACT = ["terms", "query"]
SHARD = 60
RULE = ("grammar-based random statements of the ten query classes (SELECT/INSERT/UPDATE/DELETE/set operations; 1-3 FROM items, "
        "0-2 joins, aliased and un-aliased tables with schema chains of length 0-3, sub-query sources nested up to 3 deep, "
        "sub-queries in select list / WHERE / IN / EXISTS / function arguments, correlated references to outer tables in "
        "WHERE and in other clauses, the same table joined again, sub-query objects already named by another statement) "
        "with a sentinel column name per bound reference; expression trees under random keyword contexts; and SQLLiteQuery "
        "statements over a fixed schema that are executed against an explicit fully qualified reference; histories of from_/join "
        "calls in any order (sub-queries, set operations, re-used objects); systematic small products (auto-naming x source kind x "
        "position, several where() calls x position of the correlating one, name2 x statement kind); and EVERY Term subclass of "
        "pypika (enumerated from the sources, fail closed) x clause x source shape with sentinel columns (oracle only). Non-trivial = at "
        "least one bound reference in a scope with >= 2 row sources or an aliased source; distinct by structural hash.")
TRUSTED = [
    "harness/queries_family.py + this file build the same statement on pypika and as a Gallina value",
    "harness/query_extract.py / terms_extract.py tabulate the real class constants and parenthesisation predicates",
    "oracle: a backwards tokeniser over str(query) (qualifier before each sentinel column) and SQLite 3.40 executing pypika's "
    "text and an explicit fully qualified reference text on seeded rows",
    "in-statement names of the sources are read from the alias attribute of the source objects after construction",
]
ASSUMPTIONS = [
    "a sub-query counts as a scope with more than one row source when it has two or more sources of its own or contains a "
    "reference bound to a table of an enclosing statement (correlated); an uncorrelated single-table sub-query is not required "
    "to qualify its references",
    "user-chosen aliases that collide with each other or with an invented name are the user's business (not reported)",
    "schema-qualified tables are referenced by their bare table name (the property's wording); two same-named tables of "
    "different schemas are therefore ambiguous by specification: remark, not a finding",
]

CLAUSE_CODE = {"select": 0, "on": 1, "where": 2, "groupby": 3, "having": 4, "orderby": 5, "set-value": 6, "set-target": 7,
               "ins-column": 8, "ins-value": 9}
SENT = re.compile(r"zq\d+")


# ----------------------------------------------------------------------------------------------
# building on pypika (with object recording and the two spec extensions)
# ----------------------------------------------------------------------------------------------
class _Build:
    """context manager: temporarily routes the family's recursive builders through this file's extensions"""

    def __init__(self, spec=None):
        self.rec = {}
        self.names = field_names(spec) if spec is not None else []
        self.looked = {}      # id(source object) -> (object, how its columns are looked up: "attr" | "field" | "item")

    def __enter__(self):
        self.o_bq, self.o_bs, self.o_tb = qf.build_query, qf.build_source, tf.build
        rec, o_bq, o_bs, o_tb = self.rec, self.o_bq, self.o_bs, self.o_tb
        names, looked = self.names, self.looked

        def t_build(t, ops=False):
            # a column of a looked-up source is obtained FROM THE SOURCE OBJECT (src.col / src.field("col") / src["col"])
            if t[0] == "field" and t[2] is not None and isinstance(t[2][0], str) and t[2][0].startswith("#"):
                ent = looked.get(id(tf.RESOLVER.get(int(t[2][0][1:]))))
                if ent is not None:
                    f = look_up(ent[0], t[1], ent[1])
                    return f if t[3] is None else f.as_(t[3])
            return o_tb(t, ops)

        def build_looked_up(s, lk):
            """the source has a history: its columns were looked up on an ANCESTOR object (the table before as_(), the
            sub-query before a further builder call and as_()), the ancestor was (optionally) a source of an earlier
            statement, and only then the source object was derived from it (a copy).  The spec describes the final object."""
            from pypika import Query, Table
            how, refine = lk["how"], lk["refine"]
            if s[0] == "t":
                anc = o_bs(["t", [s[1][0], s[1][1], None]])
                alias, steps = s[1][2], []
            else:
                spec = s[1]
                alias, steps, drop = spec["alias"], [], {"lookup", "alias"}
                if refine == "limit" and spec.get("limit") is not None:
                    drop.add("limit")
                    steps.append(lambda o: o.limit(spec["limit"]))
                elif (refine == "where" and spec["k"] == "sel" and spec.get("where") is not None
                      and not spec.get("where_split") and not spec.get("where_first")):
                    drop.add("where")
                    steps.append(lambda o: qf._with_sources(list(o._from) + [j.item for j in o._joins],
                                                            lambda: o.where(qf.build_item(spec["where"]))))
                anc = qf.build_query({k: v for k, v in spec.items() if k not in drop})
            early = [look_up(anc, n, how) for n in names]
            if lk.get("use"):
                pad = Table("pad")
                str(Query.from_(pad).from_(anc).select(pad.x, *early[:3]).where(pad.x == look_up(anc, "id", how)))
            obj = anc
            for st in steps:
                obj = st(obj)
            obj = obj.as_(alias)
            looked[id(obj)] = (obj, how)
            if s[0] == "q":
                rec[id(s[1])] = obj
            return obj

        def base(s2):
            if s2.get("k") == "sel" and s2.get("where_first") and s2.get("where") is not None:
                return _build_where_first(s2)
            return _build_update_bound(s2) if (s2.get("k") == "upd" and s2.get("set_tbl")) else o_bq(s2)

        def build_query(s):
            n = s.get("where_split")
            if n and s.get("where") is not None and s.get("k") in ("sel", "upd", "del"):
                # the WHERE is put together by successive .where() calls: the top-level AND chain, left to right
                parts = unchain_and(s["where"], int(n))
                s2 = dict(s)
                s2["where"] = parts[0]
                s2.pop("where_split")
                obj = base(s2)
                srcs = list(obj._from) + [j.item for j in obj._joins]
                for it in parts[1:]:
                    obj = qf._with_sources(srcs, lambda it=it, obj=obj: obj.where(qf.build_item(it)))
            else:
                obj = base(s)
            rec[id(s)] = obj
            return obj

        def build_source(s):
            lk = (s[1].get("lookup") if s[0] == "q" else (s[2].get("lookup") if s[0] == "t" and len(s) > 2 and s[2] else None))
            if lk:
                return build_looked_up(s, lk)
            if s[0] == "q" and s[1].get("pretag") is not None:
                from pypika import Query, Table
                spec = s[1]
                sub = qf.build_query({k: v for k, v in spec.items() if k not in ("pretag", "alias")})
                host = Query._builder()
                for i in range(int(spec["pretag"])):
                    host = host.from_(Query.from_(Table("pad%d" % i)).select("x"))
                host = host.from_(sub)            # the other statement names the OBJECT: sub.alias == "sq<max(n, own)>"
                rec[id(spec)] = sub
                rec[("tag", id(spec))] = sub.alias
                return sub
            if s[0] == "t" and len(s) > 2 and s[2] and s[2].get("for"):
                return _temporal(o_bs(s), s[2]["for"])
            return o_bs(s)
        qf.build_query, qf.build_source, tf.build = build_query, build_source, t_build
        return self

    def __exit__(self, *a):
        qf.build_query, qf.build_source, tf.build = self.o_bq, self.o_bs, self.o_tb


def look_up(obj, name, how):
    """the column [name] of the source object, obtained from the object: obj.name / obj.field("name") / obj["name"]"""
    if how == "attr" and not name.startswith("_") and not hasattr(type(obj), name) and name not in vars(obj):
        return getattr(obj, name)
    if how == "item":
        return obj[name]
    return obj.field(name)


def field_names(x, out=None):
    """every column name of a field node anywhere in a spec, in order of appearance"""
    out = [] if out is None else out
    if isinstance(x, dict):
        for v in x.values():
            field_names(v, out)
    elif isinstance(x, list):
        if len(x) == 4 and x[0] == "field" and isinstance(x[1], str):
            if x[1] not in out:
                out.append(x[1])
        else:
            for v in x:
                field_names(v, out)
    return out


LOOK_HOW = ["attr", "field", "item"]
LOOK_REFINE = ["as", "limit", "where"]


def add_lookups(q, p=0.6):
    """give a share of the explicitly aliased sub-query / table sources of a statement spec (in place) the look-up history
    of [_Build.build_looked_up].  The choices come from a hash of the spec (the main random stream is left alone)."""
    r = random.Random(zlib.crc32(json.dumps(q, sort_keys=True, default=str).encode()))
    for s, _, _ in all_statements(q):
        for src in own_sources(s):
            lk = {"how": r.choice(LOOK_HOW), "refine": r.choice(LOOK_REFINE), "use": r.random() < 0.7}
            if src[0] == "q" and src[1].get("alias") is not None and src[1].get("pretag") is None and src[1]["k"] in ("sel", "set"):
                if r.random() < p:
                    src[1]["lookup"] = lk
            elif src[0] == "t" and len(src) == 2 and src[1][2] is not None and not src[1][0].startswith("#"):
                if r.random() < p / 3:
                    lk["refine"] = "as"          # (a table has no other refining call)
                    src.append({"lookup": lk})
    return q


def _temporal(tb, kind):
    """the table with a temporal clause: FOR SYSTEM_TIME AS OF .. / FROM .. TO .. / BETWEEN .. / FOR PORTION OF .. (alias kept)"""
    from pypika.terms import SystemTimeValue, Field
    st = SystemTimeValue()
    if kind == "as_of":
        return tb.for_(st.as_of("2020-01-01"))
    if kind == "from_to":
        return tb.for_(st.from_to("2020-01-01", "2020-02-01"))
    if kind == "between":
        return tb.for_(st.between("2020-01-01", "2020-02-01"))
    if kind == "portion":
        return tb.for_portion(st.from_to("2020-01-01", "2020-02-01"))
    if kind == "field":
        return tb.for_(Field("valid_period").between("2020-01-01", "2020-02-01"))
    raise ValueError(kind)


def _build_where_first(s):
    """a SELECT whose (first) where() call precedes every from_() / join(): select(..).where(..).from_(..).join(..)..."""
    import pypika.enums as E
    from pypika import Order
    Q = qf.qclass(s["cls"])
    fobjs = [qf.build_source(x) for x in s.get("from", [])]
    jobjs = [qf.build_source(j[1]) for j in s.get("joins", [])]
    q = Q._builder()
    for name, sub in s.get("with", []):
        q = q.with_(qf.build_query(sub), name)

    def rest(q=q):
        if s.get("selects") and s.get("select_first", True):
            q = q.select(*[qf.build_item(i) for i in s["selects"]])
        q = q.where(qf.build_item(s["where"]))
        for o in fobjs:
            q = q.from_(o)
        for (how, _, cond), o in zip(s.get("joins", []), jobjs):
            j = q.join(o, getattr(E.JoinType, how))
            q = j.on(qf.build_item(cond[1])) if cond[0] == "on" else (j.using(*cond[1]) if cond[0] == "using" else j.cross())
        if s.get("selects") and not s.get("select_first", True):
            q = q.select(*[qf.build_item(i) for i in s["selects"]])
        if s.get("distinct"):
            q = q.distinct()
        for g in s.get("groupby", []):
            q = q.groupby(qf.build_item(g))
        if s.get("having") is not None:
            q = q.having(qf.build_item(s["having"]))
        for it, d in s.get("orderby", []):
            q = q.orderby(qf.build_item(it), **({"order": getattr(Order, d)} if d else {}))
        if s.get("limit") is not None:
            q = q.limit(s["limit"])
        if s.get("offset") is not None:
            q = q.offset(s["offset"])
        if s.get("alias") is not None:
            q = q.as_(s["alias"])
        return q
    return qf._with_sources(fobjs + jobjs, rest)


def unchain_and(w, n):
    """the last n conjuncts of a left-nested item-level AND chain, split off: [rest, c1, ..., cn]"""
    parts = []
    while n > 0 and w[0] == "cplx" and w[1] == "and":
        parts.insert(0, w[3])
        w = w[2]
        n -= 1
    return [w] + parts


def _build_update_bound(s):
    """UPDATE whose SET targets are fields bound to the update table (q.set(tbl.col, v))"""
    import pypika.enums as E
    from pypika.terms import Field
    Q = qf.qclass(s["cls"])
    tbl = tf.mk_table(s["table"])
    fobjs = [qf.build_source(x) for x in s.get("from", [])]
    jobjs = [qf.build_source(j[1]) for j in s.get("joins", [])]
    q = Q.update(tbl)
    for o in fobjs:
        q = q.from_(o)

    def rest(q=q):
        for (how, _, cond), o in zip(s.get("joins", []), jobjs):
            j = q.join(o, getattr(E.JoinType, how))
            q = j.on(qf.build_item(cond[1])) if cond[0] == "on" else (j.using(*cond[1]) if cond[0] == "using" else j.cross())
        for name, v in s.get("sets", []):
            q = q.set(Field(name, table=tbl), qf.build_item(v))
        if s.get("where") is not None:
            q = q.where(qf.build_item(s["where"]))
        if s.get("limit") is not None:
            q = q.limit(s["limit"])
        return q
    return qf._with_sources(fobjs + jobjs, rest)


def coq_spec(s, tags):
    """the Gallina-side reading of the extensions: a pre-tagged sub-query = the same sub-query carrying the alias the other
    statement gave it (sq<max(n, its own counter)>; read from the object, [tags] = {id(spec): alias})"""
    if isinstance(s, dict):
        d = {k: coq_spec(v, tags) for k, v in s.items() if k != "pretag"}
        if s.get("pretag") is not None:
            d["alias"] = tags[id(s)]
        return d
    if isinstance(s, list):
        return [coq_spec(x, tags) for x in s]
    return s


class _TagDefault(dict):
    def __missing__(self, k):
        return "sq0"


def coq_query(s):
    """qf.coq_query plus bound SET targets"""
    o = qf.coq_query

    def mine(x):
        if x.get("k") == "upd" and x.get("set_tbl"):
            c = qf.CLS_CTOR[x["cls"]]
            sets = L(["(TField %s (Some %s) None, %s)" % (S(n), qf.tref_plain(x["table"]), qf.coq_item(v)) for n, v in x.get("sets", [])])
            return "(QUpd %s %s %s %s %s %s %s)" % (
                c, qf.tref_plain(x["table"]), sets, L([qf.coq_source(y) for y in x.get("from", [])]), qf.coq_joins(x.get("joins", [])),
                qf.O(None if x.get("where") is None else qf.coq_item(x["where"])), qf.OZ(x.get("limit")))
        return o(x)
    qf.coq_query = mine
    try:
        return mine(s)
    finally:
        qf.coq_query = o


# ----------------------------------------------------------------------------------------------
# walking specs
# ----------------------------------------------------------------------------------------------
def term_fields(t, out):
    """every ["field", col, tbl, alias] / ["star", tbl] node of a term spec, in rendering order"""
    if not isinstance(t, list) or not t:
        return
    k = t[0]
    if k == "field":
        out.append(t)
    elif k == "star":
        out.append(t)
    elif k in ("neg", "isnull", "notnull", "not", "all", "bitand", "cast"):
        term_fields(t[1], out)
    elif k in ("arith", "basic", "cplx"):
        term_fields(t[2], out)
        term_fields(t[3], out)
    elif k == "in":
        term_fields(t[1], out)
        term_fields(t[2], out)
    elif k == "between":
        term_fields(t[1], out)
        term_fields(t[2], out)
        term_fields(t[3], out)
    elif k == "case":
        for c, v in t[1]:
            term_fields(c, out)
            term_fields(v, out)
        if t[2] is not None:
            term_fields(t[2], out)
    elif k in ("func", "tuple", "array"):
        for a in t[1 if k != "func" else 2]:
            term_fields(a, out)


def item_parts(it):
    """(own terms, nested statements in item position) of an item spec"""
    k = it[0]
    if k == "t":
        return [it[1]], []
    if k == "sub":
        return [], [it[1]]
    if k == "in":
        return [it[1]], [it[2]]
    if k == "exists":
        return [], [it[1]]
    if k == "cmp":
        return [it[2]], [it[3]]
    if k == "func":
        ts, qs = [], []
        for a in it[2]:
            t2, q2 = item_parts(a)
            ts += t2
            qs += q2
        return ts, qs
    if k == "cplx":
        t1, q1 = item_parts(it[2])
        t2, q2 = item_parts(it[3])
        return t1 + t2, q1 + q2
    if k == "not":
        return item_parts(it[1])
    raise ValueError(k)


def clause_items(s):
    """[(clause, item)] of the statement's own clauses, in the order the statement prints them"""
    k = s["k"]
    out = []
    if k == "sel":
        out += [("select", i) for i in s.get("selects", [])]
        out += [("on", j[2][1]) for j in s.get("joins", []) if j[2][0] == "on"]
        if s.get("where") is not None:
            out.append(("where", s["where"]))
        out += [("groupby", g) for g in s.get("groupby", [])]
        if s.get("having") is not None:
            out.append(("having", s["having"]))
        out += [("orderby", o[0]) for o in s.get("orderby", [])]
    elif k == "upd":
        out += [("on", j[2][1]) for j in s.get("joins", []) if j[2][0] == "on"]
        out += [("set-value", v) for _, v in s.get("sets", [])]
        if s.get("where") is not None:
            out.append(("where", s["where"]))
    elif k == "del":
        if s.get("where") is not None:
            out.append(("where", s["where"]))
    elif k == "ins":
        for row in s.get("rows", []):
            out += [("ins-value", i) for i in row]
        sel = s.get("select")
        if sel is not None:
            out += [("select", i) for i in sel.get("selects", [])]
            if sel.get("where") is not None:
                out.append(("where", sel["where"]))
    return out


def own_sources(s):
    k = s["k"]
    if k in ("sel", "upd"):
        return list(s.get("from", [])) + [j[1] for j in s.get("joins", [])]
    if k == "del":
        return list(s.get("from", []))
    if k == "ins" and s.get("select") is not None:
        return list(s["select"].get("from", []))
    return []


def child_statements(s):
    """[(position, statement)]: position 'item' sees the enclosing sources, 'source'/'with'/'setop' do not"""
    out = []
    k = s["k"]
    if k == "set":
        out.append(("setop", s["base"]))
        out += [("setop", q) for _, q in s["ops"]]
        return out
    for _, w in s.get("with", []):
        out.append(("with", w))
    for src in own_sources(s):
        if src[0] == "q":
            out.append(("source", src[1]))
    for _, it in clause_items(s):
        for q in item_parts(it)[1]:
            out.append(("item", q))
    return out


def all_statements(s, pos="top", parent=None, out=None):
    out = out if out is not None else []
    out.append((s, pos, parent))
    for p, c in child_statements(s):
        all_statements(c, p, s, out)
    return out


def tref_key(t):
    return (t[0], tuple(t[1] or []), t[2])


def analyse(spec):
    """binding of every table-bound field of every statement: list of dicts
       {col, sid, clause, bind: ["src", sid, i] | ["target", sid] | ["outer", sid', i] | ["outer-target", sid'] | ["foreign"]}
       plus per statement {sid: {"nsrc", "pos", "parent", "correlated", "kind"}}"""
    stmts = all_statements(spec)
    sid_of = {id(s): n for n, (s, _, _) in enumerate(stmts)}
    info = {}
    for s, pos, parent in stmts:
        info[sid_of[id(s)]] = {"kind": s["k"], "pos": pos, "parent": None if parent is None else sid_of[id(parent)],
                               "nsrc": len(own_sources(s)) + (1 if s["k"] == "upd" else 0), "correlated": False,
                               "corr_where": False,
                               "setop_from": any(x[0] == "q" and x[1].get("k") == "set" for x in s.get("from", []) or []),
                               "setop_from_plain_join": any(x[0] == "q" and x[1].get("k") == "set" for x in s.get("from", []) or [])
                               and any(j[1][0] == "t" and j[1][1][2] is None for j in s.get("joins", []) or []),
                               "setop_join_unnamed": any(j[1][0] == "q" and j[1][1].get("k") == "set" and j[1][1].get("alias") is None
                                                         for j in s.get("joins", []) or [])}
    refs = []

    def lookup(s, key):
        """the source an explicitly written table (an equal Table object) denotes in statement s: the UPDATE target, else
        the first equal FROM table, else an equal joined table (an un-aliased joined table equal to a base table is renamed
        name2 by do_join, so a plain reference never means it)"""
        if s["k"] == "upd" and tref_key(s["table"]) == key:
            return "target"
        srcs = own_sources(s)
        nfrom = len(s.get("from", [])) if s["k"] in ("sel", "upd", "del") else len(srcs)
        base = [tref_key(x[1]) for x in srcs[:nfrom] if x[0] == "t"]
        if s["k"] == "upd":
            base.append(tref_key(s["table"]))
        for i, src in enumerate(srcs):
            if src[0] == "t" and tref_key(src[1]) == key:
                if i >= nfrom and src[1][2] is None and key in base:
                    continue
                return i
        return None

    parents = {id(x): (p, y) for x, p, y in stmts}
    for s, pos, parent in stmts:
        sid = sid_of[id(s)]
        if s["k"] == "set":
            continue
        chain = []           # enclosing statements visible from here (item positions only)
        cur = s
        while True:
            p_, par = parents[id(cur)]
            if p_ != "item" or par is None:
                break
            chain.append(par)
            cur = par
        entries = [(cl, t) for cl, it in clause_items(s) for t in item_parts(it)[0]]
        if s["k"] == "upd" and s.get("set_tbl"):
            entries = entries + [("set-target", ["field", n_, list(s["table"]), None]) for n_, _ in s.get("sets", [])]
        if s["k"] == "ins":
            entries = [("ins-column", ["field", n_, ["#into", [], None], None]) for n_ in s.get("columns", [])] + entries
        for cl, t in entries:
            fs = []
            term_fields(t, fs)
            for f in fs:
                tbl = f[2] if f[0] == "field" else f[1]
                if tbl is None:
                    continue
                col = f[1] if f[0] == "field" else "*"
                if tbl[0] == "#into":
                    bind = ["target", sid]
                elif tbl[0].startswith("#"):
                    bind = ["src", sid, int(tbl[0][1:])]
                else:
                    key = tref_key(tbl)
                    i = lookup(s, key)
                    if i == "target":
                        bind = ["target", sid]
                    elif i is not None:
                        bind = ["src", sid, i]
                    else:
                        bind = ["foreign"]
                        for o in chain:
                            j = lookup(o, key)
                            if j is not None:
                                bind = ["outer-target", sid_of[id(o)]] if j == "target" else ["outer", sid_of[id(o)], j]
                                info[sid]["correlated"] = True
                                if cl == "where":
                                    info[sid]["corr_where"] = True
                                break
                refs.append({"col": col, "sid": sid, "clause": cl, "bind": bind})
    return refs, info, stmts, sid_of


# ----------------------------------------------------------------------------------------------
# sentinels
# ----------------------------------------------------------------------------------------------
def sentinelise(spec, all_fields=False):
    """rename (in place) the column of every table-bound field to a fresh zq<N>; a node shared between clauses keeps one name"""
    seen = {}
    n = [0]

    def rename(t):
        fs = []
        term_fields(t, fs)
        for f in fs:
            if f[0] != "field" or id(f) in seen:
                continue
            if f[2] is None and not all_fields:
                continue
            seen[id(f)] = True
            n[0] += 1
            f[1] = "zq%d" % n[0]
    if isinstance(spec, dict):
        for s, _, _ in all_statements(spec):
            if s["k"] == "ins" and s.get("columns"):
                cols = []
                for _ in s["columns"]:
                    n[0] += 1
                    cols.append("zq%d" % n[0])
                s["columns"] = cols
            if s["k"] == "upd" and s.get("set_tbl"):
                for st in s.get("sets", []):
                    n[0] += 1
                    st[0] = "zq%d" % n[0]
            for _, it in clause_items(s):
                for t in item_parts(it)[0]:
                    rename(t)
    else:
        rename(spec)
    return spec


def observe(text):
    """[(sentinel, qualifier or None)] in text order: the token immediately before each sentinel column"""
    return [[n, q] for n, q, _, _ in observe_full(text) if n != "*"]


KEYWORDS = [("SELECT ", "select"), (" FROM ", None), (" JOIN ", None), (" ON ", "on"), (" USING ", None), (" WHERE ", "where"),
            (" PREWHERE ", "where"), (" GROUP BY ", "groupby"), (" HAVING ", "having"), (" ORDER BY ", "orderby"), (" SET ", "set"),
            (" UPDATE ", "set"), ("UPDATE ", None), ("ALTER TABLE ", None), ("INSERT INTO ", "into"), ("REPLACE INTO ", "into"),
            (" VALUES ", "ins-value"), (" LIMIT ", None), (" OFFSET ", None), (" FETCH NEXT ", None), (" FOR UPDATE", None)]


def observe_full(text):
    """[(sentinel, qualifier, statement depth, clause)] from the text alone: quoted regions are skipped, a parenthesis
    followed by SELECT / WITH opens a nested statement, clause keywords are read at statement depth 0 only"""
    out = []
    i, n = 0, len(text)
    stack = []            # per open parenthesis: True when it opens a nested statement
    depth = 0
    clause = None
    set_side = None       # inside SET: 'target' / 'value'
    into_paren = None     # index in stack of the INSERT column list parenthesis
    while i < n:
        ch = text[i]
        if ch == "'":
            j = i + 1
            while j < n:
                if text[j] == "'":
                    if j + 1 < n and text[j + 1] == "'":
                        j += 2
                        continue
                    break
                j += 1
            i = j + 1
            continue
        if ch in '"`':
            j = text.find(ch, i + 1)
            j = n if j < 0 else j
            body = text[i + 1:j]
            if SENT.fullmatch(body):
                out.append(_occurrence(text, i, body, depth, clause, set_side))
            i = j + 1
            continue
        if ch == "(":
            nested = text.startswith("SELECT ", i + 1) or text.startswith("WITH ", i + 1)
            stack.append(nested)
            if nested:
                depth += 1
            elif depth == 0 and clause == "into" and into_paren is None:
                into_paren = len(stack)
                clause = "ins-column"
            i += 1
            continue
        if ch == ")":
            if stack:
                if stack.pop():
                    depth -= 1
                elif into_paren is not None and len(stack) == into_paren - 1 and clause == "ins-column":
                    clause = "into-done"
            i += 1
            continue
        if depth == 0:
            hit = False
            for kw, cl in KEYWORDS:
                if text.startswith(kw, i) and (kw[0] == " " or i == 0 or text[i - 1] in " ("):
                    clause = cl
                    set_side = "target" if cl == "set" else None
                    i += len(kw) - (1 if kw.endswith(" ") and cl is None and kw.strip() in ("ON",) else 0)
                    hit = True
                    break
            if hit:
                continue
            if clause == "set":
                fdepth = len(stack)
                if ch == "=" and set_side == "target" and fdepth == 0:
                    set_side = "value"
                elif ch == "," and fdepth == 0:
                    set_side = "target"
        if ch == "." and i + 1 < n and text[i + 1] == "*":
            out.append(_occurrence(text, i + 1, "*", depth, clause, set_side))
            i += 2
            continue
        m = SENT.match(text, i)
        if m and (i == 0 or not (text[i - 1].isalnum() or text[i - 1] == "_")) and \
                (m.end() >= n or not (text[m.end()].isalnum() or text[m.end()] == "_")):
            out.append(_occurrence(text, i, m.group(0), depth, clause, set_side))
            i = m.end()
            continue
        i += 1
    return out


def _occurrence(text, p, name, depth, clause, set_side):
    """qualifier of the (possibly quoted) column token starting at p, read backwards"""
    qual = None
    if p > 0 and text[p - 1] == ".":
        e = p - 1
        if e > 0 and text[e - 1] in '"`':
            qch = text[e - 1]
            b = text.rfind(qch, 0, e - 1)
            qual = text[b + 1:e - 1] if b >= 0 else "?"
        else:
            b = e
            while b > 0 and (text[b - 1].isalnum() or text[b - 1] in "_#"):
                b -= 1
            qual = text[b:e]
    cl = clause
    if clause == "set":
        cl = "set-target" if set_side == "target" else "set-value"
    return [name, qual, depth, cl]


# ----------------------------------------------------------------------------------------------
# generators
# ----------------------------------------------------------------------------------------------
SCHEMAS = [[], [], [], [], ["s"], ["s"], ["d", "s"], ["db", "d", "s"]]


class CGen(qf.QGen):
    """QGen with the scope-relevant shapes turned up"""

    def __init__(self, rng, **kw):
        kw.setdefault("p_alias", 0.35)
        kw.setdefault("p_subq", 0.35)
        kw.setdefault("max_depth", 2)
        kw.setdefault("hostile", 0.1)
        super().__init__(rng, **kw)
        self.p_csub = 0.15       # sub-queries inside HAVING / GROUP BY / ORDER BY (QGen), parenthesised since c8c50bc / 2346aee
        self.c10_corr = 0.5      # (QGen's own p_corr stays 0: correlation is placed by correlate() below)
        self.p_bad_corr = 0.25     # share of correlated references placed outside WHERE (known defect)
        self.p_pretag = 0.08
        self.p_rejoin = 0.07

    def tref(self, alias_p=None):
        p = self.p_alias if alias_p is None else alias_p
        return [self.r.choice(qf.TNAMES), list(self.r.choice(SCHEMAS)),
                self.r.choice(["ta", "tb", "x", "t2"]) if self.r.random() < p else None]

    def source(self, cls, depth):
        if depth < self.max_depth and self.r.random() < 0.06:
            q = self.setop(self.cls(cls))             # an (un-)aliased set operation as a source
            if self.r.random() < 0.3:
                q["alias"] = self.r.choice(["so", "un1", "t2", "cust2"])
            return ["q", q]
        if depth < self.max_depth and self.r.random() < self.p_subq:
            q = self.select(self.cls(cls), depth + 1, small=True)
            r = self.r.random()
            if r < 0.35:
                q["alias"] = self.r.choice(["sub1", "sq", "z", "sq1", "t2", "u2", "orders2"])
            elif r < 0.35 + self.p_pretag and not q.get("with"):
                q["pretag"] = self.r.choice([0, 0, 0, 1])
            return ["q", q]
        if self.r.random() < 0.04:
            return ["t", self.tref(alias_p=0.7), {"for": self.r.choice(["as_of", "from_to", "between", "portion", "field"])}]
        return ["t", self.tref()]

    def select(self, cls, depth=0, small=False, nsel=None):
        q = super().select(cls, depth, small, nsel)
        # the same table joined again, un-aliased (do_join invents name2)
        tabs = [s[1] for s in q["from"] if s[0] == "t" and s[1][2] is None]
        if tabs and self.r.random() < self.p_rejoin:
            n = len(q["from"]) + len(q["joins"])
            for _ in range(self.r.choice([1, 1, 2])):
                t = self.r.choice(tabs)
                left = ["field", self.r.choice(qf.COLS), ["#%d" % self.r.randrange(n), [], None], None]
                right = ["field", self.r.choice(qf.COLS), ["#%d" % n, [], None], None]
                q["joins"] = q["joins"] + [["inner", ["t", [t[0], list(t[1]), None]], ["on", ["t", ["basic", "eq", left, right, None]]]]]
                n += 1
        self.correlate(q)
        w = q.get("where")
        if w is not None and w[0] == "cplx" and w[1] == "and" and self.r.random() < 0.5:
            q["where_split"] = self.r.choice([1, 1, 2])
        return q

    def correlate(self, q):
        """make some of the sub-queries in item position refer to a table of this statement"""
        outer = [s[1] for s in q.get("from", []) if s[0] == "t"] + [j[1][1] for j in q.get("joins", []) if j[1][0] == "t" and j[1][1][2] is not None]
        if q["k"] == "upd":
            outer = outer + [q["table"]]
        if not outer:
            return
        for _, it in clause_items(q):
            for sub in item_parts(it)[1]:
                if sub["k"] != "sel" or not sub.get("from") or self.r.random() > self.c10_corr:
                    continue
                t = self.r.choice(outer)
                oref = ["field", self.r.choice(qf.COLS), [t[0], list(t[1]), t[2]], None]
                iref = ["field", self.r.choice(qf.COLS), ["#0", [], None], None]
                crit = ["basic", self.r.choice(["eq", "gt", "lte"]), iref, oref, None]
                if self.r.random() >= self.p_bad_corr:
                    # _validate_table looks at the fields of the WHOLE criterion item: any shape of WHERE will do
                    w = sub.get("where")
                    ct = ["t", crit]
                    rr = self.r.random()
                    if rr < 0.15:
                        ct = ["not", ct]
                    elif rr < 0.3:
                        ct = ["cplx", "or", ["t", crit], ["t", ["basic", "gt", iref, ["vali", 0, None], None]]]
                    elif rr < 0.4 and not hasattr(self, "_in_corr"):
                        self._in_corr = True
                        try:
                            ct = ["in", oref, self.select(self.cls(sub["cls"]), 3, small=True, nsel=1), self.r.random() < 0.3]
                        finally:
                            del self._in_corr
                    elif rr < 0.5 and not hasattr(self, "_in_corr"):
                        self._in_corr = True
                        try:
                            ct = ["cmp", self.r.choice(["eq", "gt"]), oref, self.select(self.cls(sub["cls"]), 3, small=True, nsel=1)]
                        finally:
                            del self._in_corr
                    if w is None:
                        sub["where"] = ct
                    elif w[0] == "t" and ct[0] == "t" and self.r.random() < 0.5:
                        sub["where"] = ["t", ["cplx", "and", w[1], crit, None]]
                    else:
                        op = self.r.choice(["and", "and", "and", "or"])
                        sub["where"] = ["cplx", op, w, ct] if self.r.random() < 0.5 else ["cplx", op, ct, w]
                        if op == "and" and self.r.random() < 0.7:
                            sub["where_split"] = 1        # two .where() calls, the correlating one first or last
                    if self.r.random() < 0.25 and not sub.get("with"):
                        sub["where_first"] = True         # ... and the (first) where() call precedes from_()
                        sub["select_first"] = self.r.random() < 0.5
                else:
                    pos = self.r.choice(["select", "having", "groupby", "orderby"])
                    if pos == "select" and sub["selects"] and sub["selects"][0][0] == "t" and sub["selects"][0][1][0] != "star":
                        sub["selects"] = [["t", ["arith", "add", sub["selects"][0][1], oref, None]]] + sub["selects"][1:]
                    elif pos == "having":
                        sub["having"] = ["t", crit]
                    elif pos == "groupby":
                        sub["groupby"] = sub.get("groupby", []) + [["t", oref]]
                    else:
                        sub["orderby"] = sub.get("orderby", []) + [[["t", oref], None]]

    def update(self, cls):
        q = {"k": "upd", "cls": cls, "table": self.tref(alias_p=0.25), "set_tbl": self.r.random() < 0.6}
        r = self.r.random()
        if r < 0.3:
            q["from"] = [["t", self.tref()] for _ in range(self.r.choice([1, 1, 2]))]
        n = len(q.get("from", []))
        if 0.3 <= r < 0.55:
            src = ["t", self.tref()]
            left = ["field", self.r.choice(qf.COLS), list(q["table"]), None]
            right = ["field", self.r.choice(qf.COLS), ["#%d" % n, [], None], None]
            q["joins"] = [[self.r.choice(["inner", "left"]), src, ["on", ["t", ["basic", "eq", left, right, None]]]]]
            n += 1
        tgt = lambda: ["field", self.r.choice(qf.COLS), list(q["table"]), None]   # noqa: E731
        fld = lambda: (self.field(n, 1.0) if n and self.r.random() < 0.6 else tgt())   # noqa: E731
        sets = []
        for c in self.r.sample(qf.COLS, self.r.choice([1, 2])):
            rr = self.r.random()
            if rr < 0.4:
                v = ["t", self.value()]
            elif rr < 0.8:
                v = ["t", ["arith", "add", fld(), ["vali", 1, None], None]]
            elif rr < 0.9:
                v = ["t", ["func", "COALESCE", [fld(), ["vali", 0, None]], None]]
            else:   # a sub-query as SET value (parenthesised since 5249523), possibly correlated to the target by correlate()
                v = ["sub", self.select(self.cls(cls), 1, small=True, nsel=1)]
            sets.append([c, v])
        q["sets"] = sets
        if self.r.random() < 0.75:
            rr = self.r.random()
            if rr < 0.6:
                q["where"] = ["t", ["basic", self.r.choice(tf.EQUALITY), fld(), self.value() if self.r.random() < 0.5 else fld(), None]]
            else:
                q["where"] = ["in", tgt(), self.select(self.cls(cls), 1, small=True, nsel=1), self.r.random() < 0.3]
        if self.r.random() < 0.1:
            q["limit"] = self.r.choice([0, 5])
        self.correlate(q)
        return q

    def delete(self, cls):
        q = {"k": "del", "cls": cls, "from": [["t", self.tref(alias_p=0.25)] for _ in range(self.r.choice([1, 1, 1, 2]))]}
        n = len(q["from"])
        if self.r.random() < 0.85:
            if self.r.random() < 0.7:
                q["where"] = ["t", self.crit(n, 2)]
            else:
                q["where"] = ["in", self.field(n, 1.0), self.select(self.cls(cls), 1, small=True, nsel=1), False]
        self.correlate(q)
        return q

    def any(self):
        cls = self.cls()
        r = self.r.random()
        if r < 0.62:
            return self.select(cls)
        if r < 0.70:
            return self.setop(cls)
        if r < 0.78:
            return self.insert(cls)
        if r < 0.92:
            return self.update(cls)
        return self.delete(cls)


def gen_term_case(rng):
    g = tf.Gen(rng, p_alias=0.15, p_table=0.75, hostile=0.2, with_sub=True)
    d = rng.choice([1, 2, 3, 3, 4])
    t = g.any(d) if rng.random() < 0.5 else g.boolean(d)
    c = tf.gen_ctx(rng)
    sentinelise(t, all_fields=True)
    return {"kind": "term", "t": t, "c": c}


# ---- executable SQLite statements ------------------------------------------------------------
XCOLS = ["id", "a", "b", "c"]
XTABS = ["t", "u", "v"]
XROWS = {"t": [(1, 10, 20, 30), (2, 11, 21, 31), (3, 12, 22, 32), (4, 13, 20, 33)],
         "u": [(1, 100, 200, 300), (2, 110, 210, 310), (3, 120, 200, 320), (5, 150, 250, 350)],
         "v": [(1, 1000, 2000, 3000), (2, 1100, 2100, 3100), (4, 1300, 2300, 3300), (5, 1500, 2000, 3500)]}


class XGen:
    """semantically valid SQLLiteQuery statements over t/u/v(id,a,b,c); every source exposes `id`"""

    def __init__(self, rng, p_bad=0.2):
        self.r = rng
        self.p_bad = p_bad
        self.nalias = 0

    def alias(self):
        self.nalias += 1
        return "x%d" % self.nalias

    def table(self, p_alias=0.4, used=None):
        name = self.r.choice(XTABS)
        al = self.alias() if self.r.random() < p_alias else None
        if al is None and used is not None:
            if name in used:
                al = self.alias()
            else:
                used.add(name)
        return ["t", [name, [], al]]

    def exposes(self, src):
        if src[0] == "t":
            return list(XCOLS)
        return [i[1][1] for i in src[1]["selects"]]

    def source(self, depth, used=None):
        if depth < 2 and self.r.random() < 0.3:
            inner = self.source(depth + 1) if self.r.random() < 0.35 else self.table()
            avail = [c for c in self.exposes(inner) if c != "id"]
            cols = ["id"] + self.r.sample(avail, min(len(avail), self.r.choice([1, 2])))
            q = {"k": "sel", "cls": "SQLLiteQuery", "from": [inner], "selects": [["t", ["field", c, ["#0", [], None], None]] for c in cols]}
            if self.r.random() < 0.4:
                q["where"] = ["t", ["basic", self.r.choice(["gt", "lte", "ne"]), ["field", "id", ["#0", [], None], None],
                                    ["vali", self.r.choice([0, 1, 2, 3]), None], None]]
            r = self.r.random()
            if r < 0.35:
                q["alias"] = self.alias()
            elif r < 0.42:
                q["pretag"] = 0
            return ["q", q]
        return self.table(used=used)

    def field(self, srcs, col=None):
        i = self.r.randrange(len(srcs))
        cols = self.exposes(srcs[i])
        return ["field", col if col in cols else self.r.choice(cols), ["#%d" % i, [], None], None]

    def outer_ref(self, outer_tables, col=None):
        t = self.r.choice(outer_tables)
        return ["field", col or self.r.choice(XCOLS), [t[0], list(t[1]), t[2]], None]

    def scalar_sub(self, outer_tables):
        """(SELECT MAX(..) FROM x ...) correlated to one of the outer tables"""
        src = self.table()
        inner = ["field", self.r.choice(["a", "b", "c"]), ["#0", [], None], None]
        q = {"k": "sel", "cls": "SQLLiteQuery", "from": [src]}
        if outer_tables and self.r.random() < self.p_bad:
            q["selects"] = [["t", ["func", "MAX", [["arith", "add", inner, self.outer_ref(outer_tables), None]], None]]]
        else:
            q["selects"] = [["t", ["func", "MAX", [inner], None]]]
            if outer_tables and self.r.random() < 0.8:
                q["where"] = ["t", ["basic", self.r.choice(["eq", "lte"]), ["field", "id", ["#0", [], None], None],
                                    self.outer_ref(outer_tables, "id"), None]]
        return q

    def col_sub(self, outer_tables):
        """SELECT <col> FROM x [WHERE correlated] for IN / EXISTS"""
        src = self.table()
        q = {"k": "sel", "cls": "SQLLiteQuery", "from": [src], "selects": [["t", ["field", "id", ["#0", [], None], None]]]}
        r = self.r.random()
        if outer_tables and r < 0.5:
            q["where"] = ["t", ["basic", "lte", ["field", "b", ["#0", [], None], None],
                                ["arith", "mul", self.outer_ref(outer_tables, "b"), ["vali", 20, None], None], None]]
        elif outer_tables and r < 0.5 + self.p_bad / 2:
            q["groupby"] = [["t", ["field", "id", ["#0", [], None], None]]]
            q["having"] = ["t", ["basic", "gte", ["func", "MAX", [["field", "a", ["#0", [], None], None]], None],
                                 self.outer_ref(outer_tables, "a"), None]]
        elif r < 0.9:
            q["where"] = ["t", ["basic", "gt", ["field", "a", ["#0", [], None], None], ["vali", self.r.choice([10, 100, 110, 1000]), None], None]]
        return q

    def crit(self, srcs):
        a = self.field(srcs)
        if self.r.random() < 0.5:
            return ["basic", self.r.choice(["gt", "lte", "ne", "eq"]), a, ["vali", self.r.choice([1, 2, 11, 21, 110, 200, 2000]), None], None]
        return ["basic", self.r.choice(["gt", "lte", "ne"]), a, self.field(srcs), None]

    def stmt(self):
        nfrom = self.r.choice([1, 1, 2])
        used = set()
        srcs = [self.source(0, used) for _ in range(nfrom)]
        joins = []
        for _ in range(self.r.choice([0, 0, 1, 1, 2])):
            if self.r.random() < 0.12:
                cand = [s for s in srcs if s[0] == "t" and s[1][2] is None]
                src = ["t", list(self.r.choice(cand)[1])] if cand else self.source(0, used)
            else:
                src = self.source(0, used)
            li = self.r.randrange(len(srcs) + len(joins))
            n = len(srcs) + len(joins)
            cond = ["on", ["t", ["basic", "eq", ["field", "id", ["#%d" % li, [], None], None], ["field", "id", ["#%d" % n, [], None], None], None]]]
            joins.append([self.r.choice(["inner", "inner", "left"]), src, cond])
        allsrc = srcs + [j[1] for j in joins]
        outer = [s[1] for s in srcs if s[0] == "t"] + [j[1][1] for j in joins if j[1][0] == "t" and j[1][1][2] is not None]
        q = {"k": "sel", "cls": "SQLLiteQuery", "from": srcs, "joins": joins}
        if self.r.random() < 0.25:
            g = self.field(allsrc)
            agg = ["func", "SUM", [self.field(allsrc)], None]
            q["selects"] = [["t", g], ["t", agg]]
            q["groupby"] = [["t", g]]
            if self.r.random() < 0.6:
                q["having"] = ["t", ["basic", "gt", ["func", "SUM", [self.field(allsrc)], None], ["vali", self.r.choice([0, 50, 500]), None], None]]
        else:
            sels = []
            for _ in range(self.r.choice([1, 2, 3])):
                r = self.r.random()
                if r < 0.5:
                    sels.append(["t", self.field(allsrc)])
                elif r < 0.7:
                    sels.append(["t", ["arith", self.r.choice(["add", "mul"]), self.field(allsrc), self.field(allsrc), None]])
                elif r < 0.8:
                    sels.append(["t", ["func", "COALESCE", [self.field(allsrc), ["vali", 0, None]], None]])
                else:
                    sels.append(["sub", self.scalar_sub(outer)])
            q["selects"] = sels
        if self.r.random() < 0.65:
            r = self.r.random()
            if r < 0.5:
                q["where"] = ["t", self.crit(allsrc)]
            elif r < 0.65:
                q["where"] = ["t", ["cplx", self.r.choice(["and", "or"]), self.crit(allsrc), self.crit(allsrc), None]]
            elif r < 0.85:
                q["where"] = ["in", self.field(allsrc, "id"), self.col_sub(outer), self.r.random() < 0.3]
            else:
                q["where"] = ["exists", self.col_sub(outer), self.r.random() < 0.3]
        if self.r.random() < 0.3 and not q.get("groupby"):
            q["orderby"] = [[["t", self.field(allsrc)], self.r.choice([None, "asc", "desc"])]]
        return q


# ---- histories of from_() / join() calls in any order ------------------------------------------
def _hist_subq(k):
    """a sub-query whose own _subquery_count is k"""
    from pypika import Query, Table
    b = Query._builder()
    for i in range(k):
        b = b.from_(Query.from_(Table("p%d" % i)).select("x"))
    if k == 0:
        b = b.from_(Table("u"))
    return b.select("*")


def build_hist(evs):
    """events: [op, kind, ...]: op 'from' | 'join'; kind 'table' alias | 'fresh' k | 'aliased' k alias | 'pretag' k n |
    'setop' k alias-or-None (a UNION of two selects; k is ignored: a set operation has no counter)"""
    from pypika import Query, Table
    q = Query._builder()
    objs, given = [], []
    for n, e in enumerate(evs):
        op, kind = e[0], e[1]
        if kind == "table":
            o = Table("h%d" % n, alias=e[2])
            given.append(e[2])
        elif kind == "setop":
            o = Query.from_(Table("sa")).select("x") + Query.from_(Table("sb")).select("x")
            if e[3] is not None:
                o = o.as_(e[3])
            given.append(o.alias)
        else:
            o = _hist_subq(int(e[2]))
            if kind == "aliased":
                o = o.as_(e[3])
            elif kind == "pretag":
                host = Query._builder()
                for i in range(int(e[3])):
                    host = host.from_(Query.from_(Table("pad%d" % i)).select("x"))
                host.from_(o)
            given.append(o.alias)
        q = q.from_(o) if op == "from" else q.join(o).cross()
        objs.append(o)
    q = q.select("*")
    return q, objs, given


def gen_hist(rng):
    n = rng.choice([2, 3, 3, 4, 5, 6])
    evs = []
    for i in range(n):
        op = "from" if i == 0 else rng.choice(["from", "join", "join"])
        r = rng.random()
        k = rng.choice([0, 0, 0, 1, 2, 3])
        if r < 0.2:
            evs.append([op, "table", rng.choice([None, None, "ta%d" % i])])
        elif r < 0.32:
            evs.append([op, "setop", 0, None])
        elif r < 0.36:
            evs.append([op, "setop", 0, "so%d" % i])
        elif r < 0.75:
            evs.append([op, "fresh", k])
        elif r < 0.9:
            evs.append([op, "aliased", k, rng.choice(["z%d" % i, "sub%d" % i, "sq", "sqx"])])
        else:
            evs.append([op, "pretag", k, rng.choice([0, 0, 1, 2])])
    return {"kind": "hist", "evs": evs}


def gen_cases(rng, tier):
    n_stmt, n_term, n_exec, n_hist = (330, 90, 160, 120) if tier == "quick" else (12000, 3000, 6000, 5000)
    out = []
    for i in range(n_stmt):
        g = CGen(rng, max_depth=rng.choice([1, 2, 2, 3]), p_subq=rng.choice([0.2, 0.35, 0.5]), p_alias=rng.choice([0.15, 0.35, 0.6]))
        q = g.any()
        sentinelise(q)
        out.append({"kind": "stmt", "q": add_lookups(q)})
    for i in range(n_term):
        out.append(gen_term_case(rng))
    for i in range(n_exec):
        out.append({"kind": "exec", "q": add_lookups(XGen(rng, p_bad=rng.choice([0.0, 0.2, 0.4])).stmt())})
    out += lookup_cases()
    for i in range(n_hist):
        out.append(gen_hist(rng))
    out += tclass_cases(rng, tier)
    # malformed stream: references to tables that are in no scope at all, joins whose criterion names an unknown table
    for i in range(20 if tier == "quick" else 200):
        g = CGen(rng, max_depth=1)
        q = g.select(g.cls())
        stray = ["field", "c", ["nowhere", [], None], None]
        if rng.random() < 0.5:
            q["where"] = ["t", ["basic", "eq", stray, ["vali", 1, None], None]]
        else:
            q["joins"] = q.get("joins", []) + [["inner", ["t", ["v", [], "jv"]], ["on", ["t", ["basic", "eq", stray, ["field", "a", ["#0", [], None], None], None]]]]]
        sentinelise(q)
        out.append({"kind": "stmt", "q": q})
    return out


def lookup_cases():
    """systematic product (every tier): source with a look-up history (aliased sub-query / aliased table) x way of looking
    the columns up x refining call x ancestor used in an earlier statement x position (second FROM item / join) x
    {stmt, SQLite}"""
    out = []
    T, U = ["t", [], None], ["u", [], None]
    s0, s1 = ["#0", [], None], ["#1", [], None]
    for cls, kind in (("Query", "stmt"), ("SQLLiteQuery", "exec")):
        for shape in ("subquery", "table"):
            for how in LOOK_HOW:
                for refine in (LOOK_REFINE if shape == "subquery" else ["as"]):
                    for use in (True, False):
                        for pos in ("from", "join"):
                            lk = {"lookup": {"how": how, "refine": refine, "use": use}}
                            if shape == "subquery":
                                sub = {"k": "sel", "cls": cls, "from": [["t", list(U)]], "alias": "recent",
                                       "selects": [["t", _f("id", list(s0))], ["t", _f("b", list(s0))]],
                                       "where": ["t", ["basic", "gt", _f("b", list(s0)), ["vali", 0, None], None]]}
                                if kind == "stmt":
                                    sub["limit"] = 7
                                sub.update(lk)
                                src = ["q", sub]
                            else:
                                src = ["t", ["u", [], "recent"], lk]
                            on = ["t", ["basic", "eq", _f("id", list(s0)), _f("id", list(s1)), None]]
                            q = {"k": "sel", "cls": cls, "selects": [["t", _f("a", list(s0))], ["t", _f("b", list(s1))]],
                                 "orderby": [[["t", _f("id", list(s1))], None]]}
                            if pos == "from":
                                q.update({"from": [["t", list(T)], src], "where": on})
                            else:
                                q.update({"from": [["t", list(T)]], "joins": [["inner", src, ["on", on]]],
                                          "where": ["t", ["basic", "gt", _f("b", list(s1)), ["vali", 1, None], None]]})
                            out.append({"kind": kind, "q": q if kind == "exec" else sentinelise(q)})
    return out


# ----------------------------------------------------------------------------------------------
# corpus: witnesses of the known findings + pinned shapes
# ----------------------------------------------------------------------------------------------
def _f(col, tbl):
    return ["field", col, tbl, None]


def corpus():
    """witnesses of the known findings and pinned shapes (built here), plus any minimised failures kept as JSON lists in
    corpus/C10/extra*.json"""
    import glob
    import os
    from harness.lib import VERIF
    out = _corpus_builtin()
    for path in sorted(glob.glob(os.path.join(VERIF, "corpus", "C10", "extra*.json"))):
        out += json.load(open(path))
    return out


def _corpus_builtin():
    T, U, V = ["t", [], None], ["u", [], None], ["v", [], None]
    s0 = ["#0", [], None]
    s1 = ["#1", [], None]
    s2 = ["#2", [], None]
    out = []

    def sel(cls, frm, selects, **kw):
        d = {"k": "sel", "cls": cls, "from": frm, "selects": selects}
        d.update(kw)
        return d
    # F1: correlated reference in the sub-query's select list / HAVING / GROUP BY / ORDER BY
    inner = sel("SQLLiteQuery", [["t", U]], [["t", _f("a", T)]], limit=1)
    out.append({"kind": "exec", "q": sel("SQLLiteQuery", [["t", T]], [["sub", inner]])})
    inner = sel("Query", [["t", U]], [["t", _f("a", T)]], limit=1)
    out.append({"kind": "stmt", "q": sentinelise(sel("Query", [["t", T]], [["sub", inner]]))})
    inner = sel("Query", [["t", U]], [["t", _f("a", s0)]], groupby=[["t", _f("a", s0)]], having=["t", ["basic", "eq", _f("b", s0), _f("b", T), None]])
    out.append({"kind": "stmt", "q": sentinelise(sel("Query", [["t", T]], [["t", _f("id", s0)]], where=["in", _f("a", s0), inner, False]))})
    inner = sel("Query", [["t", U]], [["t", _f("a", s0)]], groupby=[["t", _f("a", s0)], ["t", _f("c", T)]])
    out.append({"kind": "stmt", "q": sentinelise(sel("Query", [["t", T]], [["t", _f("id", s0)]], where=["in", _f("a", s0), inner, False]))})
    inner = sel("Query", [["t", U]], [["t", _f("a", s0)]], orderby=[[["t", _f("c", T)], None]])
    out.append({"kind": "stmt", "q": sentinelise(sel("Query", [["t", T]], [["t", _f("id", s0)]], where=["in", _f("a", s0), inner, False]))})
    # ... while a correlated reference in WHERE switches the whole sub-query to qualified names
    inner = sel("SQLLiteQuery", [["t", U]], [["t", _f("a", s0)]], where=["t", ["basic", "eq", _f("b", s0), _f("b", T), None]])
    out.append({"kind": "exec", "q": sel("SQLLiteQuery", [["t", T]], [["t", _f("id", s0)]], where=["in", _f("a", s0), inner, False])})
    out.append({"kind": "stmt", "q": sentinelise(copy.deepcopy(out[-1]["q"]))})
    # ... also when the WHERE is a composite item (AND of a plain criterion and an IN sub-query; NOT; outer field IN sub-query)
    deep = sel("Query", [["t", V]], [["t", _f("c", s0)]])
    inner = sel("Query", [["t", U]], [["t", _f("a", s0)]],
                where=["cplx", "and", ["t", ["basic", "eq", _f("b", s0), _f("b", T), None]], ["in", _f("c", s0), deep, False]])
    out.append({"kind": "stmt", "q": sentinelise(sel("Query", [["t", T]], [["t", _f("id", s0)]], where=["in", _f("a", s0), inner, False]))})
    deep = sel("Query", [["t", V]], [["t", _f("c", s0)]])
    inner = sel("Query", [["t", U]], [["t", _f("a", s0)]],
                where=["cplx", "or", ["not", ["t", ["basic", "gt", _f("b", s0), ["vali", 1, None], None]]], ["in", _f("c", T), deep, True]])
    out.append({"kind": "stmt", "q": sentinelise(sel("Query", [["t", T]], [["t", _f("id", s0)]], where=["exists", inner, False]))})
    # F2: a sub-query already named sq0 by another statement, reused as second FROM item
    fresh = sel("SQLLiteQuery", [["t", V]], [["t", _f("a", s0)]])
    tagged = sel("SQLLiteQuery", [["t", U]], [["t", _f("a", s0)]], pretag=0)
    out.append({"kind": "exec", "q": sel("SQLLiteQuery", [["q", fresh], ["q", tagged]], [["t", _f("a", s0)], ["t", _f("a", s1)]])})
    fresh = sel("Query", [["t", V]], [["t", _f("a", s0)]])
    tagged = sel("Query", [["t", U]], [["t", _f("a", s0)]], pretag=0)
    out.append({"kind": "stmt", "q": sentinelise(sel("Query", [["q", fresh], ["q", tagged]], [["t", _f("a", s0)], ["t", _f("a", s1)]]))})
    # F3: the same table joined twice un-aliased: name2 both times
    on = lambda i: ["on", ["t", ["basic", "eq", _f("a", s0), _f("a", ["#%d" % i, [], None]), None]]]   # noqa: E731
    out.append({"kind": "exec", "q": sel("SQLLiteQuery", [["t", T]], [["t", _f("a", s0)], ["t", _f("b", s1)], ["t", _f("c", s2)]],
                                         joins=[["inner", ["t", T], on(1)], ["inner", ["t", T], on(2)]])})
    out.append({"kind": "stmt", "q": sentinelise(sel("Query", [["t", T]], [["t", _f("a", s0)], ["t", _f("b", s1)], ["t", _f("c", s2)]],
                                                     joins=[["inner", ["t", T], on(1)], ["inner", ["t", T], on(2)]]))})
    # name2 collides with a real table called t2
    out.append({"kind": "stmt", "q": sentinelise(sel("Query", [["t", T]], [["t", _f("a", s0)], ["t", _f("b", s1)], ["t", _f("c", s2)]],
                                                     joins=[["inner", ["t", ["t2", [], None]], on(1)], ["inner", ["t", T], on(2)]]))})
    # ---- systematic small products (mechanism x statement kind x call sequence) ----
    # auto-naming x kind of un-aliased source (select / set operation) x position in FROM
    def mini(cls, t, col="a"):
        return sel(cls, [["t", t]], [["t", _f(col, s0)]])

    def union(cls):
        return {"k": "set", "base": mini(cls, U), "ops": [["union", mini(cls, V)]]}
    for cls in ("Query", "MySQLQuery"):
        for srcs in ([["q", mini(cls, T)], ["q", union(cls)]], [["q", union(cls)], ["q", mini(cls, T)]],
                     [["q", mini(cls, T)], ["q", mini(cls, U)], ["q", union(cls)]], [["t", T], ["q", mini(cls, U)], ["q", union(cls)]],
                     [["q", union(cls)], ["q", union(cls)]]):
            n_ = len(srcs)
            out.append({"kind": "stmt", "q": sentinelise(sel(cls, copy.deepcopy(srcs), [["t", _f("a", ["#%d" % i, [], None])] for i in range(n_)]))})
    # set-operation sources: a correlated WHERE over a set-operation FROM item; an un-aliased set operation joined
    inner = sel("Query", [["q", union("Query")]], [["t", _f("a", s0)]], where=["t", ["basic", "eq", _f("a", s0), _f("x1", T), None]])
    out.append({"kind": "stmt", "q": sentinelise(sel("Query", [["t", T]], [["t", _f("id", s0)]], where=["in", _f("a", s0), inner, False]))})
    out.append({"kind": "stmt", "q": sentinelise(sel("Query", [["t", T]], [["t", _f("a", s0)], ["t", _f("a", s1)]],
                                                     joins=[["inner", ["q", union("Query")], ["on", ["t", ["basic", "eq", _f("a", s0), _f("a", s1), None]]]]]))})
    # the flag x several where() calls x position of the correlating call (WHERE built by 2-3 calls)
    loc1 = ["t", ["basic", "gt", _f("c", s0), ["vali", 5, None], None]]
    loc2 = ["t", ["basic", "ne", _f("b", s0), ["vali", 0, None], None]]
    for cls, kind in (("Query", "stmt"), ("SQLLiteQuery", "exec")):
        for order in (["corr", "loc1"], ["loc1", "corr"], ["corr", "loc1", "loc2"], ["loc1", "corr", "loc2"], ["loc1", "loc2", "corr"]):
            corr = ["t", ["basic", "eq", _f("id", s0), _f("id", T), None]]
            items = [copy.deepcopy({"corr": corr, "loc1": loc1, "loc2": loc2}[k_]) for k_ in order]
            w = items[0]
            for it in items[1:]:
                w = ["cplx", "and", w, it]
            inner = sel(cls, [["t", U]], [["t", ["func", "MAX", [_f("a", s0)], None]]], where=w, where_split=len(items) - 1)
            q_ = sel(cls, [["t", T]], [["t", _f("id", s0)], ["sub", inner]])
            out.append({"kind": kind, "q": q_ if kind == "exec" else sentinelise(q_)})
    # the name2 auto-alias x statement kind: UPDATE target joined again (generic / MySQL / PostgreSQL), SELECT FROM item joined again
    for cls in ("Query", "MySQLQuery", "PostgreSQLQuery"):
        for sch in ([], ["s"]):
            tt = ["node", list(sch), None]
            out.append({"kind": "stmt", "q": sentinelise({
                "k": "upd", "cls": cls, "table": list(tt), "set_tbl": True,
                "joins": [["inner", ["t", list(tt)], ["on", ["t", ["basic", "eq", _f("parent", list(tt)), _f("id", s0), None]]]]],
                "sets": [["depth", ["t", ["arith", "add", _f("depth", s0), ["vali", 1, None], None]]]],
                "where": ["t", ["basic", "gte", _f("depth", s0), ["vali", 0, None], None]]})})
            out.append({"kind": "stmt", "q": sentinelise(sel(cls, [["t", list(tt)]], [["t", _f("a", s0)], ["t", _f("b", s1)]],
                                                             joins=[["left", ["t", list(tt)], ["on", ["t", ["basic", "eq", _f("parent", s0), _f("id", s1), None]]]]]))})
    # still open after 10401de: the numbered alias is only checked against EARLIER sources -- a real table t2 joined after the
    # invented t2; and a table literally called "sq" whose numbered alias sq2 is also the next sub-query tag
    out.append({"kind": "stmt", "q": sentinelise(sel("Query", [["t", T]], [["t", _f("a", s0)], ["t", _f("b", s1)], ["t", _f("c", s2)]],
                                                     joins=[["inner", ["t", T], on(1)], ["inner", ["t", ["t2", [], None]], on(2)]]))})
    SQT = ["sq", [], None]
    out.append({"kind": "stmt", "q": sentinelise(sel("Query", [["q", mini("Query", U)], ["q", mini("Query", V)], ["t", SQT]],
                                                     [["t", _f("a", ["#3", [], None])], ["t", _f("a", ["#4", [], None])]],
                                                     joins=[["inner", ["t", SQT], ["on", ["t", ["basic", "eq", _f("a", s2), _f("a", ["#3", [], None]), None]]]],
                                                            ["inner", ["q", mini("Query", T)], ["on", ["t", ["basic", "eq", _f("a", s2), _f("a", ["#4", [], None]), None]]]]]))})
    # a WITH query that is only defined is no source: its name does not influence the numbered alias (2def80d), in either call order
    cte = sel("Query", [["t", U]], [["t", _f("a", s0)]])
    qw = sel("Query", [["t", T]], [["t", _f("a", s0)], ["t", _f("b", s1)]], joins=[["inner", ["t", T], on(1)]])
    qw["with"] = [["t2", cte]]
    out.append({"kind": "stmt", "q": sentinelise(qw)})
    # the flag x call order: the (first) where() of a correlated sub-query BEFORE from_() (select first / last; 1-2 where calls)
    for cls, kind in (("Query", "stmt"), ("SQLLiteQuery", "exec")):
        for sf in (True, False):
            for order in (["corr"], ["corr", "loc1"], ["loc1", "corr"]):
                corr = ["t", ["basic", "eq", _f("id", s0), _f("id", T), None]]
                items = [copy.deepcopy({"corr": corr, "loc1": loc1}[k_]) for k_ in order]
                w = items[0]
                for it in items[1:]:
                    w = ["cplx", "and", w, it]
                inner = sel(cls, [["t", U]], [["t", ["func", "MAX", [_f("a", s0)], None]]], where=w, where_first=True, select_first=sf)
                if len(items) > 1:
                    inner["where_split"] = len(items) - 1
                q_ = sel(cls, [["t", T]], [["t", _f("id", s0)], ["sub", inner]])
                out.append({"kind": kind, "q": q_ if kind == "exec" else sentinelise(q_)})
        inner = sel(cls, [["t", U]], [["t", _f("a", s0)]], where=["t", ["basic", "lte", _f("b", s0), _f("b", T), None]], where_first=True)
        q_ = sel(cls, [["t", T]], [["t", _f("id", s0)]], where=["in", _f("a", s0), inner, False])
        out.append({"kind": kind, "q": q_ if kind == "exec" else sentinelise(q_)})
    # temporal clause x alias x schema x position (FROM / JOIN) x class
    for cls in ("Query", "MSSQLQuery", "ClickHouseQuery"):
        for tk_ in ("as_of", "from_to", "between", "portion", "field"):
            for sch in ([], ["hr"]):
                for al in ("old", None):
                    tsrc = ["t", ["employee", list(sch), al], {"for": tk_}]
                    cur = ["t", ["employee", [], "cur"]]
                    for frm, jn in (([cur], tsrc), ([tsrc], cur), ([tsrc, cur], None)):
                        joins_ = [] if jn is None else [["inner", jn, ["on", ["t", ["basic", "eq", _f("id", s0), _f("id", s1), None]]]]]
                        out.append({"kind": "stmt", "q": sentinelise(sel(cls, copy.deepcopy(frm), [["t", _f("id", s0)], ["t", _f("salary", s1)]],
                                                                         joins=copy.deepcopy(joins_),
                                                                         where=["t", ["basic", "ne", _f("salary", s0), _f("salary", s1), None]]))})
    # the numbered alias x kind of the source that already carries name2 (aliased sub-query / set operation / WITH reference /
    # aliased table) x where that source sits (FROM item, earlier join) x class: the builder must move on to name3
    for cls in ("Query", "MySQLQuery", "PostgreSQLQuery"):
        for kind_ in ("subquery", "setop", "cte", "table"):
            for pos_ in ("from", "join"):
                if kind_ == "subquery":
                    other = ["q", dict(mini(cls, U), alias="t2")]
                elif kind_ == "setop":
                    other = ["q", dict(union(cls), alias="t2")]
                elif kind_ == "cte":
                    other = ["a", "t2"]
                else:
                    other = ["t", ["v", [], "t2"]]
                if pos_ == "from":
                    frm, jn = [["t", T], other], [["inner", ["t", T], ["on", ["t", ["basic", "eq", _f("a", s0), _f("a", s2), None]]]]]
                else:
                    frm = [["t", T]]
                    jn = [["inner", other, ["on", ["t", ["basic", "eq", _f("a", s0), _f("a", s1), None]]]],
                          ["inner", ["t", T], ["on", ["t", ["basic", "eq", _f("a", s0), _f("a", s2), None]]]]]
                q_ = sel(cls, copy.deepcopy(frm), [["t", _f("a", s0)], ["t", _f("a", s1)], ["t", _f("b", s2)]], joins=copy.deepcopy(jn))
                if kind_ == "cte":
                    q_["with"] = [["t2", mini(cls, V)]]
                out.append({"kind": "stmt", "q": sentinelise(q_)})
    # pinned shapes that must stay right
    x1, x2 = ["x", ["d", "s"], None], ["x", ["s2"], None]
    out.append({"kind": "stmt", "q": sentinelise(sel("Query", [["t", x1]], [["t", _f("a", s0)], ["t", _f("b", s1)]],
                                                     joins=[["inner", ["t", x2], ["on", ["t", ["basic", "eq", _f("id", s0), _f("id", s1), None]]]]]))})
    out.append({"kind": "stmt", "q": sentinelise(sel("MySQLQuery", [["t", ["t", ["db", "d", "s"], "ta"]]], [["t", ["star", s0]]],
                                                     where=["t", ["basic", "gt", _f("b", s0), ["vali", 1, None], None]],
                                                     orderby=[[["t", _f("c", s0)], "desc"]]))})
    s_from = sel("Query", [["t", U]], [["t", _f("a", s0)]])
    s_join = sel("Query", [["t", V]], [["t", _f("a", s0)]])
    out.append({"kind": "stmt", "q": sentinelise(sel("Query", [["q", s_from]], [["t", _f("a", s0)], ["t", _f("a", s1)]],
                                                     joins=[["inner", ["q", s_join], ["on", ["t", ["basic", "eq", _f("a", s0), _f("a", s1), None]]]]],
                                                     groupby=[["t", _f("a", s0)]], having=["t", ["basic", "gt", ["func", "SUM", [_f("a", s1)], None], ["vali", 1, None], None]],
                                                     orderby=[[["t", _f("a", s1)], None]]))})
    out.append({"kind": "stmt", "q": sentinelise({"k": "upd", "cls": "PostgreSQLQuery", "table": ["t", [], None], "set_tbl": True,
                                                  "from": [["t", U]], "sets": [["a", ["t", _f("a", s0)]]],
                                                  "where": ["t", ["basic", "eq", _f("id", ["t", [], None]), _f("id", s0), None]]})})
    out.append({"kind": "stmt", "q": sentinelise({"k": "upd", "cls": "MySQLQuery", "table": ["t", [], "x"], "set_tbl": True,
                                                  "sets": [["a", ["t", ["vali", 1, None]]]],
                                                  "where": ["t", ["basic", "eq", _f("b", ["t", [], "x"]), ["vali", 2, None], None]]})})
    out.append({"kind": "stmt", "q": {"k": "ins", "cls": "Query", "into": ["t", [], "ta"], "columns": ["a", "b"], "replace": False,
                                      "rows": [[["t", ["vali", 1, None]], ["t", ["vali", 2, None]]]]}})
    out.append({"kind": "stmt", "q": sentinelise({"k": "del", "cls": "Query", "from": [["t", T]],
                                                  "where": ["in", _f("a", s0), sel("Query", [["t", U]], [["t", _f("a", s0)]],
                                                                                  where=["t", ["basic", "eq", _f("b", s0), _f("b", T), None]]), False]})})
    out.append({"kind": "term", "t": ["case", [[["basic", "gt", _f("zq1", ["t", [], None]), ["vali", 0, None], None],
                                                ["func", "COALESCE", [_f("zq2", ["t", [], "ta"]), _f("zq3", None)], None]]],
                                      ["arith", "add", _f("zq4", ["u", ["s"], None]), ["vali", 1, None], None], None],
                "c": {"q": '"', "sq": "'", "wn": True, "wa": True}})
    out.append({"kind": "term", "t": ["case", [[["basic", "gt", _f("zq1", ["t", [], None]), ["vali", 0, None], None],
                                                ["func", "COALESCE", [_f("zq2", ["t", [], "ta"]), _f("zq3", None)], None]]],
                                      ["arith", "add", _f("zq4", ["u", ["s"], None]), ["vali", 1, None], None], None],
                "c": {"q": '"', "sq": "'"}})
    return out


# ----------------------------------------------------------------------------------------------
# implementation side
# ----------------------------------------------------------------------------------------------
def _source_kind(src, user_alias):
    if src[0] == "t":
        return "aliased-table" if user_alias else "table"
    if src[0] == "q":
        return "aliased-subquery" if user_alias else "subquery"
    return "cte"


def run_impl(case):
    if case["kind"] == "tclass":
        return run_tclass(case)
    if case["kind"] == "hist":
        try:
            q, objs, given = build_hist(case["evs"])
            return {"text": str(q), "aliases": [o.alias for o in objs], "given": given}
        except Exception as e:  # noqa
            return {"text": "!" + type(e).__name__}
    if case["kind"] == "term":
        text = tf.render_impl(case["t"], case["c"])
        return {"text": text, "obs": [] if text.startswith("!") else observe(text)}
    spec = case["q"]
    out = {}
    try:
        with _Build(spec) as b:
            obj = qf.build_query(spec)
            rec = b.rec
        text = str(obj)
    except Exception as e:  # noqa
        return {"text": "!" + type(e).__name__}
    out["text"] = text
    refs, info, stmts, sid_of = analyse(spec)
    # in-statement names of every statement's sources, read from the objects
    names = {}
    for s, pos, parent in stmts:
        sid = sid_of[id(s)]
        o = rec.get(id(s))
        if o is None or s["k"] == "set":
            continue
        objs = list(getattr(o, "_from", [])) + [j.item for j in getattr(o, "_joins", [])]
        srcs = own_sources(s)
        if len(objs) != len(srcs):
            names[str(sid)] = None
            continue
        ent = []
        nfrom_ = len(getattr(o, "_from", []))
        for k_, (src, so) in enumerate(zip(srcs, objs)):
            ua = src[1][2] if src[0] == "t" else (src[1].get("alias") if src[0] == "q" else src[1])
            al = getattr(so, "alias", None)
            tn = so._table_name if src[0] == "t" else None
            ent.append({"kind": _source_kind(src, ua), "user_alias": ua, "alias": al, "table": tn, "join": k_ >= nfrom_,
                        "temporal": (src[2].get("for") if (src[0] == "t" and len(src) > 2 and src[2]) else None),
                        "schema": list(src[1][1] or []) if src[0] == "t" else None,
                        "pretag": bool(src[0] == "q" and src[1].get("pretag") is not None)})
        names[str(sid)] = ent
        if s["k"] == "ins":
            it_ = o._insert_table
            names[str(sid) + ":target"] = {"kind": "aliased-table" if s["into"][2] else "table", "user_alias": s["into"][2],
                                           "alias": it_.alias, "table": it_._table_name}
        if s["k"] == "upd":
            ut = o._update_table
            names[str(sid) + ":target"] = {"kind": "aliased-table" if s["table"][2] else "table", "user_alias": s["table"][2],
                                           "alias": ut.alias, "table": ut._table_name, "schema": list(s["table"][1] or [])}
    out["names"] = names
    out["chains"] = sorted({tuple(list(src[1][1]) + [src[1][0]]) for s_, _, _ in stmts for src in own_sources(s_)
                            if src[0] == "t" and src[1][1]}
                           | {tuple(list(s_[key][1]) + [s_[key][0]]) for s_, _, _ in stmts for key in ("table", "into")
                              if s_.get(key) and s_[key][1]})
    out["pretags"] = [rec.get(("tag", id(s_))) for s_, _, _ in stmts if s_.get("pretag") is not None]
    out["refs"] = refs
    out["info"] = {str(k): v for k, v in info.items()}
    full = observe_full(text)
    out["obs"] = [[n_, q_] for n_, q_, _, _ in full if n_ != "*"]
    out["stars"] = [[q_, d_] for n_, q_, d_, _ in full if n_ == "*"]
    out["top_obs"] = [[n_, q_, c_] for n_, q_, d_, c_ in full if d_ == 0]
    top = rec.get(id(spec))
    if spec["k"] in ("sel", "upd", "del") and top is not None:
        out["aliases"] = [getattr(x, "alias", None) for x in list(top._from) + [j.item for j in top._joins]]
    else:
        out["aliases"] = []
    if case["kind"] == "exec":
        out["exec"] = run_sqlite(spec, text)
    return out


def to_coq(case, outcome):
    if case["kind"] == "tclass":
        return None            # oracle only: most of these term classes are outside the Gallina term language
    if case["kind"] == "hist":
        if outcome["text"].startswith("!"):
            return None
        evs = []
        for e, g, act in zip(case["evs"], outcome["given"], outcome["aliases"]):
            if e[1] == "table":
                # (a table's alias is not run_hist's business; with a set operation among the FROM items do_join gives ANY
                #  un-aliased joined table the name2 alias, because `item in base_tables` compares with the Term on the left)
                evs.append("(EOther %s)" % OS(act))
            elif e[1] == "setop" and e[0] == "join":
                evs.append("(EJoinQ %s)" % OS(g))     # join() tags an un-aliased set operation like a sub-query (c9e6663)
            elif e[1] == "setop" and e[0] == "from":
                evs.append("(EFromQ %s %s)" % (OS(g), N(0)))
            elif e[0] == "from":
                evs.append("(EFromQ %s %s)" % (OS(g), N(e[2])))
            else:
                evs.append("(EJoinQ %s)" % OS(g))
        return "(CHist %s %s)" % (L(evs), L([OS(a) for a in outcome["aliases"]]))
    if case["kind"] == "term":
        refs = L(["(%s, %s)" % (OS(qu), S(n)) for n, qu in outcome.get("obs", [])])
        return "(CTerm %s %s %s %s)" % (tf.ctx_coq(case["c"]), tf.coq(case["t"]), S(outcome["text"]), refs)
    text = outcome["text"]
    if text == "!JoinException":
        return None            # join validation is not part of the statement renderer's model (property C14)
    if text.startswith("!"):
        try:
            return "(CStmt %s %s [] [])" % (coq_query(coq_spec(case["q"], _TagDefault())), S(text))
        except Exception:  # noqa
            return None
    # (set-operation sources are modelled like any other since 187adc3 / c9e6663: no exclusions any more)
    for s_, _, _ in all_statements(case["q"]):
        if s_.get("where_first") and s_.get("where") is not None:
            return None        # where() before from_(): the flag depends on the call order, which the statement model has not
        if any(len(x) > 2 and x[2] and x[2].get("for") for x in own_sources(s_)):
            return None        # temporal clause on a source: not in Query.table_sql
    tagged = [s_ for s_, _, _ in all_statements(case["q"]) if s_.get("pretag") is not None]
    spec = coq_spec(case["q"], {id(s_): a for s_, a in zip(tagged, outcome.get("pretags", []))})
    # the sentinels of the TOP statement's own clauses in text order, with the clause the TEXT puts them in
    trip = []
    for n, qu, cl in outcome["top_obs"]:
        trip.append("(%s, %s, %s)" % (N(CLAUSE_CODE.get(cl, 10)), OS(qu), S(n)))
    if spec["k"] == "set":
        aliases = "[]"
        trip = []
    elif spec["k"] == "ins":
        aliases = "[]"
        trip = [x for x in trip if x.startswith("(8%nat") or x.startswith("(9%nat")]
    else:
        aliases = L([OS(a) for a in outcome["aliases"]])
    return "(CStmt %s %s %s %s)" % (coq_query(spec), S(text), aliases, L(trip))


# ----------------------------------------------------------------------------------------------
# SQLite differential (exec cases): pypika's text against an explicit fully qualified reference
# ----------------------------------------------------------------------------------------------
_DB = None


def db():
    global _DB
    if _DB is None:
        _DB = sqlite3.connect(":memory:")
        for t, rows in XROWS.items():
            _DB.execute('CREATE TABLE "%s" (%s)' % (t, ", ".join('"%s" INTEGER' % c for c in XCOLS)))
            _DB.executemany('INSERT INTO "%s" VALUES (?,?,?,?)' % t, rows)
    return _DB


class NotJudged(Exception):
    pass


CMPTXT = {"eq": "=", "ne": "<>", "gt": ">", "gte": ">=", "lt": "<", "lte": "<="}
ARTXT = {"add": "+", "sub": "-", "mul": "*"}


class RefRender:
    """explicit reference text: every source gets its own fresh alias r<N>; every bound field is written "r<N>"."col" """

    def __init__(self, spec):
        self.n = 0
        self.alias = {}       # (id(stmt), i) -> r<N>
        self.stmts = all_statements(spec)
        self.parents = {id(x): (p, y) for x, p, y in self.stmts}

    def fresh(self):
        self.n += 1
        return "r%d" % self.n

    def term(self, s, t):
        k = t[0]
        if k == "field":
            if t[2] is None:
                raise NotJudged("table-less field")
            if t[2][0].startswith("#"):
                return '"%s"."%s"' % (self.alias[(id(s), int(t[2][0][1:]))], t[1])
            key = tref_key(t[2])
            cur = s
            while True:
                for i, src in enumerate(own_sources(cur)):
                    if src[0] == "t" and tref_key(src[1]) == key:
                        return '"%s"."%s"' % (self.alias[(id(cur), i)], t[1])
                pos, par = self.parents[id(cur)]
                if pos != "item" or par is None:
                    raise NotJudged("unbound explicit table")
                cur = par
        if k == "vali":
            return "(%d)" % int(t[1])
        if k == "arith" and t[1] in ARTXT:
            return "(%s %s %s)" % (self.term(s, t[2]), ARTXT[t[1]], self.term(s, t[3]))
        if k == "basic" and t[1] in CMPTXT:
            return "(%s %s %s)" % (self.term(s, t[2]), CMPTXT[t[1]], self.term(s, t[3]))
        if k == "cplx" and t[1] in ("and", "or"):
            return "(%s %s %s)" % (self.term(s, t[2]), t[1].upper(), self.term(s, t[3]))
        if k == "not":
            return "(NOT %s)" % self.term(s, t[1])
        if k == "func" and t[1] in ("COALESCE", "MAX", "SUM", "ABS"):
            return "%s(%s)" % (t[1], ", ".join(self.term(s, a) for a in t[2]))
        raise NotJudged("term " + k)

    def item(self, s, it):
        k = it[0]
        if k == "t":
            return self.term(s, it[1])
        if k == "sub":
            return "(%s)" % self.query(it[1])
        if k == "in":
            return "(%s %sIN (%s))" % (self.term(s, it[1]), "NOT " if it[3] else "", self.query(it[2]))
        if k == "exists":
            return "(%sEXISTS (%s))" % ("NOT " if it[2] else "", self.query(it[1]))
        if k == "cmp":
            return "(%s %s (%s))" % (self.term(s, it[2]), CMPTXT[it[1]], self.query(it[3]))
        if k == "cplx":
            return "(%s %s %s)" % (self.item(s, it[2]), it[1].upper(), self.item(s, it[3]))
        if k == "not":
            return "(NOT %s)" % self.item(s, it[1])
        raise NotJudged("item " + k)

    def source(self, s, i, src):
        a = self.fresh()
        self.alias[(id(s), i)] = a
        if src[0] == "t":
            if src[1][1]:
                raise NotJudged("schema")
            return '"%s" AS "%s"' % (src[1][0], a)
        if src[0] == "q":
            return '(%s) AS "%s"' % (self.query(src[1]), a)
        raise NotJudged("cte")

    def query(self, s):
        if s["k"] != "sel" or s.get("with"):
            raise NotJudged("statement kind")
        frm = [self.source(s, i, src) for i, src in enumerate(s.get("from", []))]
        n = len(frm)
        js = []
        for h, src, cond in s.get("joins", []):
            t = self.source(s, n, src)
            n += 1
            if cond[0] != "on" or h not in ("inner", "left"):
                raise NotJudged("join kind")
            js.append("%sJOIN %s ON %s" % ("LEFT " if h == "left" else "", t, self.item(s, cond[1])))
        # select items keep the column names the implementation's text exposes (bare column name of a plain field)
        sels = []
        for it in s["selects"]:
            txt = self.item(s, it)
            if it[0] == "t" and it[1][0] == "field":
                txt += ' AS "%s"' % it[1][1]
            sels.append(txt)
        out = "SELECT " + ", ".join(sels) + " FROM " + ", ".join(frm)
        if js:
            out += " " + " ".join(js)
        if s.get("where") is not None:
            out += " WHERE " + self.item(s, s["where"])
        if s.get("groupby"):
            out += " GROUP BY " + ", ".join(self.item(s, g) for g in s["groupby"])
        if s.get("having") is not None:
            out += " HAVING " + self.item(s, s["having"])
        if s.get("limit") is not None:
            out += " LIMIT %d" % int(s["limit"])
        return out


def run_sqlite(spec, text):
    try:
        ref = RefRender(spec).query(spec)
    except NotJudged as e:
        ref = None
        why = str(e)
    res = {"ref": ref}
    if ref is None:
        # no reference: still run the implementation's text (ambiguity / unknown columns are errors on their own)
        res["why"] = why
    try:
        got = db().execute(text).fetchall()
        res["rows"] = sorted(map(list, got), key=repr)
    except sqlite3.Error as e:
        res["error"] = str(e)
    if ref is not None:
        try:
            exp = db().execute(ref).fetchall()
            res["ref_rows"] = sorted(map(list, exp), key=repr)
        except sqlite3.Error as e:
            res["ref_error"] = str(e)
    return res


# ----------------------------------------------------------------------------------------------
# oracle: exactly the property's observables
# ----------------------------------------------------------------------------------------------
def _expected(bind, names):
    """(in-statement name, has alias, source kind) of the source a reference is bound to"""
    if bind[0] in ("src", "outer"):
        ent = names.get(str(bind[1]))
        if not ent or bind[2] >= len(ent):
            return None
        e = ent[bind[2]]
    elif bind[0] in ("target", "outer-target"):
        e = names.get(str(bind[1]) + ":target")
        if e is None:
            return None
    else:
        return None
    name = e["alias"] or e["table"]
    kind = e["kind"] if bind[0] in ("src", "target") else "outer-" + e["kind"]
    return name, bool(e["alias"]), kind


def oracle(case, outcome):
    text = outcome.get("text", "!harness")
    if text.startswith("!"):
        return []
    if case["kind"] == "term":
        return oracle_term(case, outcome)
    if case["kind"] == "hist":
        return oracle_hist(case, outcome)
    if case["kind"] == "tclass":
        return oracle_tclass(case, outcome)
    viols = []
    names, info = outcome["names"], outcome["info"]
    byname = {}
    for r in outcome["refs"]:
        byname.setdefault(r["col"], r)
    # (a) the qualifier before every sentinel
    for n, qual in outcome["obs"]:
        r = byname.get(n)
        if r is None:
            continue
        exp = _expected(r["bind"], names)
        if exp is None:
            continue          # bound to nothing that is in scope (malformed stream): nothing to demand
        name, has_alias, kind = exp
        if name is None:
            continue          # the source has no in-statement name at all: reported once per statement below
        st = info[str(r["sid"])]
        multi = st["nsrc"] > 1 or st["correlated"]
        target = r["clause"] in ("set-target", "ins-column")
        why = None
        if qual is not None and qual != name:
            why = "wrong-qualifier"
        elif qual is None and has_alias:
            why = "alias-dropped"
        elif qual is None and multi and not target:
            only_outside = st["nsrc"] <= 1 and st["correlated"] and not st["corr_where"]
            why = "unqualified-correlated-outside-where" if only_outside else (
                "unqualified-correlated-setop-source" if (st["nsrc"] <= 1 and st["correlated"] and st.get("setop_from")) else "unqualified")
        if why:
            # the correlated family has ONE cause (the flag is computed from WHERE only): the clause is not part of its signature
            viols.append({"signature": ["C10", "correlated-subquery" if why.startswith("unqualified-correlated") else r["clause"], kind, why],
                          "what": "reference %s bound to source %r (%s) of statement #%d is written with qualifier %r in %r"
                                  % (n, name, kind, r["sid"], qual, text[:300])})
    # (a') qualified stars: at the top statement exactly the bound source's name, elsewhere the name of a star-bound source
    star_refs = [r for r in outcome["refs"] if r["col"] == "*"]
    exp_all = set()
    top_exp = []
    for r in star_refs:
        e = _expected(r["bind"], names)
        if e is None:
            exp_all.add(None)
            continue
        exp_all.add(e[0])
        if r["sid"] == 0:
            top_exp.append(e)
    if star_refs and None not in exp_all:
        top_seen = [q_ for q_, d_ in outcome.get("stars", []) if d_ == 0]
        for q_, d_ in outcome.get("stars", []):
            if q_ not in exp_all:
                viols.append({"signature": ["C10", "select", "star", "wrong-qualifier"],
                              "what": "star written with qualifier %r, the star-bound sources are called %r in %r" % (q_, sorted(exp_all), text[:300])})
        multi0 = info["0"]["nsrc"] > 1 or info["0"]["correlated"]
        if top_exp and all(e[1] or multi0 for e in top_exp):     # every top-level star must be qualified: compare in order
            for k_, e in enumerate(top_exp):
                got = top_seen[k_] if k_ < len(top_seen) else None
                if got != e[0]:
                    why = "alias-dropped" if (got is None and e[1]) else ("unqualified" if got is None else "wrong-qualifier")
                    viols.append({"signature": ["C10", "select", "star", why],
                                  "what": "star of source %r written with qualifier %r in %r" % (e[0], got, text[:300])})
    # (a'') schema / database prefixes outermost first on the table itself
    for chain in outcome.get("chains", []):
        if not any(".".join(qc + x + qc for x in chain) in text for qc in ('"', "`", "")):
            viols.append({"signature": ["C10", "from", "table", "schema-order"],
                          "what": "table %r is not written outermost-first in %r" % (".".join(chain), text[:300])})
    # (a3) an aliased table source (FROM item, joined table, UPDATE / INSERT target) is introduced under that alias:
    #      <table> [FOR ...] [AS] <alias>, with or without a temporal clause
    for sid, ent in names.items():
        if ent is None:
            continue
        for e in ([ent] if sid.endswith(":target") else ent):
            if e.get("kind") not in ("table", "aliased-table") or not e.get("alias") or not e.get("table"):
                continue
            if not any(re.search(r"(?<![\w])" + re.escape(qc + e["table"] + qc) + r"(?: FOR [^,]*?)? (?:AS )?" + re.escape(qa + e["alias"] + qa) + r"(?![\w.])", text)
                       for qc in ('"', "`", "") for qa in ('"', "`", "")):      # (alias_quote_char may differ from quote_char)
                viols.append({"signature": ["C10", "from/join", e["kind"], "alias-not-declared" + ("-temporal" if e.get("temporal") else "")],
                              "what": "columns of table %r are qualified by %r but no source is introduced under that name in %r"
                                      % (e["table"], e["alias"], text[:300])})
    # (b) invented names within one statement
    for sid, ent in names.items():
        if ent is None or sid.endswith(":target"):
            continue
        if any(e["kind"] == "subquery" and not e["alias"] for e in ent):
            viols.append({"signature": ["C10", "from/join", "subquery", "joined-set-operation-not-named"],
                          "what": "statement #%s has an un-aliased set operation as a joined source that gets no name (its columns are "
                                  "written \"None\".col): %r" % (sid, text[:300])})
        invented = [(e["alias"], e) for e in ent
                    if e["alias"] and ((e["kind"] == "subquery") or (e["kind"] == "table" and e["user_alias"] is None))]
        plain = [e["table"] for e in ent if e["kind"] == "table" and not e["alias"]]
        tgt = names.get(sid + ":target")
        if tgt is not None and not tgt["alias"]:
            plain.append(tgt["table"])
        base = [(e["table"], e.get("schema"), e.get("temporal")) for e in ent if not e.get("join") and e["kind"] == "table" and not e["alias"]]
        if tgt is not None and not tgt["alias"] and tgt.get("schema") is not None:
            base.append((tgt["table"], tgt["schema"], None))
        for e in ent:
            # do_join's promise: an un-aliased joined table EQUAL to a base table (FROM item / UPDATE target) is renamed
            if e.get("join") and e["kind"] == "table" and not e["alias"] and (e["table"], e.get("schema"), e.get("temporal")) in base:
                viols.append({"signature": ["C10", "from/join", "table", "joined-table-keeps-base-table-name"],
                              "what": "statement #%s joins un-aliased table %r which is also a base table, under the same name: %r"
                                      % (sid, e["table"], text[:300])})
        # a numbered alias the builder invents for a re-joined table must not be the name of ANY earlier source of the
        # statement (table, sub-query, set operation, WITH reference; user-given aliases included) nor of the target
        for k_, e in enumerate(ent):
            if e["kind"] == "table" and e["user_alias"] is None and e["alias"]:
                earlier = [(x["alias"] or x["table"]) for x in ent[:k_]]
                if tgt is not None:
                    earlier.append(tgt["alias"] or tgt["table"])
                if e["alias"] in earlier and not any(x["kind"] == "table" and x["user_alias"] is None and x["alias"] == e["alias"] for x in ent[:k_]):
                    viols.append({"signature": ["C10", "from/join", "table", "numbered-alias-equals-earlier-source"],
                                  "what": "statement #%s: the alias %r invented for the re-joined table %r is already the name of an earlier source: %r"
                                          % (sid, e["alias"], e["table"], text[:300])})
        seen = {}
        for a, e in invented:
            if a in seen or a in plain:
                kind = "subquery" if e["kind"] == "subquery" else "table"
                reason = "duplicate-invented-name" + ("-reused-object" if (e["pretag"] or seen.get(a, {}).get("pretag")) else "")
                if a in seen and seen[a]["kind"] != e["kind"]:
                    reason = "numbered-table-alias-equals-subquery-tag"
                if a in plain and a not in seen:
                    reason = "invented-name-equals-table"
                viols.append({"signature": ["C10", "from/join", kind, reason],
                              "what": "statement #%s has two sources called %r in %r" % (sid, a, text[:300])})
            seen.setdefault(a, e)
    # (c) SQLite
    ex = outcome.get("exec")
    if ex is not None:
        err = ex.get("error")
        if err and ("ambiguous column" in err or "no such column" in err) and not ex.get("ref_error"):
            kind = "ambiguous-column" if "ambiguous" in err else "no-such-column"
            viols.append({"signature": ["C10", "sqlite", kind, _exec_cause(outcome, errors_first=True)],
                          "what": "SQLite rejects %r: %s (the explicit reference %r is accepted)" % (text[:300], err, (ex.get("ref") or "")[:300])})
        elif not err and ex.get("ref_rows") is not None and ex["rows"] != ex["ref_rows"]:
            viols.append({"signature": ["C10", "sqlite", "rows-differ", _exec_cause(outcome)],
                          "what": "%r returns %r, the fully qualified reference %r returns %r" % (text[:300], ex["rows"][:5], ex["ref"][:300], ex["ref_rows"][:5])})
    return _dedupe(viols)


def oracle_hist(case, outcome):
    """names of the sub-queries the user did not alias are pairwise distinct within the statement"""
    viols, seen = [], {}
    for e, a in zip(case["evs"], outcome["aliases"]):
        if e[1] not in ("fresh", "pretag") and not (e[1] == "setop" and e[3] is None):
            continue
        if a is None:
            viols.append({"signature": ["C10", "from/join", "subquery", "no-name"], "what": "un-aliased sub-query left without a name: %r" % outcome["text"][:300]})
        elif a in seen:
            reused = e[1] == "pretag" or seen[a] == "pretag"
            viols.append({"signature": ["C10", "from/join", "subquery", "duplicate-invented-name" + ("-reused-object" if reused else "")],
                          "what": "calls %r name two sub-queries %r: %r" % (case["evs"], a, outcome["text"][:300])})
        seen.setdefault(a, e[1])
    return _dedupe(viols)


def _exec_cause(outcome, errors_first=False):
    """which construction of the statement explains an SQLite disagreement (for a specific signature): a duplicated source
    name explains a rejected statement, a correlated reference outside WHERE explains different rows"""
    names, info = outcome["names"], outcome["info"]
    corr = None
    for r in outcome["refs"]:
        if r["bind"][0] in ("outer", "outer-target") and r["clause"] != "where":
            corr = "correlated-reference-outside-where"
    dup = None
    for sid, ent in names.items():
        if ent is None or sid.endswith(":target"):
            continue
        al = [e["alias"] for e in ent if e["alias"]]
        if len(al) != len(set(al)):
            twice = {a for a in al if al.count(a) > 1}
            if any(e["pretag"] for e in ent if e["alias"] in twice):
                dup = "duplicate-name-reused-subquery"
            else:
                dup = dup or "duplicate-name"
    order = [dup, corr] if errors_first else [corr, dup]
    return next((x for x in order if x), "other")


def _dedupe(viols):
    seen, out = set(), []
    for v in viols:
        k = json.dumps(v["signature"])
        if k not in seen:
            seen.add(k)
            out.append(v)
    return out


def oracle_term(case, outcome):
    """term level: under with_namespace=True every table-bound field is qualified by alias-or-name; an aliased table always"""
    viols = []
    fs = []
    term_fields(case["t"], fs)
    by = {f[1]: f for f in fs if f[0] == "field"}
    wn = bool(case["c"].get("wn"))
    for n, qual in outcome["obs"]:
        f = by.get(n)
        if f is None:
            continue
        tbl = f[2]
        if tbl is None:
            if qual is not None:
                viols.append({"signature": ["C10", "term", "no-table", "wrong-qualifier"], "what": "table-less field %s qualified by %r" % (n, qual)})
            continue
        name = tbl[2] or tbl[0]
        kind = "aliased-table" if tbl[2] else "table"
        if qual is not None and qual != name:
            viols.append({"signature": ["C10", "term", kind, "wrong-qualifier"], "what": "%s: %r instead of %r in %r" % (n, qual, name, outcome["text"][:200])})
        elif qual is None and tbl[2]:
            viols.append({"signature": ["C10", "term", kind, "alias-dropped"], "what": "%s unqualified in %r" % (n, outcome["text"][:200])})
        elif qual is None and wn:
            viols.append({"signature": ["C10", "term", kind, "unqualified"], "what": "%s unqualified under with_namespace in %r" % (n, outcome["text"][:200])})
    return _dedupe(viols)


# ==============================================================================================
# term classes x clauses x source shapes (oracle only: the qualifier token before every sentinel column)
# ==============================================================================================
# classes that cannot hold a bound Field (or are abstract / not rendered inside a clause); every other Term subclass found in
# the sources must have a maker below, otherwise case generation fails (a new class is not silently forgotten)
TCLASS_NO_FIELD = {
    "Term": "abstract", "Criterion": "abstract", "RangeCriterion": "abstract", "_AbstractArrayFunction": "abstract",
    "_AbstractSearchString": "abstract", "_AbstractMultiSearchString": "abstract",
    "ValueWrapper": "constant", "SQLLiteValueWrapper": "constant", "ParameterValueWrapper": "constant", "LiteralValue": "raw text",
    "NullValue": "constant", "SystemTimeValue": "constant", "JSON": "constant", "Index": "name only", "PseudoColumn": "name only",
    "Parameter": "placeholder", "ListParameter": "placeholder", "DictParameter": "placeholder", "QmarkParameter": "placeholder",
    "NumericParameter": "placeholder", "FormatParameter": "placeholder", "NamedParameter": "placeholder",
    "PyformatParameter": "placeholder", "EmptyCriterion": "renders nothing", "Values": "table-less column by construction",
    "Star": "no column name: covered by the star checks of the stmt cases", "Field": "the leaf itself (every case)",
    "ExistsCriterion": "holds a sub-query (stmt cases)", "QueryBuilder": "statement (stmt cases)", "_SetOperation": "statement (stmt cases)",
    "CurDate": "no argument", "CurTime": "no argument", "CurTimestamp": "no argument", "Now": "no argument", "UtcTimestamp": "no argument",
    "Array@pypika.clickhouse.array": "python-value list rendered with str(): cannot hold a Field object meaningfully",
}


def term_classes():
    """every Term subclass defined in pypika's own modules: {(name, module)}"""
    import importlib
    import inspect
    import pkgutil
    import pypika
    from pypika.terms import Term
    out = set()
    for m in pkgutil.walk_packages(pypika.__path__, "pypika."):
        if ".tests" in m.name:
            continue
        mod = importlib.import_module(m.name)
        for n, c in vars(mod).items():
            if inspect.isclass(c) and issubclass(c, Term) and c.__module__ == mod.__name__:
                if n.endswith("QueryBuilder"):
                    n = "QueryBuilder"
                out.add((n, c.__module__))
    return out


def tclass_makers():
    """{variant: (class name, module, maker)}; maker(F) builds the term, F() yields the next bound sentinel field"""
    import pypika.analytics as an
    import pypika.enums as E
    import pypika.functions as fn
    import pypika.terms as T
    from pypika import Order, Interval
    import pypika.clickhouse.array as cha
    import pypika.clickhouse.condition as chc
    import pypika.clickhouse.nullable_arg as chn
    import pypika.clickhouse.search_string as chs
    import pypika.clickhouse.type_conversion as cht
    R = {}

    def reg(variant, cls, mk):
        R[variant] = (cls.__name__, cls.__module__, mk)
    for c in (fn.Abs, fn.Ascii, fn.Avg, fn.Bin, fn.Count, fn.Date, fn.First, fn.Floor, fn.IsNull, fn.Last, fn.Length, fn.Lower,
              fn.Max, fn.Min, fn.Reverse, fn.Signed, fn.Sqrt, fn.Std, fn.StdDev, fn.Sum, fn.Timestamp, fn.Trim, fn.Unsigned, fn.Upper,
              cht.ToDate, cht.ToDateTime, cht.ToFloat32, cht.ToFloat64, cht.ToInt8, cht.ToInt16, cht.ToInt32, cht.ToInt64, cht.ToString,
              cht.ToUInt8, cht.ToUInt16, cht.ToUInt32, cht.ToUInt64, cha.Empty, cha.NotEmpty, cha.Length):
        reg(c.__module__.split(".")[-1] + "." + c.__name__, c, (lambda c_: lambda F: c_(F()))(c))
    reg("functions.Count/distinct", fn.Count, lambda F: fn.Count(F()).distinct())
    # a QUALIFIED star (table.star / Star(table) / sub-query.star) as a function argument keeps its source's qualifier
    reg("functions.Count/star", fn.Count, lambda F: fn.Count(F.star()))
    reg("functions.Count/star-distinct", fn.Count, lambda F: fn.Count(F.star()).distinct())
    reg("functions.Count/star-and-field", fn.Count, lambda F: fn.Count(F.star()) + fn.Count(F()))
    reg("analytics.Count/star-over", an.Count, lambda F: an.Count(F.star()).over(F()).orderby(F(), order=Order.desc))
    reg("terms.Function/star-arg", T.Function, lambda F: T.Function("F", F.star(), F()))
    reg("terms.AggregateFunction/star-arg", T.AggregateFunction, lambda F: T.AggregateFunction("AGG", F.star()))
    reg("functions.Coalesce/star-count", fn.Coalesce, lambda F: fn.Coalesce(fn.Count(F.star()), 0))
    reg("functions.DistinctOptionFunction", fn.DistinctOptionFunction, lambda F: fn.DistinctOptionFunction("CNT", F()).distinct())
    reg("functions.ApproximatePercentile", fn.ApproximatePercentile, lambda F: fn.ApproximatePercentile(F(), 0.5))
    reg("functions.Cast", fn.Cast, lambda F: fn.Cast(F(), "INT"))
    reg("functions.Coalesce", fn.Coalesce, lambda F: fn.Coalesce(F(), F(), 0))
    reg("functions.Concat", fn.Concat, lambda F: fn.Concat(F(), "-", F()))
    reg("functions.Convert", fn.Convert, lambda F: fn.Convert(F(), type("Enc", (), {"value": "utf8"})()))
    reg("functions.DateAdd", fn.DateAdd, lambda F: fn.DateAdd("day", F(), F()))
    reg("functions.DateDiff", fn.DateDiff, lambda F: fn.DateDiff("day", F(), F()))
    reg("functions.Extract", fn.Extract, lambda F: fn.Extract(E.DatePart.year, F()))
    reg("functions.IfNull", fn.IfNull, lambda F: fn.IfNull(F(), F()))
    reg("functions.Insert", fn.Insert, lambda F: fn.Insert(F(), 1, 2, F()))
    reg("functions.NVL", fn.NVL, lambda F: fn.NVL(F(), F()))
    reg("functions.NullIf", fn.NullIf, lambda F: fn.NullIf(F(), F()))
    reg("functions.RegexpLike", fn.RegexpLike, lambda F: fn.RegexpLike(F(), "^a"))
    reg("functions.RegexpMatches", fn.RegexpMatches, lambda F: fn.RegexpMatches(F(), "^a"))
    reg("functions.Replace", fn.Replace, lambda F: fn.Replace(F(), "a", F()))
    reg("functions.SplitPart", fn.SplitPart, lambda F: fn.SplitPart(F(), ",", 1))
    reg("functions.Substring", fn.Substring, lambda F: fn.Substring(F(), 1, 2))
    reg("functions.TimeDiff", fn.TimeDiff, lambda F: fn.TimeDiff(F(), F()))
    reg("functions.TimestampAdd", fn.TimestampAdd, lambda F: fn.TimestampAdd("day", F(), F()))
    reg("functions.ToChar", fn.ToChar, lambda F: fn.ToChar(F(), "YYYY"))
    reg("functions.ToDate", fn.ToDate, lambda F: fn.ToDate(F(), "YYYY"))
    # analytics: plain, OVER, PARTITION BY, ORDER BY without / with direction, frames, IGNORE NULLS
    one = (an.Avg, an.Count, an.Max, an.Median, an.Min, an.NTile, an.StdDev, an.StdDevPop, an.StdDevSamp, an.Sum, an.VarPop,
           an.VarSamp, an.Variance, an.FirstValue, an.LastValue, an.Lag, an.Lead)
    zero = (an.DenseRank, an.Rank, an.RowNumber)
    for c in one + zero:
        base = (lambda c_: (lambda F: c_(F())) if c_ in one else (lambda F: c_()))(c)
        nm = "analytics." + c.__name__
        reg(nm + "/over", c, (lambda b: lambda F: b(F).over(F()))(base))
        reg(nm + "/orderby", c, (lambda b: lambda F: b(F).over(F()).orderby(F()))(base))
        reg(nm + "/orderby-asc", c, (lambda b: lambda F: b(F).over(F()).orderby(F(), order=Order.asc))(base))
        reg(nm + "/orderby-desc", c, (lambda b: lambda F: b(F).orderby(F(), F(), order=Order.desc))(base))
        if issubclass(c, T.WindowFrameAnalyticFunction):
            reg(nm + "/rows", c, (lambda b: lambda F: b(F).over(F()).orderby(F(), order=Order.desc).rows(an.Preceding(1), an.CURRENT_ROW))(base))
            reg(nm + "/range", c, (lambda b: lambda F: b(F).orderby(F()).range(an.Preceding(), an.Following(2)))(base))
        if issubclass(c, T.IgnoreNullsAnalyticFunction):
            reg(nm + "/ignore-nulls", c, (lambda b: lambda F: b(F).ignore_nulls().over(F()).orderby(F(), order=Order.desc))(base))
    reg("terms.AnalyticFunction", T.AnalyticFunction, lambda F: T.AnalyticFunction("AN", F()).over(F()).orderby(F(), order=Order.desc))
    reg("terms.WindowFrameAnalyticFunction", T.WindowFrameAnalyticFunction,
        lambda F: T.WindowFrameAnalyticFunction("WF", F()).over(F()).orderby(F(), order=Order.asc).rows(an.Preceding(1)))
    reg("terms.IgnoreNullsAnalyticFunction", T.IgnoreNullsAnalyticFunction,
        lambda F: T.IgnoreNullsAnalyticFunction("IG", F()).ignore_nulls().over(F()).orderby(F(), order=Order.desc))
    reg("terms.AggregateFunction", T.AggregateFunction, lambda F: T.AggregateFunction("AGG", F(), F()))
    reg("terms.AggregateFunction/filter", T.AggregateFunction, lambda F: T.AggregateFunction("AGG", F()).filter(F() == 1, F() > F()))
    reg("functions.Sum/filter", fn.Sum, lambda F: fn.Sum(F()).filter(F().isnull()))
    reg("terms.Function", T.Function, lambda F: T.Function("F", F(), 1, F()))
    reg("terms.Function/nested", T.Function, lambda F: T.Function("F", T.Function("G", F() + F()), T.Case().when(F() == 1, F()).else_(F())))
    reg("terms.All", T.All, lambda F: T.All(F()))
    for op in ("add", "sub", "mul", "div", "lshift", "rshift"):
        reg("terms.ArithmeticExpression/" + op, T.ArithmeticExpression,
            (lambda o: lambda F: T.ArithmeticExpression(getattr(E.Arithmetic, o), F(), F()))(op))
    reg("terms.ArithmeticExpression/interval", T.ArithmeticExpression, lambda F: F() + Interval(days=1))
    reg("terms.ArithmeticExpression/nested", T.ArithmeticExpression, lambda F: (F() + F()) * (F() - 1) / F())
    reg("terms.Array", T.Array, lambda F: T.Array(F(), F()))
    reg("terms.Tuple", T.Tuple, lambda F: T.Tuple(F(), 1, F()))
    reg("terms.Bracket", T.Bracket, lambda F: T.Bracket(F() + F()))
    reg("terms.AtTimezone", T.AtTimezone, lambda F: T.AtTimezone(F(), "UTC"))
    reg("terms.AtTimezone/interval", T.AtTimezone, lambda F: T.AtTimezone(F(), "-06:00", interval=True))
    for cmpn in ("eq", "ne", "gt", "gte", "lt", "lte"):
        reg("terms.BasicCriterion/" + cmpn, T.BasicCriterion, (lambda o: lambda F: T.BasicCriterion(getattr(E.Equality, o), F(), F()))(cmpn))
    for m_ in ("like", "not_like", "ilike", "not_ilike", "rlike", "regex", "regexp", "glob"):
        if hasattr(T.Field, m_):
            reg("terms.BasicCriterion/" + m_, T.BasicCriterion, (lambda o: lambda F: getattr(F(), o)("a%"))(m_))
    for j_ in ("get_json_value", "get_text_value", "get_path_json_value", "get_path_text_value", "has_key", "contains", "contained_by",
               "has_keys", "has_any_keys"):
        if hasattr(T.Field, j_):
            arg = {"has_keys": ["a"], "has_any_keys": ["a"], "contains": {"a": 1}, "contained_by": {"a": 1}}.get(j_, "k")
            reg("terms.BasicCriterion/json-" + j_, T.BasicCriterion, (lambda o, a: lambda F: getattr(F(), o)(a))(j_, arg))
    reg("terms.BasicCriterion/as_of", T.BasicCriterion, lambda F: F().as_of("x"))
    reg("terms.BetweenCriterion", T.BetweenCriterion, lambda F: T.BetweenCriterion(F(), F(), F()))
    reg("terms.BetweenCriterion/slice", T.BetweenCriterion, lambda F: F()[1:5])
    reg("terms.PeriodCriterion", T.PeriodCriterion, lambda F: T.PeriodCriterion(F(), F(), F()))
    reg("terms.BitwiseAndCriterion", T.BitwiseAndCriterion, lambda F: F().bitwiseand(2))
    reg("terms.Case", T.Case, lambda F: T.Case().when(F() == 1, F()).when(F() > F(), 2).else_(F()))
    reg("terms.Case/no-else", T.Case, lambda F: T.Case().when(F().isnull(), F()))
    for b in ("and_", "or_", "xor_"):
        reg("terms.ComplexCriterion/" + b, T.ComplexCriterion,
            (lambda o: lambda F: T.ComplexCriterion(getattr(E.Boolean, o), F() == 1, T.ComplexCriterion(E.Boolean.or_, F() > 2, F().isnull())))(b))
    reg("terms.ContainsCriterion", T.ContainsCriterion, lambda F: F().isin([1, 2]))
    reg("terms.ContainsCriterion/fields", T.ContainsCriterion, lambda F: T.ContainsCriterion(F(), T.Tuple(F(), F())))
    reg("terms.ContainsCriterion/negated", T.ContainsCriterion, lambda F: F().notin([1, 2]))
    reg("terms.Mod", T.Mod, lambda F: T.Mod(F(), 2))
    reg("terms.Mod/operator", T.Mod, lambda F: F() % F())
    reg("terms.Pow", T.Pow, lambda F: T.Pow(F(), 2))
    reg("terms.Pow/operator", T.Pow, lambda F: F() ** 2)
    reg("terms.Negative", T.Negative, lambda F: -F())
    reg("terms.Negative/compound", T.Negative, lambda F: -(F() + F()))
    reg("terms.NestedCriterion", T.NestedCriterion,
        lambda F: T.NestedCriterion(E.Equality.eq, E.Boolean.and_, F(), F(), F() == 1))
    reg("terms.Not", T.Not, lambda F: T.Not(F() == F()))
    reg("terms.Not/negate", T.Not, lambda F: (F() > 1).negate())
    reg("terms.NullCriterion", T.NullCriterion, lambda F: F().isnull())
    reg("terms.NotNullCriterion", T.NotNullCriterion, lambda F: F().notnull())
    reg("terms.Rollup", T.Rollup, lambda F: T.Rollup(F(), F()))
    # ClickHouse
    reg("clickhouse.HasAny", cha.HasAny, lambda F: cha.HasAny(F(), F()))
    reg("clickhouse.If", chc.If, lambda F: chc.If(F() == 1, F(), F()))
    reg("clickhouse.MultiIf", chc.MultiIf, lambda F: chc.MultiIf(F() == 1, F(), F() > 2, F(), F()))
    reg("clickhouse.IfNull", chn.IfNull, lambda F: chn.IfNull(F(), F()))
    for c in (chs.Like, chs.Match, chs.NotLike):
        reg("clickhouse." + c.__name__, c, (lambda c_: lambda F: c_(F(), "pat"))(c))
    for c in (chs.MultiMatchAny, chs.MultiSearchAny):
        reg("clickhouse." + c.__name__, c, (lambda c_: lambda F: c_(F(), ["p1", "p2"]))(c))
    reg("clickhouse.ToFixedString", cht.ToFixedString, lambda F: cht.ToFixedString(F(), 10))
    return R


def tclass_coverage():
    """(classes neither made nor excused, variants)"""
    makers = tclass_makers()
    made = {(c, m) for c, m, _ in makers.values()}
    missing = []
    for n, m in sorted(term_classes()):
        if (n, m) in made or n in TCLASS_NO_FIELD or (n + "@" + m) in TCLASS_NO_FIELD:
            continue
        missing.append(n + "@" + m)
    return missing, makers


TC_SHAPES = ["join", "from2", "alias-join", "alias1", "subq", "single", "upd-from"]
TC_CLAUSES = ["select", "where", "having", "groupby", "orderby", "on", "set-value"]


def tclass_cases(rng, tier):
    missing, makers = tclass_coverage()
    if missing:
        raise RuntimeError("Term subclasses without a C10 term-class case (add a maker or an exclusion with its reason): %s" % missing)
    out = []
    for v in sorted(makers):
        for shape in TC_SHAPES:
            for clause in TC_CLAUSES:
                if clause == "on" and shape not in ("join", "alias-join"):
                    continue
                if (clause == "set-value") != (shape == "upd-from") and not (shape == "upd-from" and clause == "where"):
                    continue
                if v == "terms.Rollup" and clause != "groupby":
                    continue
                cls = "ClickHouseQuery" if v.startswith("clickhouse.") or v.startswith("type_conversion.") or v.startswith("array.") else \
                    rng.choice(["Query", "Query", "PostgreSQLQuery", "MySQLQuery", "OracleQuery"])
                if shape == "upd-from" and cls in ("ClickHouseQuery",):
                    cls = "Query"
                if v == "terms.NestedCriterion":
                    cls = "Query"      # (prints no blanks around its connective: only tokenisable with quoted identifiers)
                out.append({"kind": "tclass", "variant": v, "shape": shape, "clause": clause, "cls": cls})
    if tier == "quick":      # the full product is cheap (no Coq): keep everything but thin the very regular one-argument families
        keep = []
        for c in out:
            regular = c["variant"].split(".")[0] in ("functions", "type_conversion") and "/" not in c["variant"]
            if regular and rng.random() < 0.6:
                continue
            keep.append(c)
        out = keep
    return out


def build_tclass(case):
    """-> (statement object, {sentinel: (expected in-statement name, has alias, kind)}, multi)"""
    from pypika import Table
    from pypika.terms import Field
    Q = qf.qclass(case["cls"])
    shape, clause = case["shape"], case["clause"]
    a, b = Table("ta1"), Table("tb2")
    exp = {}
    n = [0]
    if shape in ("join", "from2", "upd-from"):
        srcs = [(a, "ta1", False, "table"), (b, "tb2", False, "table")]
    elif shape == "alias-join":
        a = Table("ta1").as_("x")
        srcs = [(a, "x", True, "aliased-table"), (b, "tb2", False, "table")]
    elif shape == "alias1":
        a = Table("ta1", schema="s").as_("x")
        srcs = [(a, "x", True, "aliased-table")]
    elif shape == "single":
        srcs = [(a, "ta1", False, "table")]
    elif shape == "subq":
        a = Q.from_(Table("inner1")).select("c1", "c2")
        srcs = [(a, None, True, "subquery"), (b, "tb2", False, "table")]
    else:
        raise ValueError(shape)

    stars = []

    def F():
        n[0] += 1
        src = srcs[(n[0] - 1) % len(srcs)]
        name = "zq%d" % n[0]
        exp[name] = src
        return Field(name, table=src[0])

    def star():
        from pypika.terms import Star
        n[0] += 1
        src = srcs[(n[0] - 1) % len(srcs)]
        stars.append(src)
        # the public spellings: Selectable.star (tables, sub-queries) and Star(table)
        return src[0].star if n[0] % 2 else Star(src[0])
    F.star = star
    build_tclass.stars = stars
    term = tclass_makers()[case["variant"]][2](F)
    owner = type(term).get_sql.__qualname__.split(".")[0] + "@" + type(term).get_sql.__module__
    build_tclass.owner = owner
    multi = len(srcs) > 1
    if shape == "upd-from":
        q = Q.update(a).from_(b)
        q = q.set(Field("tgt", table=a), term if clause == "set-value" else 1)
        if clause == "where":
            q = q.where(term)
        return q, exp, True
    if shape == "join" or shape == "alias-join":
        j = Q.from_(a).join(b)
        q = j.on(term) if clause == "on" else j.on(Field("k", table=a) == Field("k", table=b))
    elif shape in ("from2", "subq"):
        q = Q.from_(a).from_(b)
    else:
        q = Q.from_(a)
    if clause == "select":
        q = q.select(term)
    else:
        q = q.select(Field("plain", table=srcs[0][0]))
        if clause == "where":
            q = q.where(term)
        elif clause == "having":
            q = q.having(term)
        elif clause == "groupby":
            q = q.groupby(term)
        elif clause == "orderby":
            q = q.orderby(term)
    return q, exp, multi


def run_tclass(case):
    try:
        q, exp, multi = build_tclass(case)
        text = str(q)
    except Exception as e:  # noqa
        return {"text": "!" + type(e).__name__ + ": " + str(e)[:120]}
    names = {}
    for k, (obj, nm, has_alias, kind) in exp.items():
        names[k] = [getattr(obj, "alias", None) or getattr(obj, "_table_name", None), bool(getattr(obj, "alias", None)), kind]
    star_exp = [[getattr(o_, "alias", None) or getattr(o_, "_table_name", None), bool(getattr(o_, "alias", None)), k_]
                for o_, _, _, k_ in build_tclass.stars]
    return {"text": text, "obs": observe(text), "exp": names, "multi": multi, "owner": build_tclass.owner,
            "star_exp": star_exp, "star_obs": [q_ for n_, q_, _, _ in observe_full(text) if n_ == "*"]}


def _tclass_sig(outcome, why):
    """the class whose get_sql renders the term + the reason; the ClickHouse renderers that ignore the keyword arguments
    altogether (one cause per renderer) are not split by reason"""
    owner = outcome.get("owner", "?")
    if owner.split("@")[-1].startswith("pypika.clickhouse"):
        why = "keyword-arguments-ignored"
    return ["C10", "term-class", owner, why]


def oracle_tclass(case, outcome):
    viols = []
    seen = set()
    for n, qual in outcome["obs"]:
        e = outcome["exp"].get(n)
        if e is None:
            continue
        seen.add(n)
        name, has_alias, kind = e
        why = None
        if qual is not None and qual != name:
            why = "wrong-qualifier"
        elif qual is None and has_alias:
            why = "alias-dropped"
        elif qual is None and outcome["multi"]:
            why = "unqualified"
        if why:
            viols.append({"signature": _tclass_sig(outcome, why),
                          "what": "%s in %s / %s: reference %s bound to %r written with qualifier %r in %r"
                                  % (case["variant"], case["shape"], case["clause"], n, name, qual, outcome["text"][:300])})
    # qualified stars bound to a source: each must be written <source name>.* when the source has an alias or several row
    # sources are in scope (compared as multisets: the k-th expected name needs its own occurrence)
    seen_stars = list(outcome.get("star_obs", []))
    for name, has_alias, kind in outcome.get("star_exp", []):
        if not (has_alias or outcome["multi"]):
            continue
        if name in seen_stars:
            seen_stars.remove(name)
        else:
            viols.append({"signature": _tclass_sig(outcome, "star-qualifier-lost"),
                          "what": "%s in %s / %s: the star bound to %r (%s) is not written %r.* in %r"
                                  % (case["variant"], case["shape"], case["clause"], name, kind, name, outcome["text"][:300])})
    lost = sorted(set(outcome["exp"]) - seen)
    if lost and not outcome["text"].startswith("!"):
        viols.append({"signature": _tclass_sig(outcome, "reference-not-rendered"),
                      "what": "%s: bound columns %s do not appear as column tokens in %r" % (case["variant"], lost, outcome["text"][:300])})
    return _dedupe(viols)


# ----------------------------------------------------------------------------------------------
# evidence helpers
# ----------------------------------------------------------------------------------------------
def nontrivial_key(case):
    if case["kind"] == "tclass":
        return json.dumps([case["variant"], case["shape"], case["clause"]]) if case["shape"] != "single" else None
    if case["kind"] == "hist":
        return json.dumps(case["evs"]) if sum(1 for e in case["evs"] if e[1] != "table") >= 2 else None
    if case["kind"] == "term":
        fs = []
        term_fields(case["t"], fs)
        if any((f[2] if f[0] == "field" else f[1]) is not None for f in fs):
            return json.dumps([case["t"], case["c"]], sort_keys=True)
        return None
    refs, info, stmts, _ = analyse(case["q"])
    ok = False
    for r in refs:
        st = info[r["sid"]]
        if st["nsrc"] > 1 or st["correlated"]:
            ok = True
    for s, _, _ in stmts:
        for src in own_sources(s):
            if (src[0] == "t" and src[1][2]) or src[0] == "q":
                ok = ok or bool(refs)
    return json.dumps(case["q"], sort_keys=True) if ok else None


def histogram(cases):
    h = {}

    def inc(k, n=1):
        h[k] = h.get(k, 0) + n
    for c in cases:
        inc("kind=" + c["kind"])
        if c["kind"] == "tclass":
            inc("tclass-shape:" + c["shape"])
            inc("tclass-clause:" + c["clause"])
            continue
        if c["kind"] == "hist":
            for e in c["evs"]:
                inc("hist:%s-%s" % (e[0], e[1]))
            continue
        if c["kind"] == "term":
            continue
        refs, info, stmts, _ = analyse(c["q"])
        inc("statements", len(stmts))
        inc("max-depth=%d" % max(_depth(c["q"]), 0))
        for s, pos, _ in stmts:
            inc("stmt:" + s["k"])
            inc("pos:" + pos)
            n = len(own_sources(s)) + (1 if s["k"] == "upd" else 0)
            inc("sources=%d" % min(n, 4))
            for src in own_sources(s):
                if src[0] == "t":
                    inc("table" + ("+alias" if src[1][2] else "") + ("+schema%d" % len(src[1][1]) if src[1][1] else ""))
                elif src[0] == "q":
                    inc("subquery-source" + ("+alias" if src[1].get("alias") else ("+pretag" if src[1].get("pretag") is not None else "")))
                lk_ = src[1].get("lookup") if src[0] == "q" else (src[2].get("lookup") if src[0] == "t" and len(src) > 2 and src[2] else None)
                if lk_:
                    inc("looked-up-source:%s:%s/%s%s" % ("subquery" if src[0] == "q" else "table", lk_["how"], lk_["refine"],
                                                          "/used-before" if lk_.get("use") else ""))
        for r in refs:
            inc("ref:" + r["clause"])
            inc("bind:" + r["bind"][0])
        for k, st in info.items():
            if st["correlated"]:
                inc("correlated-statements")
        for s, pos, _ in stmts:
            sid_ = [n_ for n_, (x_, _, _) in enumerate(stmts) if x_ is s][0]
            if info[sid_]["corr_where"] and s.get("where") is not None:
                inc("correlated-where-item:" + s["where"][0])
    return h


def _depth(s):
    cs = child_statements(s)
    return 1 + max([_depth(c) for _, c in cs] + [0])


def targeted_search(rng, broken, mism_cases):
    """denser batches of the small shapes each clause renderer / naming path is exercised by"""
    out = []
    T, U = ["t", [], None], ["u", [], "ua"]
    s0, s1 = ["#0", [], None], ["#1", [], None]
    on = ["on", ["t", ["basic", "eq", _f("id", s0), _f("id", s1), None]]]
    for cls in ("Query", "MySQLQuery", "SQLLiteQuery", "OracleQuery"):
        base = {"k": "sel", "cls": cls, "from": [["t", T]], "joins": [["inner", ["t", U], on]],
                "selects": [["t", _f("a", s0)], ["t", ["star", s1]], ["t", ["func", "F", [_f("b", s1)], None]],
                            ["t", ["case", [[["basic", "gt", _f("c", s0), ["vali", 0, None], None], _f("c", s1)]], _f("a", s1), None]]],
                "where": ["t", ["basic", "gt", _f("b", s0), _f("b", s1), None]],
                "groupby": [["t", _f("c", s0)]], "having": ["t", ["basic", "gt", ["func", "SUM", [_f("c", s1)], None], ["vali", 1, None], None]],
                "orderby": [[["t", _f("a", s1)], "asc"]]}
        out.append({"kind": "stmt", "q": sentinelise(copy.deepcopy(base))})
        two = copy.deepcopy(base)
        two["joins"] = []
        two["from"] = [["t", T], ["t", U]]
        out.append({"kind": "stmt", "q": sentinelise(two)})
        three = copy.deepcopy(two)
        three["from"] = [["t", T], ["t", U], ["t", ["v", ["s"], None]]]
        out.append({"kind": "stmt", "q": sentinelise(three)})
        subs = {"k": "sel", "cls": cls, "from": [["q", {"k": "sel", "cls": cls, "from": [["t", T]], "selects": [["t", _f("a", s0)]]}],
                                                 ["q", {"k": "sel", "cls": cls, "from": [["t", U]], "selects": [["t", _f("a", s0)]]}]],
                "selects": [["t", _f("a", s0)], ["t", _f("a", s1)]]}
        out.append({"kind": "stmt", "q": sentinelise(subs)})
    for c in mism_cases:
        if c.get("kind") == "stmt":
            for s, pos, _ in all_statements(c["q"])[1:6]:
                out.append({"kind": "stmt", "q": copy.deepcopy(s)})
    for _ in range(400):
        g = CGen(rng, max_depth=1, p_subq=0.3)
        q = g.any()
        sentinelise(q)
        out.append({"kind": "stmt", "q": q})
    for _ in range(150):
        out.append({"kind": "exec", "q": XGen(rng, p_bad=0.0).stmt()})
    for _ in range(150):
        out.append(gen_term_case(rng))
    for _ in range(600):
        out.append(gen_hist(rng))
    return out
