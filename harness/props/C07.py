"""C07 — one dialect context governs the whole statement at every depth.
Model: coq/Dialect.v (role-tagged token view of Terms.render / Query.rquery, class re-labelling, explicit kwargs),
coq/lemmas/Dialect*.v, statement coq/props/C07.v.  Class constants are regenerated into gen/QueryTable.v on every run."""
import copy
import json
import re

from harness import queries_family as qf
from harness import terms_family as tf
from harness.lib import S, OS, B, O, P
from harness.query_extract import CLASSES, qclass

ID = "C07"
COQ_PROP = "props/C07.v"
CORR_REQUIRE = ["Crit", "gen.TermsTable", "Terms", "Page", "gen.QueryTable", "Query", "QueryCorr", "Dialect", "DialectCorr"]
CORR_CHECK = "check_case"
CORR_SHOW = "show_case"
SHARED_EXTRACT = ["terms", "query"]
SHARD = 120
RULE = ("statement specs of the `queries` family (SELECT with WITH/joins/sub-query sources, IN/EXISTS/comparison/select-list "
        "sub-queries, sub-queries and literals inside function arguments, set operations, INSERT/UPDATE/DELETE) whose "
        "(sub-)statements are built by independently chosen query classes; each spec is rendered (a) as labelled, (b) with "
        "every level re-labelled to one class, for each of the ten classes, (c) through get_sql with explicit quote kwargs. "
        "Correspondence: token model text == pypika text == shared string model. Oracle: the spec is rebuilt with sentinel "
        "names per role; every occurrence must carry the outer convention's quote; devendored token sequences are compared "
        "across the ten classes. Non-trivial = at least one sub-query of a class other than the outer one, or a function "
        "argument containing a sub-query/literal/alias, or explicit kwargs; distinct by structural hash.")
TRUSTED = [
    "harness/queries_family.py + harness/terms_family.py build the same statement on pypika and as a Gallina value",
    "harness/query_extract.py reads QUOTE_CHAR / SECONDARY_QUOTE_CHAR / ALIAS_QUOTE_CHAR / QUERY_ALIAS_QUOTE_CHAR / dialect / "
    "as_keyword / wrap_set_operation_queries off real builder instances on every run (gen/QueryTable.v)",
    "oracle lexer (harness/props/C07.py: lex, devendor): SQL tokens, the documented vendor segments it erases",
]
ASSUMPTIONS = [
    "statement shapes are those of coq/Query.v; vendor-only clauses (MySQL ON DUPLICATE KEY UPDATE, PostgreSQL ON CONFLICT / "
    "RETURNING, MSSQL TOP, ClickHouse FINAL/SAMPLE/LIMIT BY, Interval literals) are checked by the oracle on the implementation "
    "only (no Gallina model)",
    "explicit kwargs: quote_char optional; secondary_quote_char / alias_quote_char / as_keyword passed together or not at all",
]

CLS_NAMES = [name for _, name in CLASSES]
CTOR = {name: ctor for ctor, name in CLASSES}


# ----------------------------------------------------------------------------------------------
# spec utilities
# ----------------------------------------------------------------------------------------------
def relabel_spec(s, cls):
    """the same specification with every (sub-)statement built by `cls`"""
    if cls is None:
        return s
    s = copy.deepcopy(s)

    def walk(x):
        if isinstance(x, dict):
            if "cls" in x:
                x["cls"] = cls
            for v in x.values():
                walk(v)
        elif isinstance(x, list):
            for v in x:
                walk(v)
    walk(s)
    return s


def top_cls_name(s):
    if s["k"] == "set":
        b = s["base"]
        return b["cls"] if b["k"] == "sel" else "Query"
    return s["cls"]


def kw_python(kw):
    out = {}
    if "q" in kw:
        out["quote_char"] = kw["q"]
    if "rest" in kw:
        out["secondary_quote_char"], out["alias_quote_char"], out["as_keyword"] = kw["rest"]
    return out


def kw_coq(kw):
    q = "None" if "q" not in kw else "(Some %s)" % OS(kw["q"])
    rest = "None" if "rest" not in kw else "(Some (%s, %s, %s))" % (OS(kw["rest"][0]), OS(kw["rest"][1]), B(kw["rest"][2]))
    return "{| kw_q := %s; kw_rest := %s |}" % (q, rest)


def render(spec, kw=None):
    try:
        q = qf.build_query(spec)
        return str(q) if kw is None else q.get_sql(**kw_python(kw))
    except Exception as e:  # noqa
        return "!" + type(e).__name__


# ----------------------------------------------------------------------------------------------
# generation
# ----------------------------------------------------------------------------------------------
class DGen(qf.QGen):
    """QGen plus the constructs C07 is about: arrays, booleans, aliased literals / criteria, literals and aliases
    inside function arguments, set operations as sources"""

    def value(self):
        r = self.r.random()
        if r < 0.08:
            return ["array", [["vali", self.r.choice([1, 2, 3]), None] for _ in range(self.r.choice([0, 1, 2]))], None]
        return super().value()

    def sitem(self, cls, nsrc, depth):
        r = self.r.random()
        if r < 0.06:
            return ["t", ["vals", self.r.choice(["abc", "it's", 'say "hi"']), self.r.choice([None, "lit"])]]
        if r < 0.10:
            return ["t", ["func", "F", [["vals", self.r.choice(["x", "it's"]), self.r.choice([None, "inner"])],
                                      self.field(nsrc)], self.r.choice([None, "fa"])]]
        if r < 0.13:
            return ["t", ["basic", "eq", self.field(nsrc), self.field(nsrc), self.r.choice([None, "crit"])]]
        if r < 0.16:
            return ["t", ["array", [self.field(nsrc), ["vals", "s", None]], self.r.choice([None, "arr"])]]
        if r < 0.18:
            return ["t", ["valb", self.r.random() < 0.5, cls == "SQLLiteQuery", None]]
        if depth < self.max_depth and r < 0.24:
            sub = self.select(self.cls(cls), depth + 1, small=True, nsel=1)
            sub["selects"] = [["t", self.alias_of_forced(self.field(1))]]
            if self.r.random() < 0.4:
                sub["groupby"] = [sub["selects"][0]]
            return ["func", self.r.choice(["COALESCE", "F"]), [["sub", sub], ["t", self.value()]], self.r.choice([None, "fa"])]
        return super().sitem(cls, nsrc, depth)

    def alias_of_forced(self, t):
        t = list(t)
        t[-1] = self.r.choice(["al", "n", "total"])
        return t

    def over_setop(self, cls):
        """SELECT ... FROM (<set operation>) [alias]: the only position where a set operation is used as a source
        (next to joins an un-aliased table would pick up pypika's "2" alias: Term.__eq__ makes `table in [setop]` true)"""
        so = self.setop(self.cls(cls))
        if self.r.random() < 0.6:
            so["alias"] = self.r.choice(["su", "z"])
        q = {"k": "sel", "cls": cls, "from": [["q", so]], "joins": [],
             "selects": [self.sitem(cls, 1, 1) for _ in range(self.r.choice([1, 2]))]}
        if self.r.random() < 0.5:
            q["where"] = self.citem(cls, 1, 1)
        return q

    def any(self):
        if self.r.random() < 0.06:
            return self.over_setop(self.cls())
        return super().any()


def gen_kw(rng):
    kw = {}
    if rng.random() < 0.7:
        kw["q"] = rng.choice(['"', "`", None, "["])
    if rng.random() < 0.7:
        kw["rest"] = [rng.choice(["'", '"', "'"]), rng.choice([None, '"', "`", ""]), rng.random() < 0.4]
    return kw


def gen_cases(rng, tier):
    n = 150 if tier == "quick" else 1800
    out = []
    for i in range(n):
        g = DGen(rng, p_alias=rng.choice([0.3, 0.5]), p_subq=rng.choice([0.3, 0.45, 0.6]),
                 max_depth=rng.choice([1, 2, 2, 3] if tier == "quick" else [2, 3, 3]),
                 hostile=0.15, inner_same_cls=rng.choice([0.0, 0.3, 0.6]))
        spec = g.any()
        out.append({"spec": spec, "relabel": None, "kw": None})
        out.append({"spec": spec, "relabel": rng.choice(CLS_NAMES), "kw": None})
        if rng.random() < 0.5:
            out.append({"spec": spec, "relabel": rng.choice([None, None, rng.choice(CLS_NAMES)]), "kw": gen_kw(rng)})
    return out


def corpus():
    return []


# ----------------------------------------------------------------------------------------------
# implementation
# ----------------------------------------------------------------------------------------------
def run_impl(case):
    spec = relabel_spec(case["spec"], case.get("relabel"))
    return {"text": render(spec, case.get("kw"))}


def to_coq(case, outcome):
    if "text" not in outcome:
        return None
    rl = case.get("relabel")
    kw = case.get("kw")
    return P(O(None if rl is None else CTOR[rl]), O(None if kw is None else kw_coq(kw)), qf.coq_query(case["spec"]),
             S(outcome["text"]))


def oracle(case, outcome):
    return []


def nontrivial_key(case):
    return json.dumps(case, sort_keys=True)


def histogram(cases):
    h = {}
    for c in cases:
        qf.shape(c["spec"], h)
    return h
